"""C14 — validators and convert_value: correspondence between the real validators / convert_value and the Lean model + spec.

Case (`c`, what the driver gets): {"k": kind, "v": value, …configuration…, …oracle answers…}.  Values are *descriptors*
(see Drv/Validators.lean); the Python side builds a fresh object from the descriptor for every run.  Oracle answers
(uuid.UUID, Enum(v), int(v), re, datetime.fromisoformat, float(v), timedelta, str(v), float(str)) are obtained here by
calling the standard library directly — never through the library under test.
"""
import math, re, os, sys, json, struct, subprocess, itertools, unicodedata, uuid as _uuid, enum as _enum, datetime as _dt, decimal, fractions

RULE = ('structured generation per validator: every numeric bound (ints, floats incl. 2**53±1, denormals, 1e308, -0.0, ±inf, NaN, bool) x '
        '{b, nextafter(b,±inf), b±1, int(b)±1, ±inf, nan, ±10**400, bool} x include_boundary x {Min, Max}; lengths n-1, n, n+1 for '
        'str/bytes/list/tuple/dict/set/range + unsized values; blank / non-blank strings from every Unicode whitespace character and '
        'look-alikes x strip; e-mail strings from a grammar with each side condition violated in turn (all whitespace classes at all '
        'positions, second @, trailing newline, empty parts, non-ASCII-alnum suffix) + seeded adversarial strings; UUID surface forms '
        'and near misses; Enum/IntEnum/StrEnum members, names, values, case variants, numbers incl. NaN/±inf/10**400; ISO strings; '
        'timestamps at the datetime range limits (ints, adjacent floats, strings), NaN, ±inf, 10**400 - in the time zone of the machine AND, '
        'in a child process per zone that sets TZ and calls time.tzset() before the library is imported, in the fixed-offset zones JST-9, EST5 and '
        '<+0530>-5:30 (no tz database needed; same cases, same specification: a timestamp denotes datetime(1970, 1, 1) + its seconds in EVERY zone); '
        'typed random ForEach/Composite '
        'trees of depth <= 3 over real and scripted leaf validators; convert_value on a value zoo (incl. bytes / bytearray with valid and INVALID UTF-8: '
        'latin-1 text, truncated / overlong sequences, lone continuation bytes, surrogates, BOMs, random byte strings) x the six target types and str(x) '
        'round trips for bools, ints and floats.  non-trivial = inside the documented input domain (spec is not `na`)')
EXHAUSTIVE = {'quick': False, 'thorough': False}
ASSUMPTIONS = [
    'time zones: the unix-timestamp cases run under the zone of the machine and under the fixed-offset zones JST-9, EST5, <+0530>-5:30 (child process, TZ set before the library is imported); zones with DST transitions (they need a tz database) are not exercised',
    'inputs outside a validator\'s documented input domain (Min against a non-number, Email on a non-str, a leaf validator that raises a foreign exception) are outside the quantifier; they are run and reported as tag `…/na` only',
    'str(value) of the values used is what the harness obtains by calling str() itself; objects whose __str__ raises something other than ValueError are not generated (ints beyond sys.get_int_max_str_digits(), whose str() raises ValueError, are)',
    'strings used with convert_value are such that str.lower() acts character by character (no final-sigma context)',
    'one-shot iterators are only given to trees without a Composite (a Composite hands the same, by then exhausted, iterator to its later children); instances of subclasses of int/str (IntEnum/StrEnum members) are only used with IsEnum',
]
TRUSTED = [
    'stdlib oracles: uuid.UUID, Enum.__call__, int(), float(), str(), re (for non-default patterns), datetime.fromisoformat, timedelta(seconds=…) are called by the harness and their answers handed to the model as function tables (the driver answers `oracle-missing` for an argument the harness did not ask for, which the judge reports as an inconsistency); the model is the generated translation of the validate bodies with these callees as opaque parameters, and the theorems say what the validators do with ANY such functions',
    'non-ASCII whitespace / lower-case / decimal-digit tables are computed by the harness with str.isspace / re \\s / str.lower / unicodedata.decimal for the characters of each case; the ASCII part is computed inside the Lean model',
]

INF = float('inf')
NAN = float('nan')

# ------------------------------------------------------------------ harness-side enums / leaf validators


class E(_enum.Enum):
    A = 'A'
    B = 'b'
    C = 1
    D = 2.5


class IE(_enum.IntEnum):
    Z = 0
    A = 1
    B = 2


class SE(_enum.StrEnum):
    A = 'A'
    X = 'x'
    MIX = 'Mix'


ENUMS = {'E': E, 'IE': IE, 'SE': SE}

# ------------------------------------------------------------------ value descriptors


def cps(s):
    return [ord(c) for c in s]


def jint(n):
    """ints beyond 63 bits travel as signed hex strings (json refuses decimal ints beyond the interpreter's digit limit)"""
    return n if abs(n) < 2 ** 63 else hex(n)


def unjint(n):
    return int(n, 16) if isinstance(n, str) else int(n)


def enc(v, reg=None):
    """descriptor of a Python value (inputs and results); reg maps id(generator object) -> the descriptor it was built from"""
    if v is None:
        return None
    if reg and id(v) in reg:
        return reg[id(v)]
    if isinstance(v, _enum.Enum):
        return ['ext', 'enum', f'{type(v).__name__}.{v.name}']
    if isinstance(v, bool):
        return ['bool', v]
    if isinstance(v, int):
        return ['int', jint(int(v))]
    if isinstance(v, float):
        if v != v:
            return ['float', 'nan']
        if v in (INF, -INF):
            return ['float', 'inf' if v > 0 else '-inf']
        n, d = v.as_integer_ratio()
        return ['float', jint(n), jint(d), v == 0 and math.copysign(1.0, v) < 0]
    if isinstance(v, str):
        return ['str', cps(v)]
    if isinstance(v, bytes):
        return ['bytes', list(v)]
    if isinstance(v, bytearray):
        return ['ext', 'bytearray', v.hex()]
    if isinstance(v, list):
        return ['list', [enc(x, reg) for x in v]]
    if isinstance(v, tuple):
        return ['tuple', [enc(x, reg) for x in v]]
    if isinstance(v, (set, frozenset)):
        return ['set', [enc(x) for x in v]]
    if isinstance(v, dict):
        if all(isinstance(k, str) and isinstance(x, str) for k, x in v.items()):
            return ['dict', [[cps(k), cps(x)] for k, x in v.items()]]
        return ['ext', 'dict', repr(v)]
    if isinstance(v, range) and v.start == 0 and v.step == 1:
        return ['range', len(v)]
    if isinstance(v, _uuid.UUID):
        return ['ext', 'uuid', str(v)]
    if isinstance(v, _dt.datetime):
        if v.tzinfo is None:
            return ['ext', 'datetime_us', str((v - _dt.datetime(1970, 1, 1)) // _dt.timedelta(microseconds=1))]
        return ['ext', 'datetime_iso', v.isoformat()]
    if isinstance(v, decimal.Decimal):
        return ['ext', 'decimal', str(v)]
    if isinstance(v, fractions.Fraction):
        return ['ext', 'fraction', str(v)]
    if isinstance(v, complex):
        return ['ext', 'complex', repr(v)]
    if type(v) is object:
        return ['ext', 'object', '']
    return ['ext', 'other', type(v).__name__]


def dec(e, reg=None):
    """a fresh Python object from a descriptor"""
    if e is None:
        return None
    t = e[0]
    if t == 'bool':
        return bool(e[1])
    if t == 'int':
        return unjint(e[1])
    if t == 'float':
        if e[1] == 'nan':
            return float('nan')
        if e[1] == 'inf':
            return INF
        if e[1] == '-inf':
            return -INF
        if len(e) > 3 and e[3]:
            return -0.0
        return unjint(e[1]) / unjint(e[2])
    if t == 'str':
        return ''.join(chr(c) for c in e[1])
    if t == 'bytes':
        return bytes(e[1])
    if t == 'list':
        return [dec(x, reg) for x in e[1]]
    if t == 'tuple':
        return tuple(dec(x, reg) for x in e[1])
    if t == 'set':
        return set(dec(x) for x in e[1])
    if t == 'gen':
        g = (x for x in [dec(y, reg) for y in e[1]])
        if reg is not None:
            reg[id(g)] = e
        return g
    if t == 'dict':
        return {''.join(map(chr, k)): ''.join(map(chr, x)) for k, x in e[1]}
    if t == 'range':
        return range(e[1])
    if t == 'ext':
        k, r = e[1], e[2]
        if k == 'enum':
            c, n = r.split('.')
            return ENUMS[c][n]
        if k == 'uuid':
            return _uuid.UUID(r)
        if k == 'decimal':
            return decimal.Decimal(r)
        if k == 'fraction':
            return fractions.Fraction(r)
        if k == 'complex':
            return complex(r)
        if k == 'bytearray':
            return bytearray.fromhex(r)
        if k == 'datetime_us':
            return _dt.datetime(1970, 1, 1) + _dt.timedelta(microseconds=int(r))
        return object()
    raise ValueError(e)


def is_set_desc(e):
    return isinstance(e, list) and e and e[0] == 'set'


def fix_set_order(e):
    """a set descriptor lists the elements in the iteration order of the set that dec() builds from it"""
    if is_set_desc(e):
        for _ in range(6):
            e2 = enc(dec(e))
            if e2 == e:
                return e
            e = e2
        return ['list', e[1]]
    return e


KNOWN_EXC = ['ValueError', 'TypeError', 'OverflowError', 'AttributeError', 'KeyError', 'IndexError', 'ArithmeticError',
             'LookupError', 'Exception', 'BaseException']


def exc_class(ex):
    """canonical class name: pedantic's own classes by name, builtins by the nearest class the model knows"""
    t = type(ex)
    if t.__module__.startswith('pedantic'):
        return t.__name__
    for c in t.__mro__:
        if c.__name__ in KNOWN_EXC and c.__module__ == 'builtins':
            return c.__name__
    return t.__name__


def orc(f, conv=lambda r: r):
    try:
        return ['ok', conv(f())]
    except Exception as ex:   # noqa
        return ['raises', exc_class(ex)]


def nonascii_spaces(s, regex=False):
    out = []
    for c in set(s):
        if ord(c) >= 128 and ((re.match(r'\s', c) is not None) if regex else c.isspace()):
            out.append(ord(c))
    return sorted(out)


# ------------------------------------------------------------------ case constructors (oracle answers are computed here)

def mk(kind, v, x=None, **cfg):
    c = {'k': kind, 'v': v}
    c.update(cfg)
    return {'m': 'validators', 'c': c, 'x': x or {}}


def str_of_desc(v):
    return dec(v) if isinstance(v, list) and v and v[0] == 'str' else ''


def c_minmax(kind, bound, incl, v):
    return mk(kind, v, bound=bound, incl=incl)


def c_len(kind, n, v):
    return mk(kind, fix_set_order(v), n=n)


def c_notempty(strip, v):
    return mk('notempty', fix_set_order(v), strip=strip, spaces=nonascii_spaces(str_of_desc(v)))


POSTS = {'id': lambda x: x, 'upper': lambda x: x.upper(), 'const': lambda x: 'CONST'}


def c_email(v, post='id'):
    s = str_of_desc(v)
    pv = enc(POSTS[post](s)) if isinstance(v, list) and v and v[0] == 'str' else None
    return mk('email', v, {'post': post}, spaces=nonascii_spaces(s, regex=True), post=pv)


def c_emailc(pattern, v, post='id'):
    val = dec(v)
    m = orc(lambda: re.fullmatch(pattern, val) is not None)
    pv = enc(POSTS[post](val)) if isinstance(val, str) else None
    return mk('emailc', v, {'post': post, 'pattern': pattern}, matched=m, post=pv)


def c_pattern(pattern, v):
    val = dec(v)
    return mk('pattern', v, {'pattern': pattern}, matched=orc(lambda: re.compile(pattern).search(str(val)) is not None))


def c_uuid(convert, v):
    val = dec(v)
    return mk('uuid', v, convert=convert, o=orc(lambda: _uuid.UUID(str(val)), enc))


def c_enum(cls, convert, upper, v):
    val = dec(v)
    en = ENUMS[cls]
    is_str = isinstance(val, str)
    up = enc(val.upper()) if is_str else None
    cands = [val, val.upper() if is_str else val]
    int_of = [orc(lambda c=c: int(c), enc) for c in cands]
    lookup = []
    for c in cands:
        row = [orc(lambda c=c: en(c), enc)]
        try:
            i = int(c)
            row.append(orc(lambda i=i: en(i), enc))
        except Exception:   # noqa
            row.append(['raises', 'ValueError'])    # never consulted: int() failed
        lookup.append(row)
    env = {'isStr': is_str, 'upper': up, 'isIntEnum': issubclass(en, _enum.IntEnum), 'intOf': int_of, 'lookup': lookup}
    return mk('enum', v, {'cls': cls}, convert=convert, upper=upper, env=env)


def c_iso(v):
    val = dec(v)
    return mk('iso', v, o=orc(lambda: _dt.datetime.fromisoformat(val), enc))


TZ_ZONES = ['JST-9', 'EST5', '<+0530>-5:30']        # POSIX TZ strings with a fixed offset: understood without a tz database


def c_unix(v, tz=None):
    val = dec(v)
    if isinstance(val, (int, float, str)):
        fl = orc(lambda: float(val))
    else:
        fl = ['raises', 'TypeError']
    if fl[0] == 'ok':
        x = fl[1]
        td = orc(lambda: jint(_dt.timedelta(seconds=x) // _dt.timedelta(microseconds=1)))
        fl = ['ok', enc(x)]
    else:
        td = ['raises', 'ValueError']       # never consulted
    return mk('unix', v, {'tz': tz} if tz else None, fl=fl, td=td)


def collect_strs(e, out):
    if isinstance(e, list) and e:
        if e[0] == 'str':
            out.append(''.join(map(chr, e[1])))
        elif e[0] in ('list', 'tuple', 'set', 'gen'):
            for x in e[1]:
                collect_strs(x, out)
        elif e[0] == 'dict':
            for k, x in e[1]:
                out.append(''.join(map(chr, k)))


def c_tree(t, leaves, v, single=False):
    ss = []
    collect_strs(v, ss)
    return mk('tree', v, {'single': single}, t=t, leaves=leaves, spaces=nonascii_spaces(''.join(ss)))


TARGETS = {'bool': bool, 'int': int, 'float': float, 'str': str, 'list': list, 'dict': dict}


def c_convert(v, target, rt=None):
    """rt: descriptor of x when the case is the round trip convert_value(str(x), type(x))"""
    val = dec(v)
    so = orc(lambda: str(val), cps)
    env = {'spaces': [], 'lower': [], 'digits': [], 'max': sys.get_int_max_str_digits(), 'str': so, 'floats': []}
    ok = True
    if so[0] == 'ok':
        s = str(val)
        env['spaces'] = nonascii_spaces(s)
        for ch in sorted(set(s)):
            if ord(ch) >= 128:
                env['lower'].append([ord(ch), cps(ch.lower())])
                d = unicodedata.decimal(ch, None)
                if d is not None:
                    env['digits'].append([ord(ch), int(d)])
        if ''.join(ch.lower() for ch in s) != s.lower():
            ok = False
        cands = {s, s.strip(), s.lower(), s.strip().lower(), s.lower().strip()}
        env['floats'] = [[cps(cand), orc(lambda cand=cand: float(cand), enc)] for cand in sorted(cands)]
    case = mk('convert', v, {'rt': rt}, t=target, env=env)
    return case if ok else None


# ------------------------------------------------------------------ generators

def f_bits(rng):
    while True:
        x = struct.unpack('<d', struct.pack('<Q', rng.getrandbits(64)))[0]
        if x == x and abs(x) != INF:
            return x


def numeric_bounds(rng, tier):
    ints = [0, 1, -1, 5, 7, -3, 2 ** 53, 2 ** 53 + 1, -(2 ** 53) - 1, 10 ** 18, 10 ** 30, -10 ** 30, 2 ** 1024]
    floats = [0.0, -0.0, 0.5, 1.5, 7.0, -2.25, 5e-324, 1e-320, 0.1, 1 / 3, 1e16, 2.0 ** 53, 1e308, -1e308, 1.7976931348623157e308, INF, -INF]
    n = 6 if tier == 'quick' else 60
    for _ in range(n):
        ints.append(rng.randint(-10 ** rng.randint(1, 25), 10 ** rng.randint(1, 25)))
        floats.append(f_bits(rng))
        floats.append(float(rng.randint(-10 ** 6, 10 ** 6)) + rng.choice([0.0, 0.5, 0.25]))
    return ints + floats + [True, False]


def near(b):
    """values adjacent to the bound b"""
    out = [b]
    if isinstance(b, float) and b == b:
        out += [math.nextafter(b, INF), math.nextafter(b, -INF)]
        if abs(b) != INF:
            out += [b + 1, b - 1, int(b), int(b) + 1, int(b) - 1]
            if b == int(b):
                out.append(int(b))
    elif isinstance(b, int):
        b = int(b)
        out += [b + 1, b - 1]
        try:
            fb = float(b)
            out += [fb, math.nextafter(fb, INF), math.nextafter(fb, -INF)]
        except OverflowError:
            pass
    out += [INF, -INF, NAN, 10 ** 400, -10 ** 400, True, False, 0, -0.0]
    return out


def gen_minmax(rng, tier):
    out = []
    for b in numeric_bounds(rng, tier):
        for incl in (True, False):
            for v in near(b):
                for kind in ('min', 'max'):
                    out.append(c_minmax(kind, enc(b), incl, enc(v)))
    for kind in ('min', 'max'):
        for incl in (True, False):
            for v in (3, 3.5, NAN, INF):
                out.append(c_minmax(kind, enc(NAN), incl, enc(v)))
            # outside the domain: a number against a non-number
            for b, v in (('6', 7), (5, '7'), (5, None), (5, [1]), (None, 5), (5.0, 'x'), (5, b'1')):
                out.append(c_minmax(kind, enc(b), incl, enc(v)))
    return out


def sized_values(n, rng):
    """descriptors of containers with exactly n elements (n >= 0), one per container kind"""
    chars = [rng.choice('abcxyz09 .\t') for _ in range(n)]
    wide = [rng.choice(['é', '́', '\U0001F600', '　', 'ß', '​']) for _ in range(n)]
    return [['str', cps(''.join(chars))], ['str', cps(''.join(wide))], ['bytes', [rng.randrange(256) for _ in range(n)]],
            ['list', [enc(rng.randint(-3, 3)) for _ in range(n)]], ['list', [None] * n],
            ['tuple', [enc(rng.choice([0, 'a', None, 1.5])) for _ in range(n)]],
            ['dict', [[cps(f'k{i}'), cps('v')] for i in range(n)]], ['set', [enc(i * 7 - 3) for i in range(n)]],
            ['range', n], ['list', [['list', []]] * n]]


UNSIZED = [None, ['bool', True], ['int', 3], ['float', 3, 2, False], ['gen', [['int', 1], ['int', 2]]], ['gen', []],
           ['ext', 'object', ''], ['ext', 'uuid', '12345678-1234-5678-1234-567812345678'], ['ext', 'enum', 'E.A']]


def gen_len(rng, tier):
    out = []
    limits = [0, 1, 2, 3, 5, -1] + ([8, 17] if tier == 'thorough' else [])
    for n in limits:
        for kind in ('minlen', 'maxlen'):
            for m in (n - 1, n, n + 1):
                if m >= 0:
                    for v in sized_values(m, rng):
                        out.append(c_len(kind, n, v))
            for v in UNSIZED:
                out.append(c_len(kind, n, v))
    return out


WS = [chr(c) for c in range(0x110000) if chr(c).isspace()]
LOOKALIKE = ['​', '᠎', '﻿', '\x00', '\x7f', '\x1b', '⁠', '\xad', '_', 'a']


def gen_notempty(rng, tier):
    out = []
    for strip in (True, False):
        for w in WS + LOOKALIKE:
            for s in (w, w + w, w + 'a' + w, 'a' + w + 'b', w + 'a', 'a' + w, ' ' + w + '\t', w + ' x y ' + w + '\n'):
                out.append(c_notempty(strip, enc(s)))
        for s in ('', 'a', ' ', '  a  b  '):
            out.append(c_notempty(strip, enc(s)))
        for _ in range(60 if tier == 'quick' else 1500):
            alph = WS + LOOKALIKE + list('ab')
            s = ''.join(rng.choice(alph) for _ in range(rng.randint(0, 7)))
            out.append(c_notempty(strip, enc(s)))
        for m in (0, 1, 2):
            for v in sized_values(m, rng):
                out.append(c_notempty(strip, v))
        for v in UNSIZED:
            out.append(c_notempty(strip, v))
    return out


RE_WS = [chr(c) for c in range(0x3100) if re.match(r'\s', chr(c))]
EMAIL_ALPH = list('ab.@Z9-_+ \n\t') + [' ', ' ', '\x1c', '\x85', 'é', 'ß', '١', '​', '.', '.', '@', 'ａ', '　', '\r', '\x0b', '\x1f']


def gen_email(rng, tier):
    out = []
    base = [('a', 'b', 'c'), ('john.doe+tag', 'mail.example', 'org'), ('x_y-z', 'd-1.e', 'Z9'), ('é', 'ü', 'de'), ('a', 'b.c', 'd0')]
    strs = set()
    for l, d, t in base:
        good = l + '@' + d + '.' + t
        strs.add(good)
        # each side condition violated in turn
        strs.update([good + '\n', '\n' + good, good + ' ', l + '@@' + d + '.' + t, l + '@' + d + '@.' + t, l + '@' + d + '.' + t + '@',
                     '@' + d + '.' + t, l + '@.' + t, l + '@' + d + '.', l + '@' + d, l + d + '.' + t, l + '@' + d + '.' + t + '-',
                     l + '@' + d + '.' + t + 'é', l + '@' + d + '.١', l + '@' + d + '.ａ', l + '@' + d + '._', l + '@' + d + '..' + t,
                     l + '@.' + d + '.' + t, '.' + l + '@' + d + '.' + t, l + '@' + d + '.' + t + '.', good.upper(), good + '.' + t])
        for w in RE_WS + ['​', '᠎', '﻿']:
            for pos in range(len(good) + 1):
                if tier == 'thorough' or pos in (0, len(l), len(l) + 1, len(good) - len(t), len(good)) or rng.random() < 0.15:
                    strs.add(good[:pos] + w + good[pos:])
        for pos in range(len(good)):
            strs.add(good[:pos] + good[pos + 1:])
            strs.add(good[:pos] + '@' + good[pos:])
    strs.update(['', '@', '.', '@.', 'a@.', '@b.c', 'a@b', 'a@b.', 'a@b.c', 'a.b@c', 'a@b..c', 'a@b.c.', '@@.', 'a@b.c\r\n', 'a@b.c\x0b'])
    n = 1500 if tier == 'quick' else 100000
    for _ in range(n):
        k = rng.random()
        if k < 0.5:
            l = ''.join(rng.choice('ab.-_+9') for _ in range(rng.randint(0, 3)))
            d = ''.join(rng.choice('ab.-9') for _ in range(rng.randint(0, 4)))
            t = ''.join(rng.choice('abZ9') for _ in range(rng.randint(0, 3)))
            s = l + '@' + d + '.' + t
            if rng.random() < 0.5:
                i = rng.randint(0, len(s))
                s = s[:i] + rng.choice(EMAIL_ALPH) + s[i:]
            if rng.random() < 0.2 and s:
                i = rng.randrange(len(s))
                s = s[:i] + s[i + 1:]
        else:
            s = ''.join(rng.choice(EMAIL_ALPH) for _ in range(rng.randint(0, 8)))
        strs.add(s)
    for i, s in enumerate(sorted(strs)):
        out.append(c_email(enc(s), ('id', 'id', 'upper', 'const')[i % 4]))
    for v in (5, None, b'a@b.c', ['a@b.c'], 1.5):
        out.append(c_email(enc(v)))
    for pat in (r'.+@example\.org', r'[a-z]+', r'(?i)[a-z]+@x', r'a*', r'\S+@\S+'):
        for s in ('joe@example.org', 'joe@example.org\n', 'JOE@X', 'joe@x', '', 'aaa', 'aaab', 'a b@c', ' joe@example.org'):
            out.append(c_emailc(pat, enc(s), rng.choice(['id', 'upper'])))
        out.append(c_emailc(pat, enc(5)))
    return out


def gen_pattern(rng, tier):
    out = []
    pats = [r'a+', r'^a+$', r'^\d{3}$', r'\d', r'^$', r'None', r'^5$', r'(?i)^yes$', r'^[a-f0-9]{4}\Z', r'b$', r'\s', r'^\[1, 2\]$']
    vals = ['caab', 'aaa', '', '123', '1234', 'x1', 'None', 'YES', 'yes\n', 'ab', 'ab\n', 'beef', 'beef\n', ' ', '　']
    for p in pats:
        for s in vals:
            out.append(c_pattern(p, enc(s)))
        for v in (5, None, 123, 1.5, [1, 2], True, b'aaa'):
            out.append(c_pattern(p, enc(v)))
    return out


def gen_uuid(rng, tier):
    out = []
    n = 3 if tier == 'quick' else 40
    for _ in range(n):
        u = _uuid.UUID(int=rng.getrandbits(128))
        h = u.hex
        forms = [h, str(u), '{' + str(u) + '}', 'urn:uuid:' + str(u), h.upper(), str(u).upper(), '{' + h + '}', 'urn:uuid:' + h,
                 h[:5] + '-' + h[5:], '-' + h + '-', '{{' + h + '}}', 'uuid:' + h, 'URN:UUID:' + h,
                 # near misses
                 h[:-1], h + '0', h[:-1] + 'g', ' ' + h, h + ' ', h + '\n', '', h[:16], 'urn:uuid:', '{' + h, h[:8] + ' ' + h[8:],
                 h[:-1] + '１', h[:-2] + '١٢', '0x' + h[2:], '+' + h[1:], h[:-1] + '_', 'x' * 32]
        for f in forms:
            for convert in (True, False):
                out.append(c_uuid(convert, enc(f)))
        for convert in (True, False):
            out.append(c_uuid(convert, ['ext', 'uuid', str(u)]))
    for convert in (True, False):
        for v in (5, None, 1.5, b'12345678123456781234567812345678', [1], int('1' * 32), ['ext', 'object', '']):
            out.append(c_uuid(convert, v if isinstance(v, list) and v and v[0] == 'ext' else enc(v)))
    return out


def gen_enum(rng, tier):
    out = []
    vals = ['A', 'a', 'B', 'b', 'C', 'c', 'x', 'X', 'Mix', 'MIX', 'mix', 'Z', '1', ' 1 ', '1.0', '0x1', '2', '0', '', 'ß', '١', '1_0', 'inf', 'nan',
            0, 1, 2, 3, -1, 1.0, 1.5, 2.5, 2.0, 0.0, -0.0, NAN, INF, -INF, 10 ** 400, True, False, None, [1], (1,), b'1', b'A', {'a': 'b'}]
    descs = [enc(v) for v in vals] + [['ext', 'enum', m] for m in ('E.A', 'E.B', 'E.C', 'E.D', 'IE.Z', 'IE.A', 'IE.B', 'SE.A', 'SE.X', 'SE.MIX')] \
        + [['ext', 'object', ''], ['ext', 'decimal', '1'], ['ext', 'fraction', '3/2'], ['ext', 'complex', '(1+0j)']]
    for cls in ENUMS:
        for convert in (True, False):
            for upper in (True, False):
                for d in descs:
                    out.append(c_enum(cls, convert, upper, d))
    return out


def gen_iso(rng, tier):
    out = []
    vals = ['2020-01-01', '2020-01-01T00:00:00', '2020-01-01T00:00:00+01:00', '2020-01-01T00:00:00Z', '20200101', '2020-01-01 10:00',
            '2020-01-01T10', '2020-W01-1', '2020-001', '0001-01-01', '9999-12-31T23:59:59.999999', '2020-02-29', '2021-02-29', '2020-13-01',
            '2020-00-10', '2020-01-32', '2020-01-01T24:00:00', '2020-01-01T23:60', '2020-01-01T00:00:00+25:00', 'x', '', ' 2020-01-01',
            '2020-01-01 ', '2020-01-01\n', '2020-1-1', '10000-01-01', '0000-01-01', '2020-01-01T00:00:00.1234567', '２０２０-01-01',
            '2020-01-01T00:00:00,5', '2020-01-01t00:00:00', '2020-01-01T00:00:00-00:00', '2020-01-01T00:00:00+00:00:00.000001']
    for s in vals:
        out.append(c_iso(enc(s)))
    for v in (None, 5, 1.5, b'2020-01-01', ['2020-01-01'], True):
        out.append(c_iso(enc(v)))
    out.append(c_iso(['ext', 'datetime_us', '0']))
    return out


def gen_unix(rng, tier):
    out = []
    lo, hi = -62135596800, 253402300799
    vals = [lo, lo - 1, lo + 1, hi, hi + 1, hi - 1, float(lo), math.nextafter(float(lo), -INF), math.nextafter(float(lo), INF),
            float(hi), float(hi + 1), math.nextafter(float(hi + 1), 0.0), math.nextafter(float(hi + 1), INF), hi + 0.9999995, hi + 0.5,
            0, 0.0, -0.0, 1, -1, 1.5, 0.0000005, 0.0000015, 0.0000025, 1e-7, 5e-324, 1600000000, 1600000000.123456, 1e10, 1e11, 1e12, -1e11, 1e15,
            1e16, 1e18, 86399999999999.0, 86400000000000.0, 1e308, -1e308, NAN, INF, -INF, 10 ** 400, -10 ** 400, 2 ** 1023, 2 ** 1024, 10 ** 20,
            True, False, None, b'5', [5], (5,), {'a': 'b'}, 1 + 0j]
    strs = ['0', '5', ' 5 ', '1e3', '1E3', '-1', '+1', '1.5', '.5', '5.', '1_0', '1__0', '_1', 'nan', 'NaN', 'inf', '-inf', 'Infinity', 'infinity',
            '-62135596800', '-62135596801', '253402300799', '253402300800', '253402300799.9999994', '253402300799.9999996', '1e400', '-1e400',
            '', ' ', 'abc', '0x10', '1,5', '١٢', '１２', '1e', 'e1', '--1', '5\n', '\t5', '5\x00', '1' * 400, 'nan(1)', '1.0.0', '٣.٥']
    for v in vals:
        out.append(c_unix(enc(v)))
    for s in strs:
        out.append(c_unix(enc(s)))
    for d in (['ext', 'decimal', '5'], ['ext', 'fraction', '5'], ['ext', 'object', ''], ['ext', 'enum', 'SE.A'], ['ext', 'enum', 'E.C']):
        out.append(c_unix(d))
    n = 200 if tier == 'quick' else 6000
    for _ in range(n):
        k = rng.random()
        if k < 0.3:
            v = rng.randint(lo - 10 ** 6, hi + 10 ** 6)
        elif k < 0.5:
            v = rng.choice([lo, hi + 1]) + rng.uniform(-2, 2)
        elif k < 0.7:
            v = rng.uniform(-2e9, 4e9)
        elif k < 0.8:
            v = f_bits(rng)
        elif k < 0.9:
            v = repr(rng.uniform(-1e12, 1e12))
        else:
            v = str(rng.randint(-10 ** 13, 10 ** 13))
        out.append(c_unix(enc(v)))
    # the same stream in other time zones (run in a child process per zone, see run_impl): the directed values and a part of the random ones
    base = list(out)
    n_tz = 150 if tier == 'quick' else 1500
    directed = len(vals) + len(strs) + 5
    for z, zone in enumerate(TZ_ZONES):
        for case in base[:directed] + base[directed + z::len(TZ_ZONES)][:n_tz]:
            c = dict(case['c'])
            out.append({'m': 'validators', 'c': c, 'x': {'tz': zone}})
    return out


# ---- typed random validator trees: T ::= 'int' | 'str' | ('list', T)

def gen_tree(rng, ty, depth, leaves):
    """returns a tree descriptor accepting values of type ty"""
    def leaf(d):
        leaves.append(d)
        return ['leaf', len(leaves) - 1]
    r = rng.random()
    if depth > 0 and r < 0.25:
        return ['composite', [gen_tree(rng, ty, depth - 1, leaves) for _ in range(rng.randint(0, 3))]]
    if ty == 'int':
        k = rng.random()
        if k < 0.3:
            return leaf(['min', enc(rng.choice([0, 1, 2, 1.5, -1])), rng.random() < 0.5])
        if k < 0.6:
            return leaf(['max', enc(rng.choice([2, 3, 4, 2.5, 10])), rng.random() < 0.5])
        if k < 0.85:
            return leaf(['add', rng.randint(-2, 2)])
        return leaf(['boom', rng.randint(0, 3), rng.choice(['KeyError', 'ValueError', 'ValidatorException', 'OverflowError'])])
    if ty == 'str':
        k = rng.random()
        if k < 0.3:
            return leaf(['minlen', rng.randint(0, 3)])
        if k < 0.55:
            return leaf(['maxlen', rng.randint(0, 4)])
        if k < 0.9:
            return leaf(['notempty', rng.random() < 0.6])
        return leaf(['email'])
    # list type
    k = rng.random()
    if depth > 0 and k < 0.7:
        return ['foreach', [gen_tree(rng, ty[1], depth - 1, leaves) for _ in range(rng.randint(0, 3) if rng.random() < 0.8 else 1)]]
    if k < 0.85:
        return leaf(['minlen', rng.randint(0, 3)])
    return leaf(['maxlen', rng.randint(0, 3)])


def gen_value(rng, ty, miss=0.06):
    if rng.random() < miss:      # a near miss: a value of another type
        ty = rng.choice(['int', 'str', ('list', 'int'), 'none'])
    if ty == 'none':
        return rng.choice([None, ['float', 3, 2, False], ['ext', 'object', '']])
    if ty == 'int':
        return enc(rng.choice([-1, 0, 1, 2, 3, 4, 5, True, 1.5, 2.0, 2.5]))
    if ty == 'str':
        return enc(rng.choice(['', ' ', 'a', ' a ', 'ab', 'abc', 'a@b.c', ' 　', ' x ', 'abcd', '\t']))
    n = rng.randint(0, 3)
    items = [gen_value(rng, ty[1], miss) for _ in range(n)]
    kinds = ['list', 'list', 'tuple', 'gen']
    if ty[1] == 'int':
        kinds += ['set', 'range']
    if ty[1] == 'str':
        kinds += ['dict', 'strchars']
    k = rng.choice(kinds)
    if k == 'range':
        return ['range', n]
    if k == 'set':
        if all(isinstance(it, list) and it and it[0] in ('int', 'bool', 'float') for it in items):
            return fix_set_order(['set', items])
        return ['list', items]
    if k == 'dict':
        keys = []
        for it in items:
            if isinstance(it, list) and it and it[0] == 'str' and it[1] not in keys:
                keys.append(it[1])
        return ['dict', [[kk, cps('v')] for kk in keys]]
    if k == 'strchars':
        return enc(''.join(rng.choice('ab 　') for _ in range(n)))
    return [k, items]


def has_composite(t):
    return t[0] == 'composite' or (t[0] == 'foreach' and any(has_composite(x) for x in t[1]))


def degen(e):
    """one-shot iterators -> lists (used for trees with a Composite: it hands the same, by then exhausted, iterator to its later children)"""
    if isinstance(e, list) and e and e[0] in ('gen', 'list', 'tuple'):
        return ['list' if e[0] == 'gen' else e[0], [degen(x) for x in e[1]]]
    return e


def gen_trees(rng, tier):
    out = []
    types = ['int', 'str', ('list', 'int'), ('list', 'str'), ('list', ('list', 'int')), ('list', ('list', 'str')), ('list', ('list', ('list', 'int')))]
    n = 1500 if tier == 'quick' else 40000
    for _ in range(n):
        ty = rng.choice(types)
        leaves = []
        t = gen_tree(rng, ty, 3, leaves)
        for _ in range(3):
            single = t[0] == 'foreach' and len(t[1]) == 1 and rng.random() < 0.5
            v = gen_value(rng, ty)
            out.append(c_tree(t, leaves, degen(v) if has_composite(t) else v, single))
    # hand-written corners
    L = [['min', enc(1), True], ['add', 1], ['max', enc(3), True], ['notempty', True], ['boom', 2, 'KeyError']]
    for v in ([1, 2, 3], (1, 2), [], [0], [3], 5, None, 'ab', {1, 2}, range(4), [[1]], [1, 'x']):
        out.append(c_tree(['foreach', [['leaf', 0], ['leaf', 1], ['leaf', 2]]], L, fix_set_order(enc(v))))
        out.append(c_tree(['foreach', [['leaf', 1], ['leaf', 0], ['leaf', 2]]], L, fix_set_order(enc(v))))
        out.append(c_tree(['composite', [['leaf', 0], ['leaf', 2]]], L, fix_set_order(enc(v))))
        out.append(c_tree(['foreach', [['leaf', 4]]], L, fix_set_order(enc(v)), True))
        out.append(c_tree(['foreach', []], L, fix_set_order(enc(v))))
        out.append(c_tree(['composite', []], L, fix_set_order(enc(v))))
    out.append(c_tree(['foreach', [['leaf', 0]]], L, ['gen', [['int', 1], ['int', 2]]], True))
    out.append(c_tree(['foreach', [['foreach', [['leaf', 3]]]]], L, enc([[' a ', 'b'], ('c ',), 'de'])))
    out.append(c_tree(['foreach', [['foreach', [['leaf', 3]]]]], L, enc([[' a ', ' '], ('c ',)])))
    return out


CONVERT_STRS = ['true', 'TRUE', ' True ', 'tRuE', '1', '0', 'false', 'FALSE', ' false\n', 'yes', 'no', 'on', '', ' ', '12', ' 12 ', '+5', '-0', '-7', '--7', '+-7',
                '1_000', '_1', '1_', '1__0', '1 0', '١٢', '１２', '٣_٤', '0x10', '0b1', '0o7', '1.5', '1e3', '1E3', '.5', '5.', 'inf', 'INF', 'nan', 'NaN', '-inf',
                'infinity', '+Infinity', '1e400', '-1e-400', 'a,b', ' a , b ', 'a,,b', ',', 'a:b,c', 'a:b:c, d : e ,f', 'a:1,a:2', 'a:1,b:2,a:3', ':', ' : ', 'A:B',
                '[1, 2]', "{'a': 1}", 'İ', 'ǅ', 'ß', '\x85 1 \x85', ' 1 ', 'TRUE　', '\x1c0\x1f', '​1', '1\x00', '9' * 4300, '9' * 4301,
                '-' + '9' * 4300, '1_' * 2200 + '1', '0' * 5000, 'None', 'none', 'true,false', '1,0', 'tru', 'tr ue', '01', '00', '1.0', '1L', '² ', '³', '一']


CONVERT_BYTES = [b'1', b'0', b'true', b' 12 ', b'-7', b'1.5', b'a,b', b'k:v', b'', b' ', 'caf\u00e9'.encode(), '\u0661\u0662'.encode(), b'\xef\xbb\xbf12',
                 b'caf\xe9', b'\xe9', b'\x80', b'\xbf1', b'\xe2\x82', b'\xe2\x82\xac'[:1], b'\xc0\xaf', b'\xc1\xbf', b'\xed\xa0\x80', b'\xf4\x90\x80\x80',
                 b'\xf8\x88\x80\x80\x80', b'\xff\xfe1\x00', b'\xfe\xff\x001', b'12\xff', b'\xfftrue', b'1\x00', b'\x00']
BYTE_ALPH = list(b'10truefals ,:.-') + [0x80, 0xbf, 0xc0, 0xc3, 0xa9, 0xe2, 0x82, 0xac, 0xed, 0xa0, 0xf0, 0x9f, 0xf4, 0x90, 0xff, 0xfe, 0x00]


def gen_convert(rng, tier):
    out = []
    zoo = [None, True, False, 0, 1, -1, 5, 10 ** 20, -10 ** 20, 10 ** 400, 10 ** 4299, 10 ** 4300 - 1, 10 ** 4300, -10 ** 4300, 10 ** 5000,
           0.0, -0.0, 1.0, 1.5, -2.25, 1e22, 1e-7, 1e16, 123456789.123, INF, -INF, NAN, b'1', b'', [1, 2], [], ['a', 'b'], (1,), (), {'a': 'b'}, {}, {'true': '1'}]
    descs = [enc(v) for v in zoo] + [enc(s) for s in CONVERT_STRS] + [['set', [['int', 1]]], ['range', 2], ['ext', 'uuid', '12345678-1234-5678-1234-567812345678'],
                                                                        ['ext', 'enum', 'E.A'], ['ext', 'decimal', '1.5'], ['ext', 'fraction', '1/2'],
                                                                        ['ext', 'complex', '(1+2j)'], ['ext', 'datetime_us', '0'], ['ext', 'dict', '']]
    for d in descs:
        if d == ['ext', 'dict', '']:
            continue
        for t in TARGETS:
            c = c_convert(d, t)
            if c:
                out.append(c)
    # byte strings: valid UTF-8 (digits, literals, separators, non-ASCII text, BOM) and INVALID UTF-8 (latin-1 text, truncated / overlong
    # multi-byte sequences, lone continuation bytes, surrogates, beyond U+10FFFF, UTF-16 BOM), as bytes and as bytearray, x every target
    for bs in CONVERT_BYTES + [bytes(rng.choice(BYTE_ALPH) for _ in range(rng.randint(1, 5))) for _ in range(40 if tier == 'quick' else 600)]:
        for d in (enc(bs), enc(bytearray(bs))):
            for t in TARGETS:
                c = c_convert(d, t)
                if c:
                    out.append(c)
    # random strings
    alph = list('tTrRuUeE10fFaAlLsS ,:_+-.xX9nNiI') + ['　', '\x85', '١', '１', 'İ', '\t', '\n']
    for _ in range(300 if tier == 'quick' else 6000):
        s = ''.join(rng.choice(alph) for _ in range(rng.randint(0, 7)))
        c = c_convert(enc(s), rng.choice(list(TARGETS)))
        if c:
            out.append(c)
    # round trips convert_value(str(x), type(x)) == x
    n = 1000 if tier == 'quick' else 10000
    xs = [True, False, 0, -0.0, 0.0, INF, -INF, NAN, 5e-324, 1.7976931348623157e308, 2 ** 63, -2 ** 63, 10 ** 4299, -(10 ** 4299), 1e22, 1e16, 1e-5, 0.1, 123456.789e-300]
    for _ in range(n):
        k = rng.random()
        if k < 0.4:
            xs.append(rng.randint(-10 ** rng.randint(0, 40), 10 ** rng.randint(0, 40)))
        elif k < 0.45:
            xs.append(rng.randint(-10 ** 600, 10 ** 600))
        elif k < 0.85:
            xs.append(f_bits(rng))
        else:
            xs.append(rng.uniform(-1e6, 1e6))
    for x in xs:
        c = c_convert(enc(str(x)), type(x).__name__, rt=enc(x))
        if c:
            out.append(c)
    return out


GENS = [gen_minmax, gen_len, gen_notempty, gen_email, gen_pattern, gen_uuid, gen_enum, gen_iso, gen_unix, gen_trees, gen_convert]


def cases(rng, tier):
    out = []
    for g in GENS:
        out += g(rng, tier)
    return out


def search(rng, tier, near_cases):
    return cases(rng, 'quick')


# ------------------------------------------------------------------ implementation side

def build_leaf(d, V):
    k = d[0]
    if k == 'min':
        return V['Min'](dec(d[1]), d[2])
    if k == 'max':
        return V['Max'](dec(d[1]), d[2])
    if k == 'minlen':
        return V['MinLength'](d[1])
    if k == 'maxlen':
        return V['MaxLength'](d[1])
    if k == 'notempty':
        return V['NotEmpty'](strip=d[1])
    if k == 'email':
        return V['Email']()
    if k == 'add':
        return V['Add'](d[1])
    if k == 'boom':
        return V['Boom'](d[1], d[2])
    raise ValueError(d)


def build_tree(t, leaves, V, single=False):
    if t[0] == 'leaf':
        return build_leaf(leaves[t[1]], V)
    kids = [build_tree(x, leaves, V) for x in t[1]]
    if t[0] == 'foreach':
        return V['ForEach'](kids[0] if single and len(kids) == 1 else kids)
    return V['Composite'](kids)


TZ_CHILD = ("import os, sys, time, json\n"
            "time.tzset()                      # TZ comes with the environment of this process; nothing of the library is imported yet\n"
            "import datetime\n"
            "assert not any(m == 'pedantic' or m.startswith('pedantic.') for m in sys.modules)\n"
            "shift = (datetime.datetime.fromtimestamp(0) - datetime.datetime(1970, 1, 1)).total_seconds()\n"
            "from props import C14\n"
            "cases = json.load(sys.stdin)\n"
            "json.dump({'shift': shift, 'out': C14.run_local(cases)}, sys.stdout)\n")


def run_in_zone(zone, cases):
    """run the cases in a child process whose local time zone is `zone` from its very start (TZ in its environment, time.tzset()
    before pedantic is imported - so that import-time computations of the library see the zone too)"""
    env = dict(os.environ, TZ=zone)
    p = subprocess.run([sys.executable, '-B', '-c', TZ_CHILD], input=json.dumps(cases), capture_output=True, text=True, env=env, timeout=600)
    if p.returncode != 0:
        raise RuntimeError(f'child process for TZ={zone} failed: {p.stderr[-2000:]}')
    res = json.loads(p.stdout)
    if res['shift'] == 0 or len(res['out']) != len(cases):
        raise RuntimeError(f'child process for TZ={zone}: the zone is not in effect (local epoch shift {res["shift"]} s) or results are missing')
    return res['out']


def run_impl(cases):
    """cases with x.tz run in a child process per zone, everything else in this process (the machine's zone)"""
    out = [None] * len(cases)
    by_zone = {}
    for i, case in enumerate(cases):
        by_zone.setdefault((case.get('x') or {}).get('tz'), []).append(i)
    for zone, idx in by_zone.items():
        sub = [cases[i] for i in idx]
        res = run_local(sub) if zone is None else run_in_zone(zone, [{'m': c['m'], 'c': c['c'], 'x': {}} for c in sub])
        for i, r in zip(idx, res):
            out[i] = r
    return out


def run_local(cases):
    import pedantic.decorators.fn_deco_validate.validators as VM
    from pedantic.decorators.fn_deco_validate.validators import Validator
    from pedantic.decorators.fn_deco_validate.convert_value import convert_value
    from pedantic.decorators.fn_deco_validate.exceptions import ValidatorException

    class Add(Validator):
        def __init__(self, k):
            self.k = k

        def validate(self, value):
            if type(value) is not int:
                raise TypeError('Add: not an int')
            return value + self.k

    class Boom(Validator):
        def __init__(self, k, cls):
            self.k, self.cls = k, cls

        def validate(self, value):
            if type(value) is int and value == self.k:
                if self.cls == 'ValidatorException':
                    self.raise_exception(value=value, msg='boom')
                raise {'KeyError': KeyError, 'ValueError': ValueError, 'OverflowError': OverflowError}[self.cls]('boom')
            return value

    V = {n: getattr(VM, n) for n in ('Min', 'Max', 'MinLength', 'MaxLength', 'NotEmpty', 'Email', 'ForEach', 'Composite', 'IsUuid', 'IsEnum',
                                     'MatchPattern', 'DatetimeIsoFormat', 'DateTimeUnixTimestamp')}
    V['Add'], V['Boom'] = Add, Boom
    out = []
    for case in cases:
        c, x = case['c'], case.get('x') or {}
        k = c['k']
        reg = {}
        value = dec(c['v'], reg)
        isinst = None
        try:
            if k == 'min':
                r = V['Min'](dec(c['bound']), c['incl']).validate(value)
            elif k == 'max':
                r = V['Max'](dec(c['bound']), c['incl']).validate(value)
            elif k == 'minlen':
                r = V['MinLength'](c['n']).validate(value)
            elif k == 'maxlen':
                r = V['MaxLength'](c['n']).validate(value)
            elif k == 'notempty':
                r = V['NotEmpty'](strip=c['strip']).validate(value)
            elif k == 'email':
                r = (V['Email']() if x.get('post', 'id') == 'id' else V['Email'](post_processor=POSTS[x['post']])).validate(value)
            elif k == 'emailc':
                r = V['Email'](email_pattern=x['pattern'], post_processor=POSTS[x.get('post', 'id')]).validate(value)
            elif k == 'pattern':
                r = V['MatchPattern'](x['pattern']).validate(value)
            elif k == 'uuid':
                r = V['IsUuid'](convert=c['convert']).validate(value)
            elif k == 'enum':
                r = V['IsEnum'](ENUMS[x['cls']], convert=c['convert'], to_upper_case=c['upper']).validate(value)
            elif k == 'iso':
                r = V['DatetimeIsoFormat']().validate(value)
            elif k == 'unix':
                r = V['DateTimeUnixTimestamp']().validate(value)
            elif k == 'tree':
                r = build_tree(c['t'], c['leaves'], V, x.get('single', False)).validate(value)
            elif k == 'convert':
                r = convert_value(value, TARGETS[c['t']])
                isinst = isinstance(r, TARGETS[c['t']])
            else:
                raise RuntimeError('unknown kind ' + k)
            o = {'out': 'ok', 'value': enc(r, reg), 'same': r is value}
            if isinst is not None:
                o['isinst'] = isinst
            out.append(o)
        except RuntimeError:
            raise
        except BaseException as ex:   # noqa
            out.append({'out': 'raises', 'exc': exc_class(ex)})
    return out


# ------------------------------------------------------------------ verdict

def _has_nan(d):
    return isinstance(d, list) and len(d) == 2 and d[0] == 'float' and d[1] == 'nan'


def region(case, impl, model):
    """the recorded finding region this case lies in (None when in none)"""
    return None          # (minMaxNaN was the only one; repaired by 1eb0dcf - NaN cases are judged like every other case)


def judge(case, impl, model):
    m, s = model['model'], model['spec']
    c = case['c']
    k = c['k']
    same_out = impl['out'] == m['out'] and (impl.get('value') == m.get('value') if impl['out'] == 'ok' else impl.get('exc') == m.get('exc'))
    corr, why = same_out, '' if same_out else f'implementation {impl} vs model {m}'
    reg = region(case, impl, model)
    pfail = None
    sk = s['s']
    if sk == 'accept':
        if impl['out'] != 'ok':
            pfail = f"the value satisfies the documented predicate but was rejected with {impl.get('exc')}"
        elif impl['value'] != s['value']:
            pfail = f"accepted, but returned {impl['value']} instead of the documented {s['value']}"
        elif s['ident'] and not impl['same']:
            pfail = 'accepted, but a different object than the argument was returned'
    elif sk == 'reject':
        if impl['out'] == 'ok':
            pfail = f"the value does not satisfy the documented predicate but was accepted (returned {impl['value']})"
        elif impl['exc'] != 'ValidatorException':
            pfail = f"rejection signalled with {impl['exc']} instead of ValidatorException"
    elif sk == 'convert':
        if impl['out'] == 'ok' and not impl.get('isinst'):
            pfail = f"convert_value returned {impl['value']}, not an instance of {c['t']}"
        elif impl['out'] == 'raises' and impl['exc'] != 'ConversionError':
            pfail = f"convert_value raised {impl['exc']} instead of ConversionError"
        rt = (case.get('x') or {}).get('rt')
        if pfail is None and rt is not None and not (impl['out'] == 'ok' and impl['value'] == rt):
            pfail = f"convert_value(str(x), type(x)) gave {impl.get('value', impl.get('exc'))} instead of x = {rt}"
    # the model must itself meet the spec outside the recorded regions (the theorems say so; this guards the driver plumbing)
    if corr and reg is None and sk in ('accept', 'reject'):
        ok = (m['out'] == 'ok' and m['value'] == s['value']) if sk == 'accept' else (m['out'] == 'raises' and m['exc'] == 'ValidatorException')
        if not ok:
            corr, why = False, f'model {m} does not meet its own spec {s} outside every recorded region'
    if m.get('exc') in ('unknown-leaf', 'float-oracle-missing', 'oracle-missing'):
        corr, why = False, 'harness/driver inconsistency: ' + m['exc']
    finding = reg if (pfail and reg and same_out) else None
    tag = f"{k}/{sk}/{impl['out'] if impl['out'] == 'ok' else impl['exc']}"
    tz = (case.get('x') or {}).get('tz')
    if tz:
        tag += '@TZ=' + tz
        if pfail:
            pfail += f' (process running with TZ={tz})'
    if k == 'convert':
        tag = f"convert:{c['t']}/{'rt/' if (case.get('x') or {}).get('rt') is not None else ''}{impl['out'] if impl['out'] == 'ok' else impl['exc']}"
    return {'corr': corr, 'pfail': pfail, 'finding': finding, 'nontrivial': sk != 'na', 'tag': tag, 'why': why}


def extra_coverage(results):
    outside = sum(1 for (_, _, m, _) in results if m['spec']['s'] == 'na')
    kinds = {}
    for (c, _, _, _) in results:
        kinds[c['c']['k']] = kinds.get(c['c']['k'], 0) + 1
    zones = {}
    for (c, _, _, _) in results:
        z = (c.get('x') or {}).get('tz')
        if z:
            zones[z] = zones.get(z, 0) + 1
    return {'outside_documented_domain': outside, 'cases_per_kind': kinds, 'unix_cases_run_in_a_child_process_per_time_zone': zones}


# ------------------------------------------------------------------ twins for the amplified run (core.amplified_run, props/_twins.py)

def _has_gen(e):
    if isinstance(e, list):
        return (len(e) > 0 and e[0] == 'gen') or any(_has_gen(x) for x in e)
    return False


def twins(case):
    """twin cases: the value with every number moved to another numeric type (1 / True / 1.0, 0 / False / 0.0 / -0.0) and - for list /
    tuple values - the value with every element FOLLOWED by its twins (`[1, 2]` -> `[1, True, 1.0, 2, 2.0]`: a memo keyed by the element,
    even one that lives for a single call, meets equal keys with different meaning inside one value).  Rebuilt through the case
    constructors, so the oracle answers belong to the twin value."""
    import _twins
    c, x = case['c'], case.get('x') or {}
    k, v = c['k'], c['v']
    if x.get('tz') or _has_gen(v) or k not in ('min', 'max', 'minlen', 'maxlen', 'notempty', 'tree', 'convert', 'enum', 'unix'):
        return []
    try:
        val = dec(v)
    except Exception:
        return []
    cands = []
    if type(val) in (list, tuple):
        cands.append(type(val)(_twins.interleave_with_twins(list(val), _twins.scalar_twins)))
    for to in ('rotate', 'bool', 'negzero'):
        cands.append(_twins.twin_object(val, to))
    out, seen = [], {json.dumps(v)}
    for tv in cands:
        try:
            v2 = enc(tv)
            key = json.dumps(v2)
            if key in seen:
                continue
            seen.add(key)
            if k in ('min', 'max'): t = c_minmax(k, c['bound'], c['incl'], v2)
            elif k in ('minlen', 'maxlen'): t = c_len(k, c['n'], v2)
            elif k == 'notempty': t = c_notempty(c['strip'], v2)
            elif k == 'tree': t = c_tree(c['t'], c['leaves'], v2, x.get('single', False))
            elif k == 'convert': t = c_convert(v2, c['t'])
            elif k == 'enum': t = c_enum(x['cls'], c['convert'], c['upper'], v2)
            else: t = c_unix(v2)
        except Exception:
            continue
        if t is not None:
            out.append(t)
    return out
