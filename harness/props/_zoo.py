"""Annotation / value zoo for C08: objects the checker does not support (or that are no types at all).  They are not
terms of the model vocabulary; the model answers `special k` through an oracle that the theorem quantifies over."""
import typing, types, collections, collections.abc, enum, sys, io, dataclasses, functools
from typing import *


class _G(Generic[TypeVar('T')]): pass
class _Proto(Protocol):
    def m(self) -> int: ...
class _TD(TypedDict):
    a: int
class _E(enum.Enum):
    A = 1
class _Slots:
    __slots__ = ('a',)
class _Meta(type): pass
class _WithMeta(metaclass=_Meta): pass
class _NT(NamedTuple):
    a: int
def _fn(a: int) -> str: return ''
async def _co(a: int) -> str: return ''
def _genf():
    yield 1
class _Callable:
    def __call__(self, a: int) -> str: return ''
_T = TypeVar('_T'); _TC = TypeVar('_TC', int, str); _TB = TypeVar('_TB', bound=int)
_P = ParamSpec('_P')


def annotations():
    out = []
    def add(label, thunk):
        try:
            out.append((label, thunk()))
        except Exception:
            pass
    for name in sorted(typing.__all__):
        obj = getattr(typing, name)
        add('typing.' + name, lambda o=obj: o)
        for args in ((int,), (int, str), (int, str, float), ([int], str), (..., int)):
            add(f'typing.{name}[{len(args)}]', lambda o=obj, a=args: o[a if len(a) > 1 else a[0]])
    for name in sorted(collections.abc.__all__):
        obj = getattr(collections.abc, name)
        add('abc.' + name, lambda o=obj: o)
        for args in ((int,), (int, str), ([int], str)):
            add(f'abc.{name}[{len(args)}]', lambda o=obj, a=args: o[a if len(a) > 1 else a[0]])
    for c in (collections.OrderedDict, collections.Counter, collections.ChainMap, collections.deque, collections.defaultdict, list, dict, tuple, set, frozenset, type):
        add(c.__name__ + '[1]', lambda c=c: c[int])
        add(c.__name__ + '[2]', lambda c=c: c[int, str])
        add(c.__name__ + '[3]', lambda c=c: c[int, str, float])
    extra = {
        'G[int]': lambda: _G[int], 'G': lambda: _G, 'Proto': lambda: _Proto, 'TD': lambda: _TD, 'Enum': lambda: _E, 'Enum.A': lambda: _E.A,
        'T': lambda: _T, 'TC': lambda: _TC, 'TB': lambda: _TB, 'List[T]': lambda: List[_T], 'ParamSpec': lambda: _P,
        'Callable[P, int]': lambda: Callable[_P, int], 'Annotated': lambda: Annotated[int, 'x'], 'ClassVar[int]': lambda: ClassVar[int],
        'Final[int]': lambda: Final[int], 'Required': lambda: Required[int], 'Unpack': lambda: Unpack[Tuple[int, str]],
        'Concatenate': lambda: Concatenate[int, _P], 'TypeGuard[int]': lambda: TypeGuard[int], 'LiteralString': lambda: LiteralString,
        'Self': lambda: Self, 'Never': lambda: Never, 'NoReturn': lambda: NoReturn, 'Literal[[]]': lambda: Literal[1, (1, 2)],
        'str:ident': lambda: 'Foo', 'str:expr': lambda: 'List[int]', 'str:empty': lambda: '', 'str:nonascii': lambda: 'Käse', 'str:syntax': lambda: 'List[',
        'str:builtin': lambda: 'int', 'str:ctx-module': lambda: '_zmod', 'str:ctx-int': lambda: '_znum', 'str:ctx-function': lambda: '_zfun',
        'str:ctx-None': lambda: '_znone', 'str:ctx-string': lambda: '_zstr', 'str:ctx-list': lambda: '_zlist', 'str:ctx-alias': lambda: '_zalias',
        'List[str:ctx-module]': lambda: List['_zmod'], 'Optional[str:ctx-int]': lambda: Optional['_znum'], 'int5': lambda: 5, 'tuple(int,str)': lambda: (int, str), 'list[int]obj': lambda: [int], 'Ellipsis': lambda: ...,
        'module': lambda: sys, 'function': lambda: _fn, 'lambda': lambda: (lambda x: x), 'object()': lambda: object(), 'True': lambda: True,
        'float1.5': lambda: 1.5, 'bytes': lambda: b'int', 'dict{}': lambda: {}, 'set{int}': lambda: {int}, 'NotImplemented': lambda: NotImplemented,
        'types.GenericAlias(int,(str,))': lambda: types.GenericAlias(int, (str,)), 'int|None|str': lambda: int | None | str,
        'Optional[List[T]]': lambda: Optional[List[_T]], 'Union[T,int]': lambda: Union[_T, int], 'Type[T]': lambda: Type[_T],
        'Dict[str, Any]|None': lambda: Dict[str, Any] | None, 'List[List]': lambda: List[List], 'list[list]': lambda: list[list],
        'Tuple[()]': lambda: Tuple[()], 'Tuple[int, ...]': lambda: Tuple[int, ...], 'Tuple[...]bad': lambda: Tuple[..., int],
        'Generator[int,None,None]': lambda: Generator[int, None, None], 'Iterator[int]': lambda: Iterator[int], 'Awaitable[int]': lambda: Awaitable[int],
        'Callable[[int],str]': lambda: Callable[[int], str], 'Callable[...,Any]': lambda: Callable[..., Any], 'abc.Callable[[int],str]': lambda: collections.abc.Callable[[int], str],
        'NewType(NewType)': lambda: NewType('B', NewType('A', int)), 'type(None)': lambda: type(None), 'dataclass': lambda: dataclasses.dataclass,
        'ParamSpec.args': lambda: _P.args, 'ParamSpec.kwargs': lambda: _P.kwargs, 'Annotated[int,{}]': lambda: Annotated[int, {}],
        'Annotated[int,[]]': lambda: Annotated[int, [1]], 'Literal[[1,2]]': lambda: Literal[[1, 2]], 'Literal[{}]': lambda: Literal[{}],
        'List[Literal[[1]]]': lambda: List[Literal[[1]]], 'Optional[Annotated[int,[]]]': lambda: Optional[Annotated[int, []]],
        'functools.partial': lambda: functools.partial(_fn, 1), 'BinaryIO': lambda: BinaryIO, 'TextIO': lambda: TextIO, 'IO[str]': lambda: IO[str],
    }
    for k, v in extra.items():
        add(k, v)
    return out


class _StrRaises:
    def __str__(self): raise ValueError('no str')
class _StrNone:
    def __str__(self): return None
class _ReprRaises:
    def __repr__(self): raise RuntimeError('no repr')
class _FormatRaises:
    def __format__(self, spec): raise KeyError('no format')


def unprintable_values():
    """values that cannot be formatted (C08: building the message about a value that does not match must not raise) - appended to `values()`"""
    return [('unp-str-raises', _StrRaises()), ('unp-str-none', _StrNone()), ('unp-repr-raises', _ReprRaises()), ('unp-format-raises', _FormatRaises())]


def values():
    return _values() + unprintable_values()


def _values():
    return [('None', None), ('0', 0), ('True', True), ('1.5', 1.5), ('nan', float('nan')), ('str', 'a'), ('empty', ''), ('bytes', b'x'),
            ('list', [1, 'a']), ('emptylist', []), ('tuple', (1, 'a')), ('emptytuple', ()), ('dict', {'a': 1}), ('set', {1}), ('frozenset', frozenset({1})),
            ('object', object()), ('int', int), ('type', type), ('List', List), ('fn', _fn), ('lambda', lambda x: x), ('coro_fn', _co), ('genf', _genf),
            ('gen', _genf()), ('iter', iter([1])), ('nt', _NT(1)), ('ntcls', _NT), ('slots', _Slots()), ('meta', _Meta), ('withmeta', _WithMeta()),
            ('enum', _E.A), ('callable_obj', _Callable()), ('partial', functools.partial(_fn, 1)), ('module', sys), ('Ellipsis', ...),
            ('deque', collections.deque([1])), ('defaultdict', collections.defaultdict(int)), ('G[int]()', _G[int]()), ('bytesio', io.BytesIO()),
            ('range', range(3)), ('NotImplemented', NotImplemented), ('complex', 1j), ('td', {'a': 1}), ('exc', ValueError('x')), ('builtin_fn', len),
            ('method', 'a'.upper), ('classmethod_obj', classmethod(_fn)), ('property', property(_fn))]
