"""Overlapping (re-entrant) calls for the call-layer properties C03 - C06 / C08: the call under test is made *while another call of a
decorated callable of the same module is still running* - recursion, mutual recursion, a method calling the same method of another
instance.  The enclosing call is only the vehicle (a conforming keyword call whose body makes the inner call); the inner call is an
ordinary call-layer case (model `calllayer`: the model of a call has no input but the call itself, so whatever the library remembers
about calls in progress - a re-entrancy marker, a per-function scratch list, a ContextVar - shows as a disagreement / property failure).

Nothing of `_call_common` is edited: the hook class of a loaded program is swapped for `NestHook`, which understands one more script
kind, and cases carry the enclosing call as x['nested_in'] so that a replay of the case alone executes the pair again."""
import os
import _call_common as C
import _checker_common as K

COMPLETE_SIGS = ['p0: int', 'p0: int, *args: int', 'p0: int = 5', 'p0: str', "p0: int, p1: str = 'd'", '*args: int', '**kwargs: int',
                 'p0: List[int]', 'p0: str, **kwargs: int', 'p0: int, *args: str, **kwargs: int', '', 'p1: int, p0: str', 'p0: int, *, k0: int = 5',
                 'p0: Optional[int] = None', "p0: Dict[str, int]", 'p0: int, p1: int, p2: int']


class NestHook(C.Hook):
    """script ('nest', thunk, after): when the body runs it first makes the inner call (thunk), then behaves like `after`"""

    def __call__(self, idx, received):
        if self.script[0] != 'nest':
            return C.Hook.__call__(self, idx, received)
        _, thunk, after = self.script
        saved = list(self.journal)
        self.nested_result = thunk()            # runs the inner call on the decorated module and on the twin (resets script / journal)
        self.script = after
        self.journal[:] = saved
        return C.Hook.__call__(self, idx, received)


def gen_reentrant(r, idx):
    """a module with one or two decorated sync callables"""
    form = r.choice(['plain', 'plain', 'require_kwargs', 'inst_class', 'inst_direct', 'require_kwargs_method'])
    ret = r.choice([' -> int', ' -> int', ' -> None', ' -> str'])
    sa = r.choice(COMPLETE_SIGS)
    sb = r.choice(COMPLETE_SIGS + C.SIG_TEMPLATES)
    if form in ('plain', 'require_kwargs'):
        deco = '@pedantic' if form == 'plain' else '@require_kwargs'
        def fn(nm, sig, i, dec):
            return (dec + '\n' if dec else '') + f'def {nm}({sig}){ret}:\n    return _BODY({idx * 2 + i}, locals())\n'
        src = fn(f'f{idx}', sa, 0, deco) + fn(f'g{idx}', sb, 1, deco)
        twin = fn(f'f{idx}', sa, 0, None) + fn(f'g{idx}', sb, 1, None)
        callables = [(('mod', f'f{idx}'), form, 'sync'), (('mod', f'g{idx}'), form, 'sync')]
    else:
        cdeco, mdeco = {'inst_class': ('@pedantic_class\n', ''), 'inst_direct': ('', '    @pedantic\n'),
                        'require_kwargs_method': ('', '    @require_kwargs\n')}[form]
        def cls(dec_c, dec_m):
            out = f'{dec_c}class R{idx}:\n'
            for i, (nm, sig) in enumerate((('m', sa), ('n', sb))):
                first = 'self' + (', ' if sig else '')
                out += f'{dec_m}    def {nm}({first}{sig}){ret}:\n        return _BODY({idx * 2 + i}, locals())\n'
            return out
        src, twin = cls(cdeco, mdeco), cls('', '')
        callables = [(('inst', f'R{idx}', 'm'), form, 'sync'), (('inst', f'R{idx}', 'n'), form, 'sync')]
    return {'src': src, 'twin': twin, 'callables': callables}


def conforming_result(r, desc):
    ret = desc['ret']
    if ret is None or ret == ['none'] or ret[0] in ('bare', 'special'):
        return K.lit(None)
    try:
        return K.canon_term(K.gen_val_for(r, ret, 2))
    except TypeError:
        return K.lit(0)


def run_nested(P, outer, inner):
    """executes `inner` (a step: access / kind / flavour / pos / kwv / body / ctxmode) inside the body of the call `outer`
    (access / kind / kwv / ret); returns the impl record of the inner call (as C.execute does) + whether it really ran nested"""
    P.hook.__class__ = NestHook
    P.hook.nested_result = None
    Fi = {'flavour': inner['flavour'], 'kind': inner['kind']}

    def thunk():
        return C.execute(P, Fi, tuple(inner['access']), inner['pos'], inner['kwv'], inner['body'], inner.get('ctxmode', 'full'))
    target, inst = P.target(P.mod, tuple(outer['access']))
    K.INST_FACTORY.clear()
    try:
        kw_objs = {K.name_of(k): K.build_val(t) for k, t in outer['kwv']}
        after = ('ret', K.build_val(outer['ret']))
    finally:
        K.INST_FACTORY.clear()
    C.run_one(target, [], kw_objs, P.hook, ('nest', thunk, after), False, P.callers.mods['full'])
    res = P.hook.nested_result
    nested = res is not None
    if res is None:          # the enclosing call never reached its body (it is a conforming call: only a changed library does that)
        res = thunk()
    P.hook.__class__ = C.Hook
    return dict(res, nested=nested)


def reentrant_cases(rng, n, style=None, tag='re'):
    cases = []
    for idx in range(n):
        S = gen_reentrant(rng, idx)
        P = C.OneProgram(S['src'], S['twin'], f'{tag}{idx}_{rng.randrange(10**9)}')
        try:
            same = rng.random() < 0.65
            oi = 0
            ii = 0 if same else 1
            acc_o, kind_o, _ = S['callables'][oi]
            acc_i, kind_i, flav = S['callables'][ii]
            Fo, Fi = {'flavour': 'sync', 'kind': kind_o}, {'flavour': 'sync', 'kind': kind_i}
            raw_o, mode_o = P.raw_of(Fo, acc_o)
            raw_i, mode_i = P.raw_of(Fi, acc_i)
            if raw_o is None or raw_i is None:
                continue
            try:
                desc_o, desc_i = C.describe(raw_o, mode_o), C.describe(raw_i, mode_i)
            except ValueError:
                continue
            _, kw_o = C.gen_call(rng, Fo, desc_o, 'kw', bad_range=10 ** 9)
            outer = {'access': list(acc_o), 'kind': kind_o, 'kwv': kw_o, 'ret': conforming_result(rng, desc_o)}
            st = style if style is not None else rng.choice(['kw', 'kw', 'pos1', 'posall'])
            pos, kw = C.gen_call(rng, Fi, desc_i, st, bad_range=4)
            body = C.gen_body(rng, desc_i)
            inner = {'access': list(acc_i), 'kind': kind_i, 'flavour': 'sync', 'pos': pos, 'kwv': kw, 'body': body, 'ctxmode': 'full'}
            impl = run_nested(P, outer, inner)
            implicit = C.implicit_of(kind_i, acc_i)
            truth = {'realStatic': False, 'realSetter': False, 'realPedantic': True, 'implicit': implicit}
            mbody = ['raises', 0] if body[0] == 'raises' else (['ret', ["inst", K.IDX[K.U]]] if body[0] == 'retzoo' else body)
            cases.append({'m': 'calllayer',
                          'c': {'env': C.env_for(P, 'full'), 'fn': desc_i, 'truth': truth,
                                'args': ([["inst", K.IDX[K.U]]] if implicit else []) + pos, 'kw': kw, 'body': mbody},
                          'x': dict(inner, src=S['src'], twin=S['twin'], implicit=implicit, needle=None, history=[], nested_in=outer,
                                    scenario='reentrant-same' if same else 'reentrant-other', _impl=impl)})
        finally:
            P.close()
    return cases


def gen_wrapsof(r, idx):
    """a decorated callable that took over name / docstring / __dict__ of an ALREADY decorated one with functools.wraps but has a body
    of its own (an overriding method written `@wraps(Base.m)`, a variant `@pedantic @wraps(guarded)`): it must be guarded like any other"""
    ret = r.choice([' -> int', ' -> int', ' -> None', ' -> str'])
    sig = r.choice(COMPLETE_SIGS)
    form = r.choice(['plain', 'plain', 'require_kwargs', 'inst_class', 'inst_direct'])
    if form in ('plain', 'require_kwargs'):
        deco = '@pedantic' if form == 'plain' else '@require_kwargs'
        def mod(dec):
            d = dec + '\n' if dec else ''
            return (f'{d}def w{idx}({sig}){ret}:\n    """ doc of w """\n    return _BODY({idx * 2}, locals())\n'
                    f'{d}@wraps(w{idx})\ndef v{idx}({sig}){ret}:\n    return _BODY({idx * 2 + 1}, locals())\n')
        return {'src': mod(deco), 'twin': mod(None), 'access': ('mod', f'v{idx}'), 'kind': form}
    first = 'self' + (', ' if sig else '')
    def cls(cdeco, mdeco):
        return (f'{cdeco}class B{idx}:\n{mdeco}    def m({first}{sig}){ret}:\n        """ doc of B.m """\n        return _BODY({idx * 2}, locals())\n'
                f'{cdeco}class D{idx}(B{idx}):\n{mdeco}    @wraps(B{idx}.m)\n    def m({first}{sig}){ret}:\n        return _BODY({idx * 2 + 1}, locals())\n')
    cdeco, mdeco = ('@pedantic_class\n', '') if form == 'inst_class' else ('', '    @pedantic\n')
    return {'src': cls(cdeco, mdeco), 'twin': cls('', ''), 'access': ('inst', f'D{idx}', 'm'), 'kind': form}


def _single_callable_cases(rng, n, gen, scenario, style, tag, calls_per):
    cases = []
    for idx in range(n):
        S = gen(rng, idx)
        P = C.OneProgram(S['src'], S['twin'], f'{tag}{idx}_{rng.randrange(10**9)}')
        try:
            F = {'flavour': 'sync', 'kind': S['kind']}
            acc = S['access']
            raw, mode = P.raw_of(F, acc)
            if raw is None:
                continue
            try:
                desc = C.describe(raw, mode)
            except ValueError:
                continue
            for _ in range(calls_per):
                st = style if style is not None else rng.choice(['kw', 'kw', 'pos1', 'posall'])
                pos, kw = C.gen_call(rng, F, desc, st, bad_range=3)
                body = S.get('body_gen', C.gen_body)(rng, desc)
                impl = C.execute(P, F, acc, pos, kw, body, 'full')
                if S.get('fresh_result') and impl['out'] == 'RET:other' and impl['twin']['out'] == 'RET:other':
                    # the wrapper builds a fresh list from what the body yields: decorated and undecorated call both hand back a new
                    # (equal) object; the model speaks of the value the body produced
                    impl = dict(impl, out='RET', twin=dict(impl['twin'], out='RET'))
                implicit = C.implicit_of(S['kind'], acc)
                truth = {'realStatic': False, 'realSetter': False, 'realPedantic': True, 'implicit': implicit}
                mbody = ['raises', 0] if body[0] == 'raises' else (['ret', ["inst", K.IDX[K.U]]] if body[0] == 'retzoo' else body)
                cases.append({'m': 'calllayer',
                              'c': {'env': C.env_for(P, 'full', S['src']), 'fn': desc, 'truth': truth,
                                    'args': ([["inst", K.IDX[K.U]]] if implicit else []) + pos, 'kw': kw, 'body': mbody},
                              'x': {'access': list(acc), 'kind': S['kind'], 'flavour': 'sync', 'pos': pos, 'kwv': kw, 'body': body, 'ctxmode': 'full',
                                    'fresh_result': bool(S.get('fresh_result')),
                                    'src': S['src'], 'twin': S['twin'], 'implicit': implicit, 'needle': None, 'history': [],
                                    'scenario': scenario, '_impl': impl}})
        finally:
            P.close()
    return cases


def wrapsof_cases(rng, n, style=None, tag='wo', calls_per=2):
    return _single_callable_cases(rng, n, gen_wrapsof, 'wrapsof', style, tag, calls_per)


KIND_PRELUDE = """import asyncio as _asyncio
def as_list(f):
    @wraps(f)
    def w(*a, **k): return list(f(*a, **k))
    return w
def blocking(f):
    @wraps(f)
    def w(*a, **k): return _asyncio.run(f(*a, **k))
    return w
"""


def list_body(r, desc):
    """what the body of an `as_list` program hands to `yield from`: a list (so that the wrapper returns an equal, fresh list), now and
    then with an element of another class, or an exception"""
    if r.random() < 0.12:
        return ['raises', r.choice(['Exception', 'BaseException', 'TypeError'])]
    items = [K.lit(r.randrange(5)) for _ in range(r.randint(0, 3))]
    if r.random() < 0.25:
        items.insert(r.randrange(len(items) + 1), K.lit(r.choice(['x', None, 1.5])))
    return ['ret', K.canon_term(["coll", K.IDX[list], items])]


def gen_kindchange(r, idx):
    """@pedantic above a functools.wraps-based decorator that CHANGES THE KIND of the function it wraps: `as_list` drains a generator
    function into a list, `blocking` runs a coroutine function to completion.  What @pedantic decorates is a plain function (the
    wrapper); introspection that looks through `__wrapped__` sees a generator / coroutine function instead"""
    sig = r.choice(['p0: int', "p0: int, p1: str = 'd'", '', 'p0: List[int]', 'p0: int = 5', '**kwargs: int'])
    if r.random() < 0.5:
        ret = r.choice([' -> Iterable[int]', ' -> Iterator[int]', ' -> Iterable[str]'])
        def mod(dec):
            return KIND_PRELUDE + (dec + '\n' if dec else '') + f'@as_list\ndef k{idx}({sig}){ret}:\n    yield from _BODY({idx}, locals())\n'
        return {'src': mod('@pedantic'), 'twin': mod(None), 'access': ('mod', f'k{idx}'), 'kind': 'plain', 'body_gen': list_body, 'fresh_result': True}
    else:
        ret = r.choice([' -> int', ' -> None', ' -> str', ' -> List[int]'])
        def mod(dec):
            return KIND_PRELUDE + (dec + '\n' if dec else '') + f'@blocking\nasync def k{idx}({sig}){ret}:\n    return _BODY({idx}, locals())\n'
    return {'src': mod('@pedantic'), 'twin': mod(None), 'access': ('mod', f'k{idx}'), 'kind': 'plain'}


def kindchange_cases(rng, n, style='kw', tag='kc', calls_per=2):
    return _single_callable_cases(rng, n, gen_kindchange, 'kindchange', style, tag, calls_per)


def run_impl(cases):
    """C.run_impl_calls for ordinary cases; a case with x['nested_in'] is executed inside its enclosing call"""
    out = [None] * len(cases)
    plain = [i for i, c in enumerate(cases) if not c['x'].get('nested_in')]
    for i, r in zip(plain, C.run_impl_calls([cases[i] for i in plain])):
        if cases[i]['x'].get('fresh_result') and r.get('out') == 'RET:other' and r.get('twin', {}).get('out') == 'RET:other':
            r = dict(r, out='RET', twin=dict(r['twin'], out='RET'))      # as at generation time: both calls hand back a fresh equal object
        out[i] = r
    for n, c in enumerate(cases):
        x = c['x']
        if not x.get('nested_in'):
            continue
        if '_impl' in x:
            out[n] = x.pop('_impl')
            continue
        P = C.OneProgram(x['src'], x['twin'], f'rn{n}_{os.getpid()}')
        try:
            out[n] = run_nested(P, x['nested_in'], x)
        finally:
            P.close()
    return out
