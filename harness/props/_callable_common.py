"""Shared by C01 / C02: the "simple Callable signatures" part of the runtime type checker.

Model `callable` (lean/PedVerif/Model/Callable.lean, Spec/Callable.lean, Props/Callable.lean).  This module generates
(value, annotation) pairs, runs the real checker on them and judges the two property views:

    gen_cases(rng, tier)                 -> cases  {'m': 'callable', 'c': <driver input>, 'x': <python side>}
    run_impl(cases)                      -> canonical outcomes of the real library (assert_value_matches_type, @pedantic route, re-spellings)
    judge_sound(case, impl, model)       -> C01 view: accepted  => Spec.conforms
    judge_complete(case, impl, model)    -> C02 view: Spec.conforms => accepted; verdict independent of the spelling
    search(rng, tier, near)              -> extra cases when a proof / the correspondence broke

How a case is made
* Values are REAL objects: every function / class is generated as source text, all texts of a batch are written to one real
  module file in a temp dir (so `inspect.signature`, `inspect.getsource` and `@pedantic` work) and imported.  The value term the
  model gets is *reflected* from the object with `inspect` (`callable`, `__name__`, `inspect.signature`,
  `inspect.iscoroutinefunction`) — never taken from the generator.
* The annotation is built by evaluating its text with the real typing constructors and reflected back from the object Python
  built (`__args__`, the alias classes of `typing` / `collections.abc`).
* `x` keeps only texts (`defs`, `expr`, `exp`, `alts`), so a stored case is self-contained.  `run_impl` re-materialises the
  texts, re-reflects value and annotation from the objects it really checks and stores that term in `case['c']` (run_impl runs
  before the driver in core.judge_all): `typing` caches subscripted aliases by equality, so the object behind
  `List[Union[int, str]]` may be the `List[int | str]` built earlier in the process — the model must see what the checker saw.
* Outcomes: `accept` | `reject` (the checker answered False) | `raised:<class>` (an exception inside the checker was wrapped into
  PedanticTypeCheckException; told apart by `__context__`, never by the message) | `escape:<class>`.  The correspondence compares
  this fine outcome for `assert_value_matches_type`, for the `@pedantic` route and for the typing <-> collections.abc re-spelling.

How a plugin uses it (C01: sound view, C02: complete view):
    import _callable_common as KC
    def cases(rng, tier):  return … + KC.gen_cases(rng, tier)            # KC.gen_cases(rng, tier, alts=False) for the C01 view
    def run_impl(cases):   # dispatch on case['m']: the 'callable' cases go to KC.run_impl (results back in the original order)
    def judge(case, impl, model):
        if case['m'] == 'callable': return KC.judge_sound(case, impl, model)      # C02: KC.judge_complete
    def search(rng, tier, near): return … + KC.search(rng, tier, near)
"""
import sys, os, json, inspect, functools, typing, types, collections, collections.abc, importlib.util, tempfile, shutil
import itertools, asyncio, hashlib, random
from typing import Any, Union, Optional, List, Dict, Sequence, Iterable, Awaitable, Coroutine, Callable

# ------------------------------------------------------------------ class table (sent to the model with every case)


class P: pass
class C(P): pass
class D: pass
class ML(list): pass


NoneType = type(None)
CLASSES = [object, NoneType, int, bool, str, float, list, P, C, D, ML,
           collections.abc.Sequence, collections.abc.Iterable, collections.abc.Awaitable, collections.abc.Coroutine, asyncio.Future]
CLS_TEXT = ['object', 'NoneType', 'int', 'bool', 'str', 'float', 'list', 'P', 'C', 'D', 'ML',
            'collections.abc.Sequence', 'collections.abc.Iterable', 'collections.abc.Awaitable', 'collections.abc.Coroutine',
            'asyncio.Future']
IDX = {c: i for i, c in enumerate(CLASSES)}
OBJECT, NONE, INT, BOOL, STR, FLOAT, LIST, P_, C_, D_, ML_ = range(11)
FUTURE = IDX[asyncio.Future]
GEN1 = [typing.List, typing.Sequence, typing.Iterable, typing.Awaitable]
GEN1_TEXT = ['List', 'Sequence', 'Iterable', 'Awaitable']
G_LIST, G_SEQ, G_ITER, G_AWAIT = range(4)
GEN3 = [typing.Coroutine]
G_CORO = 0

_ENV = None


def env_json():
    global _ENV
    if _ENV is None:
        rows = []
        for a in CLASSES:
            m = 0
            for j, b in enumerate(CLASSES):
                if issubclass(a, b):
                    m |= 1 << j
            rows.append(m)
        _ENV = {'sub': rows, 'object': OBJECT, 'none': NONE,
                'origin1': [IDX[g.__origin__] for g in GEN1], 'origin3': [IDX[g.__origin__] for g in GEN3],
                'awaitable': G_AWAIT, 'coroutine': G_CORO,
                'bare': [IDX[c] for c in (list, set, dict, frozenset, tuple, type) if c in IDX]}
        # [env] facts the model relies on (Model/Callable.lean, marked [env]); checked here on the live interpreter
        assert inspect._empty.__mro__ == (inspect._empty, object) and inspect.Parameter.empty is inspect._empty \
            and inspect.Signature.empty is inspect._empty
        assert typing.Callable[(int, str)] == typing.Callable[[int], str]
    return _ENV


def issub(a, b):
    return issubclass(CLASSES[a], CLASSES[b])


# ------------------------------------------------------------------ terms -> text

def cls(i): return ["cls", i]
ANY = ["any"]
def union(ids, pep=False): return ["union", bool(pep), list(ids)]
def gen1(g, t): return ["gen1", g, t]
def gen3(t): return ["gen3", G_CORO, t]


def ta_text(t):
    k = t[0]
    if k == 'cls': return CLS_TEXT[t[1]]
    if k == 'any': return 'Any'
    if k == 'union':
        ms = [CLS_TEXT[i] for i in t[2]]
        return ' | '.join(ms) if t[1] else 'Union[' + ', '.join(ms) + ']'
    if k == 'gen1': return f'{GEN1_TEXT[t[1]]}[{ta_text(t[2])}]'
    if k == 'gen3': return f'Coroutine[Any, Any, {ta_text(t[2])}]'
    raise ValueError(t)


def ann_text(a):
    """annotation term of the generator: None = no annotation, ["none"] = the literal None, otherwise a type term"""
    if a is None: return None
    if a[0] == 'none': return 'None'
    return ta_text(a)


CALLABLE_TEXT = {'typing': 'Callable', 'abc': 'collections.abc.Callable'}


def exp_text(e, sp=None, wrap_style=0, flip_unions=False, reverse_unions=False):
    """text of the expected annotation; the keyword arguments produce the equivalent re-spellings"""
    def tt(t):
        if t[0] == 'union':
            ids = list(reversed(t[2])) if reverse_unions else t[2]
            return ta_text(["union", (not t[1]) if flip_unions else t[1], ids])
        if t[0] == 'gen1': return f'{GEN1_TEXT[t[1]]}[{tt(t[2])}]'
        if t[0] == 'gen3': return f'Coroutine[Any, Any, {tt(t[2])}]'
        return ta_text(t)
    ps = '...' if e['ps'] is None else '[' + ', '.join(tt(t) for t in e['ps']) + ']'
    inner = f"{CALLABLE_TEXT[sp or e['sp']]}[{ps}, {tt(e['ret'])}]"
    w = e['wrap']
    if w == 'bare': return inner
    if w == 'optional': return [f'Optional[{inner}]', f'Union[{inner}, None]', f'{inner} | None', f'Union[None, {inner}]'][wrap_style]
    if w == 'list': return [f'List[{inner}]', f'list[{inner}]'][wrap_style]
    if w == 'dict': return [f'Dict[str, {inner}]', f'dict[str, {inner}]'][wrap_style]
    raise ValueError(w)


def respellings(e):
    """[(kind, text)] of equivalent spellings of the expected annotation (C02); 'callable' is the typing <-> collections.abc flip"""
    main = exp_text(e)
    out = [('callable', exp_text(e, sp='abc' if e['sp'] == 'typing' else 'typing'))]
    has_union = any(t[0] == 'union' for t in _types_in(e))
    if has_union:
        out.append(('union', exp_text(e, flip_unions=True)))
        out.append(('order', exp_text(e, reverse_unions=True)))
    n_styles = {'bare': 1, 'optional': 4, 'list': 2, 'dict': 2}[e['wrap']]
    for s in range(1, n_styles):
        out.append(('wrap', exp_text(e, wrap_style=s)))
    return [(k, t) for k, t in out if t != main]


def _types_in(e):
    st = list(e['ps'] or []) + [e['ret']]
    out = []
    while st:
        t = st.pop()
        out.append(t)
        if t[0] in ('gen1', 'gen3'):
            st.append(t[2])
    return out


# ------------------------------------------------------------------ function specs -> source text

def mk_param(name, ann=None, default=False, kind='pk'):
    """kind: po positional-only, pk positional-or-keyword, va *args, ko keyword-only, vk **kwargs"""
    return {'n': name, 'a': ann, 'd': bool(default), 'k': kind}


def params_text(ps, first=None):
    """source text of a parameter list; `first` = an extra leading parameter name (self / cls)"""
    def one(p, star=''):
        s = star + p['n']
        a = ann_text(p['a'])
        if a is not None: s += ': ' + a
        if p['d']: s += ' = None'
        return s
    po = [p for p in ps if p['k'] == 'po']; pk = [p for p in ps if p['k'] == 'pk']
    va = [p for p in ps if p['k'] == 'va']; ko = [p for p in ps if p['k'] == 'ko']; vk = [p for p in ps if p['k'] == 'vk']
    parts = []
    if first and po: parts.append(first)
    parts += [one(p) for p in po]
    if po: parts.append('/')
    if first and not po: parts.append(first)
    parts += [one(p) for p in pk]
    if va: parts.append(one(va[0], '*'))
    elif ko: parts.append('*')
    parts += [one(p) for p in ko]
    if vk: parts.append(one(vk[0], '**'))
    return ', '.join(parts)


def valid_params(ps):
    seen_default = False
    for p in ps:
        if p['k'] in ('po', 'pk'):
            if p['d']: seen_default = True
            elif seen_default: return False
    order = {'po': 0, 'pk': 1, 'va': 2, 'ko': 3, 'vk': 4}
    ks = [order[p['k']] for p in ps]
    return ks == sorted(ks) and sum(p['k'] == 'va' for p in ps) <= 1 and sum(p['k'] == 'vk' for p in ps) <= 1 \
        and not any(p['d'] for p in ps if p['k'] in ('va', 'vk'))


def _named(body):
    """replace the placeholder @N@ by a name derived from the text, so that equal definitions share one object"""
    return body.replace('@N@', 'g_' + hashlib.sha1(body.encode()).hexdigest()[:12]), 'g_' + hashlib.sha1(body.encode()).hexdigest()[:12]


def value_of_fn(fn, form):
    """fn = {'ps': [param], 'ret': ann term or None, 'coro': bool}; returns {'defs': source, 'expr': expression, 'form': form}"""
    ps, ret, coro = fn['ps'], fn['ret'], fn.get('coro', False)
    r = ann_text(ret)
    arrow = f' -> {r}' if r is not None else ''
    a = 'async ' if coro else ''
    if form in ('def', 'partial', 'partial_named', 'renamed_lambda', 'bad_signature'):
        body, name = _named(f'{a}def @N@({params_text(ps)}){arrow}:\n    return None\n')
        expr = {'def': name, 'partial': f'functools.partial({name})',
                'partial_named': f'functools.update_wrapper(functools.partial({name}), {name})',
                'renamed_lambda': f'_renamed({name}, "<lambda>")', 'bad_signature': f'_bad_signature({name})'}[form]
        return {'defs': body, 'expr': expr, 'form': form}
    if form == 'lambda':
        plain = [mk_param(p['n'], None, p['d'], p['k']) for p in ps]
        body, name = _named(f'@N@ = lambda {params_text(plain)}: None\n')
        return {'defs': body, 'expr': name, 'form': form}
    if form == 'class':
        body, name = _named(f'class @N@:\n    def __init__({params_text(ps, "self")}) -> None:\n        pass\n')
        return {'defs': body, 'expr': name, 'form': form}
    if form in ('instance', 'bound', 'static', 'classm', 'unbound'):
        body, name = _named(
            f'class @N@:\n'
            f'    {a}def __call__({params_text(ps, "self")}){arrow}:\n        return None\n'
            f'    {a}def m({params_text(ps, "self")}){arrow}:\n        return None\n'
            f'    @staticmethod\n    {a}def s({params_text(ps)}){arrow}:\n        return None\n'
            f'    @classmethod\n    {a}def c({params_text(ps, "cls")}){arrow}:\n        return None\n')
        expr = {'instance': f'{name}()', 'bound': f'{name}().m', 'static': f'{name}.s', 'classm': f'{name}.c', 'unbound': f'{name}.m'}[form]
        return {'defs': body, 'expr': expr, 'form': form}
    raise ValueError(form)


def value_expr(expr, form):
    return {'defs': '', 'expr': expr, 'form': form}


BUILTIN_VALUES = [('len', 'builtin'), ('int', 'builtin'), ('print', 'builtin'), ('dict', 'builtin'), ('str.upper', 'builtin'),
                  ('"x".upper', 'builtin'), ('abs', 'builtin'), ('isinstance', 'builtin'), ('asyncio.sleep', 'builtin')]
NONCALLABLE_VALUES = [('3', 'noncallable'), ('"x"', 'noncallable'), ('[1]', 'noncallable'), ('P()', 'noncallable'), ('{"a": 1}', 'noncallable')]

# ------------------------------------------------------------------ materialisation: texts -> real objects

HEADER = ('import typing, collections, collections.abc, functools, asyncio\n'
          'from typing import *\n'
          'from pedantic import pedantic\n'
          f'from {__name__} import P, C, D, ML\n'
          'NoneType = type(None)\n'
          'def _renamed(f, name):\n    f.__name__ = name\n    return f\n'
          'def _bad_signature(f):\n    f.__signature__ = 3\n    return f\n\n')
_COUNTER = itertools.count()


def _leaves(val):
    if val[0] == 'leaf': return [val[1]]
    if val[0] == 'list': return list(val[1])
    return [kv[1] for kv in val[1]]


def ped_block(exp):
    """a real @pedantic function with the annotation on its parameter: (source, name)"""
    name = 'use_' + hashlib.sha1(exp.encode()).hexdigest()[:12]
    return f'@pedantic\ndef {name}(cb: {exp}) -> int:\n    return 1\n', name


class Materialised:
    """all definitions of a batch of cases in one real module file"""

    def __init__(self, cases):
        blocks, seen = [], set()
        for c in cases:
            x = c['x']
            for leaf in _leaves(x['val']):
                if leaf['defs'] and leaf['defs'] not in seen:
                    seen.add(leaf['defs']); blocks.append(leaf['defs'])
            if x.get('ped'):
                b, _ = ped_block(x['exp'])
                if b not in seen:
                    seen.add(b); blocks.append(b)
        self.dir = tempfile.mkdtemp(prefix='pedcal_')
        self.name = f'pedcal_{os.getpid()}_{next(_COUNTER)}'
        path = os.path.join(self.dir, self.name + '.py')
        with open(path, 'w') as f:
            f.write(HEADER + '\n'.join(blocks))
        spec = importlib.util.spec_from_file_location(self.name, path)
        self.mod = importlib.util.module_from_spec(spec)
        sys.modules[self.name] = self.mod
        try:
            spec.loader.exec_module(self.mod)
        except BaseException:
            self.close()
            raise
        self.ns = self.mod.__dict__
        self._cache = {}

    def ev(self, text):
        if text not in self._cache:
            self._cache[text] = eval(text, self.ns)
        return self._cache[text]

    def fresh(self, text):
        return eval(text, self.ns)

    def value(self, val):
        if val[0] == 'leaf': return self.fresh(val[1]['expr'])
        if val[0] == 'list': return [self.fresh(l['expr']) for l in val[1]]
        return {self.fresh(k): self.fresh(l['expr']) for k, l in val[1]}

    def close(self):
        sys.modules.pop(self.name, None)
        shutil.rmtree(self.dir, ignore_errors=True)


# ------------------------------------------------------------------ reflection: real objects -> terms

class Unsupported(Exception):
    pass


def reflect_ta(o):
    if o is Any: return ["any"]
    if isinstance(o, type) and not isinstance(o, types.GenericAlias):
        if o in IDX: return ["cls", IDX[o]]
        raise Unsupported(f'class {o!r} is not in the table')
    if isinstance(o, types.UnionType) or typing.get_origin(o) is Union:
        ms = []
        for a in o.__args__:
            if not (isinstance(a, type) and a in IDX): raise Unsupported(f'union member {a!r}')
            ms.append(IDX[a])
        return ["union", isinstance(o, types.UnionType), ms]
    if isinstance(o, typing._GenericAlias):
        alias = getattr(typing, o._name, None) if getattr(o, '_name', None) else None
        for g, a in enumerate(GEN1):
            if alias is a and len(o.__args__) == 1: return ["gen1", g, reflect_ta(o.__args__[0])]
        for g, a in enumerate(GEN3):
            if alias is a and len(o.__args__) == 3 and o.__args__[0] is Any and o.__args__[1] is Any:
                return ["gen3", g, reflect_ta(o.__args__[2])]
    raise Unsupported(f'type {o!r}')


def reflect_ann(o):
    if o is inspect._empty: return ["empty"]
    if o is None: return ["none"]
    return reflect_ta(o)


def reflect_leaf(v):
    """the value as `_instancecheck_callable` can see it"""
    if v is None: return ["none"]
    if not callable(v): return ["non"]
    try:
        n = v.__name__
        name = 'lambda' if n == '<lambda>' else 'other'
    except AttributeError:
        name = 'missing'
    try:
        s = inspect.signature(v)
        sig = ["ok", [[reflect_ann(p.annotation), p.default is not inspect._empty] for p in s.parameters.values()],
               reflect_ann(s.return_annotation)]
    except TypeError:
        sig = ["typeError"]
    except ValueError:
        sig = ["valueError"]
    return ["fn", name, sig, bool(inspect.iscoroutinefunction(v))]


def reflect_val(v):
    if type(v) is list: return ["list", [reflect_leaf(x) for x in v]]
    if type(v) is dict: return ["dict", [[isinstance(k, str), reflect_leaf(x)] for k, x in v.items()]]
    return ["leaf", reflect_leaf(v)]


def reflect_expected(o):
    wrap, inner = 'bare', o
    if typing.get_origin(o) is Union or isinstance(o, types.UnionType):
        a = o.__args__
        if len(a) != 2 or NoneType not in a: raise Unsupported(f'union wrapper {o!r}')
        wrap, inner = 'optional', [m for m in a if m is not NoneType][0]
    elif isinstance(o, (typing._GenericAlias, types.GenericAlias)) and typing.get_origin(o) is list:
        wrap, inner = 'list', o.__args__[0]
    elif isinstance(o, (typing._GenericAlias, types.GenericAlias)) and typing.get_origin(o) is dict:
        if o.__args__[0] is not str: raise Unsupported(f'dict key {o!r}')
        wrap, inner = 'dict', o.__args__[1]
    if type(inner) is typing._CallableGenericAlias: sp = 'typing'
    elif type(inner) is collections.abc._CallableGenericAlias: sp = 'abc'
    else: raise Unsupported(f'not a Callable alias: {inner!r}')
    a = inner.__args__
    if a[0] is Ellipsis:
        if len(a) != 2: raise Unsupported(repr(inner))
        ps = None
    else:
        ps = [reflect_ta(t) for t in a[:-1]]
    return {'wrap': wrap, 'sp': sp, 'ps': ps, 'ret': reflect_ta(a[-1])}


# ------------------------------------------------------------------ running the real library

def classify_exc(e):
    """reject (the checker answered False) vs raised:<class> (an exception inside the checker was wrapped) — told apart by the
    exception context, never by the message"""
    from pedantic.exceptions import PedanticTypeCheckException, PedanticException
    if isinstance(e, PedanticTypeCheckException):
        ctx = e.__context__
        return 'reject' if ctx is None else 'raised:' + type(ctx).__name__
    if isinstance(e, PedanticException): return 'ped:' + type(e).__name__
    return 'escape:' + type(e).__name__


def run_assert(ann_obj, val_obj):
    from pedantic import assert_value_matches_type
    try:
        assert_value_matches_type(value=val_obj, type_=ann_obj, err='', type_vars={}, context={'P': P, 'C': C, 'D': D, 'ML': ML})
        return 'accept'
    except BaseException as e:
        return classify_exc(e)


def run_pedantic(use, val_obj):
    try:
        r = use(cb=val_obj)
        return 'accept' if r == 1 else f'returned:{r!r}'
    except BaseException as e:
        return classify_exc(e)


def verdict_class(out):
    if out == 'accept': return 'accept'
    if out == 'reject' or out.startswith('raised:'): return 'typecheck'
    return out


def finish_cases(cases):
    """materialise the texts, reflect value and annotation from the real objects into c['c']; drops what is outside the fragment"""
    if not cases:
        return []
    m = Materialised(cases)
    out = []
    try:
        for c in cases:
            x = c['x']
            try:
                c['c'] = {'env': env_json(), 'exp': reflect_expected(m.ev(x['exp'])), 'val': reflect_val(m.value(x['val']))}
            except Unsupported as e:
                continue
            out.append(c)
    finally:
        m.close()
    return out


def run_impl(cases):
    if not cases:
        return []
    try:
        m = Materialised(cases)
    except BaseException as e:
        return [{'out': 'unbuildable:' + type(e).__name__} for _ in cases]
    res = []
    try:
        for c in cases:
            x = c['x']
            try:
                eo = m.ev(x['exp'])
                vo = m.value(x['val'])
                now = {'env': env_json(), 'exp': reflect_expected(eo), 'val': reflect_val(vo)}
            except BaseException as e:
                res.append({'out': 'unbuildable:' + type(e).__name__}); continue
            # the term the model gets describes the objects that are checked HERE (typing caches subscripted aliases by equality, so
            # e.g. List[Union[int, str]] may come back as the List[int | str] object built earlier in the process)
            c['c'] = now
            r = {'out': run_assert(eo, vo), 'ped': None, 'alts': []}
            if x.get('ped'):
                r['ped'] = run_pedantic(m.ns[ped_block(x['exp'])[1]], m.value(x['val']))
            for kind, text in x.get('alts', []):
                try:
                    ao = m.ev(text)
                except BaseException as e:
                    r['alts'].append('unbuildable:' + type(e).__name__); continue
                r['alts'].append(run_assert(ao, m.value(x['val'])))
            res.append(r)
    finally:
        m.close()
    return res


# ------------------------------------------------------------------ judges

FINDING_OF_REGION = [('asyncVsTop', 'callableAsyncVsAny')]     # repaired by 514cbd1: the region is empty while Gen.Callable.coroOtherTopTest holds; no open finding carries this id any more, so a case that falls into it again is a violation


def _common(case, impl, model):
    """correspondence R: fine outcome (accept / reject / raised:<class>) of both routes and of the re-spelled Callable equals the model's"""
    io = impl['out']
    if io.startswith('unbuildable'):
        return None
    assert model['wf'], 'harness bug: class table does not satisfy Env.WF'
    why = []
    if io != model['out']: why.append(f"assert_value_matches_type: implementation {io} vs model {model['out']}")
    if impl.get('ped') is not None and impl['ped'] != model['out']: why.append(f"@pedantic route: implementation {impl['ped']} vs model {model['out']}")
    for (kind, text), o in zip(case['x'].get('alts', []), impl['alts']):
        if kind == 'callable' and o != model['other_spelling']:
            why.append(f"re-spelled as {text}: implementation {o} vs model {model['other_spelling']}")
    v = case['c']['val']
    nontrivial = not (v[0] == 'leaf' and v[1][0] in ('none', 'non'))
    form = ','.join(sorted({l.get('form', '?') for l in _leaves(case['x']['val'])}))[:40]
    tag = f"{model['tag']}/{verdict_class(io)}/spec={int(model['spec'])}"
    return {'corr': not why, 'why': '; '.join(why), 'nontrivial': nontrivial, 'tag': tag, 'form': form}


def judge_sound(case, impl, model):
    """C01: accepted (by assert_value_matches_type or by the @pedantic call) => the value conforms"""
    j = _common(case, impl, model)
    if j is None:
        return {'corr': True, 'pfail': None, 'finding': None, 'nontrivial': False, 'tag': 'callable/' + impl['out'].split(':')[0]}
    pfail = None
    accepted_by = [r for r, o in (('assert_value_matches_type', impl['out']), ('@pedantic call', impl.get('ped'))) if o == 'accept']
    if accepted_by and not model['spec']:
        pfail = (f"{' and '.join(accepted_by)} accepted {case['x']['val_text']} as {case['x']['exp']} although it does not conform "
                 f"(Spec.conforms = false)")
    return {'corr': j['corr'], 'pfail': pfail, 'finding': None, 'nontrivial': j['nontrivial'], 'tag': 'callable/' + j['tag'], 'why': j['why']}


def judge_complete(case, impl, model):
    """C02: the value conforms => accepted; and the verdict class does not depend on the spelling of the annotation"""
    j = _common(case, impl, model)
    if j is None:
        return {'corr': True, 'pfail': None, 'finding': None, 'nontrivial': False, 'tag': 'callable/' + impl['out'].split(':')[0]}
    pfail, finding = None, None
    regions = list(model['regions'])
    rejected_by = [(r, o) for r, o in (('assert_value_matches_type', impl['out']), ('@pedantic call', impl.get('ped')))
                   if o is not None and o != 'accept']
    if model['spec'] and rejected_by:
        pfail = (f"{rejected_by[0][0]} answered {rejected_by[0][1]} for {case['x']['val_text']} as {case['x']['exp']} although it conforms "
                 f"(Spec.conforms = true)")
    if pfail is None:
        vc = verdict_class(impl['out'])
        for (kind, text), o in zip(case['x'].get('alts', []), impl['alts']):
            if verdict_class(o) != vc:
                pfail = f"verdict depends on the spelling: {impl['out']} for {case['x']['exp']}, {o} for {text} (value {case['x']['val_text']})"
                break
    if pfail and j['corr']:
        for reg, fid in FINDING_OF_REGION:
            if reg in regions:
                finding = fid
                break
    return {'corr': j['corr'], 'pfail': pfail, 'finding': finding, 'nontrivial': j['nontrivial'],
            'tag': 'callable/' + j['tag'] + f"/alts={len(impl['alts'])}", 'why': j['why']}


# ------------------------------------------------------------------ case construction

def mk_case(val, e, kind, ped=False, alts=True):
    """val = ["leaf", V] | ["list", [V…]] | ["dict", [[keyexpr, V]…]] with V = {'defs','expr','form'}; e = expected term with wrap/sp"""
    if val[0] == 'leaf': vt = val[1]['expr']
    elif val[0] == 'list': vt = '[' + ', '.join(l['expr'] for l in val[1]) + ']'
    else: vt = '{' + ', '.join(f"{k}: {l['expr']}" for k, l in val[1]) + '}'
    x = {'val': val, 'val_text': vt, 'exp': exp_text(e), 'kind': kind, 'ped': bool(ped),
         'alts': [[k, t] for k, t in respellings(e)] if alts else []}
    return {'m': 'callable', 'c': None, 'x': x}


def mk_exp(ps, ret, wrap='bare', sp='typing'):
    return {'wrap': wrap, 'sp': sp, 'ps': ps, 'ret': ret}


def leaf(v):
    return ["leaf", v]


# ---- the exhaustive small family: <= 2 parameters over a 5-type alphabet ------------------------------------------------

F5 = [None, cls(INT), cls(BOOL), cls(STR), union([INT, STR])]          # declared: no annotation, int, bool (< int), str (unrelated), Union
E5 = [cls(INT), cls(BOOL), cls(STR), union([INT, STR]), ANY]            # expected


def exhaustive_small(ped_every=16):
    fns = []
    for n in range(3):
        for anns in itertools.product(F5, repeat=n):
            for ret in F5:
                fns.append({'ps': [mk_param(f'p{i}', a) for i, a in enumerate(anns)], 'ret': ret, 'coro': False})
    exps = []
    for ret in E5:
        exps.append(mk_exp(None, ret))
        for n in range(3):
            for ts in itertools.product(E5, repeat=n):
                exps.append(mk_exp(list(ts), ret))
    out = []
    k = 0
    for fn in fns:
        v = leaf(value_of_fn(fn, 'def'))
        for e in exps:
            k += 1
            out.append(mk_case(v, e, 'small', ped=(k % ped_every == 0), alts=(k % 4 == 0)))
    return out


def exhaustive_defaults():
    """<= 2 parameters over {no annotation, int, bool} with every valid placement of defaults, *args / **kwargs variants"""
    A3 = [None, cls(INT), cls(BOOL)]
    fns = []
    for n in range(3):
        for anns in itertools.product(A3, repeat=n):
            for ds in itertools.product([False, True], repeat=n):
                ps = [mk_param(f'p{i}', a, d) for i, (a, d) in enumerate(zip(anns, ds))]
                if valid_params(ps):
                    fns.append({'ps': ps, 'ret': cls(INT), 'coro': False})
    for extra in ([mk_param('args', None, kind='va')], [mk_param('args', cls(INT), kind='va')], [mk_param('kw', cls(INT), kind='vk')],
                  [mk_param('args', cls(BOOL), kind='va'), mk_param('kw', None, kind='vk')],
                  [mk_param('k', cls(INT), kind='ko')], [mk_param('k', cls(INT), True, kind='ko')]):
        for lead in ([], [mk_param('p0', cls(INT))], [mk_param('p0', cls(INT), True)], [mk_param('p0', cls(INT)), mk_param('p1', cls(BOOL), True)]):
            fns.append({'ps': lead + extra, 'ret': cls(INT), 'coro': False})
    X3 = [cls(INT), cls(BOOL), ANY]
    exps = []
    for ret in (cls(INT), ANY):
        exps.append(mk_exp(None, ret))
        for n in range(4):
            for ts in itertools.product(X3, repeat=n):
                if n < 3 or len(set(map(json.dumps, ts))) == 1:
                    exps.append(mk_exp(list(ts), ret))
    out = []
    for k, (fn, e) in enumerate(itertools.product(fns, exps)):
        out.append(mk_case(leaf(value_of_fn(fn, 'def')), e, 'defaults', ped=(k % 16 == 0), alts=(k % 8 == 0)))
    return out


# ---- the zoo: every kind of callable object against a fixed set of annotations -------------------------------------------

def zoo_cases():
    fns = [{'ps': [mk_param('a', cls(INT))], 'ret': cls(STR), 'coro': False},
           {'ps': [mk_param('a', cls(INT))], 'ret': cls(STR), 'coro': True},
           {'ps': [], 'ret': ["none"], 'coro': False},
           {'ps': [mk_param('a', cls(INT)), mk_param('b', cls(STR))], 'ret': cls(BOOL), 'coro': False},
           {'ps': [mk_param('a', cls(INT), kind='po'), mk_param('b', cls(STR), True)], 'ret': cls(BOOL), 'coro': False},
           {'ps': [mk_param('a', None)], 'ret': None, 'coro': False}]
    forms = ['def', 'lambda', 'partial', 'partial_named', 'renamed_lambda', 'instance', 'class', 'bound', 'static', 'classm', 'unbound']
    vals = [value_of_fn(fn, form) for fn in fns for form in forms]
    vals.append(value_of_fn({'ps': [mk_param('zz', cls(INT))], 'ret': cls(STR), 'coro': False}, 'bad_signature'))   # inspect.signature raises TypeError
    vals += [value_expr(e, f) for e, f in BUILTIN_VALUES + NONCALLABLE_VALUES] + [value_expr('None', 'none')]
    exps = [mk_exp([cls(INT)], cls(STR)), mk_exp(None, cls(STR)), mk_exp(None, ANY), mk_exp([ANY], ANY), mk_exp([], cls(NONE)),
            mk_exp([cls(INT), cls(STR)], cls(BOOL)), mk_exp([cls(INT)], cls(BOOL)), mk_exp([cls(INT)], gen1(G_AWAIT, cls(STR))),
            mk_exp([cls(INT)], gen3(cls(STR))), mk_exp(None, cls(OBJECT)), mk_exp([cls(INT)], cls(STR), sp='abc'),
            mk_exp([], cls(NONE), sp='abc'), mk_exp([cls(INT), cls(STR)], cls(BOOL), sp='abc'), mk_exp(None, ANY, sp='abc'),
            mk_exp([cls(INT)], cls(STR), wrap='optional'), mk_exp(None, ANY, wrap='optional'), mk_exp([cls(INT)], cls(STR), wrap='optional', sp='abc'),
            mk_exp([], cls(NONE), wrap='optional', sp='abc')]
    return [mk_case(leaf(v), e, 'zoo', ped=True) for v in vals for e in exps]


def union_family():
    """declared x expected over unions that are equal / re-ordered / re-spelled / overlapping / contained / disjoint, and their members,
    in a parameter and in the return position (exhaustive over the list)"""
    U = [union([INT, STR]), union([STR, INT], True), union([INT, BOOL]), union([BOOL, STR]), union([INT, STR, FLOAT]), union([INT, NONE]),
         union([NONE, INT], True), union([P_, D_]), union([C_, D_]), union([FLOAT, D_]), cls(INT), cls(BOOL), cls(STR), cls(NONE), cls(C_), cls(OBJECT), ANY,
         gen1(G_LIST, union([INT, STR])), gen1(G_LIST, union([INT, BOOL])), gen1(G_LIST, cls(INT))]
    out = []
    k = 0
    for d in U:
        for x in U:
            k += 1
            out.append(mk_case(leaf(value_of_fn({'ps': [mk_param('a', d)], 'ret': cls(INT), 'coro': False}, 'def')), mk_exp([x], cls(INT)), 'unions:param',
                               ped=(k % 8 == 0), alts=(k % 4 == 0)))
            out.append(mk_case(leaf(value_of_fn({'ps': [], 'ret': d, 'coro': False}, 'def')), mk_exp([], x), 'unions:ret', alts=(k % 4 == 1)))
            if k % 3 == 0:
                out.append(mk_case(leaf(value_of_fn({'ps': [], 'ret': d, 'coro': True}, 'def')), mk_exp(None, r_(k, x)), 'unions:coro', alts=False))
    return out


def r_(k, x):
    return gen1(G_AWAIT, x) if k % 2 else gen3(x)


def nested_zoo():
    """the nested positions of the task: List[Callable[[int], str]], Optional[Callable[..., Any]], Dict[str, Callable[[], None]] with
    conforming / non-conforming / raising elements at the first and the last position, empty containers, wrong container, wrong key"""
    f = value_of_fn({'ps': [mk_param('a', cls(INT))], 'ret': cls(STR), 'coro': False}, 'def')
    g = value_of_fn({'ps': [mk_param('a', cls(INT))], 'ret': cls(STR), 'coro': True}, 'def')
    h = value_of_fn({'ps': [mk_param('a', cls(STR))], 'ret': cls(STR), 'coro': False}, 'def')
    n0 = value_of_fn({'ps': [], 'ret': ["none"], 'coro': False}, 'def')
    part = value_of_fn({'ps': [mk_param('a', cls(INT))], 'ret': cls(STR), 'coro': False}, 'partial')
    lam = value_of_fn({'ps': [mk_param('a', None)], 'ret': None, 'coro': False}, 'lambda')
    three, none_, int_ = value_expr('3', 'noncallable'), value_expr('None', 'none'), value_expr('int', 'builtin')
    items = [f, g, h, n0, part, lam, three, none_, int_]
    out = []
    for sp in ('typing', 'abc'):
        for e in (mk_exp([cls(INT)], cls(STR), 'list', sp), mk_exp(None, ANY, 'list', sp), mk_exp([], cls(NONE), 'list', sp)):
            seqs = [[]] + [[a] for a in items] + [[f, a] for a in items] + [[a, f] for a in items] + [[lam, n0, f]]
            for xs in seqs:
                out.append(mk_case(["list", xs], e, 'nested-zoo:list', ped=(len(xs) == 2)))
            out.append(mk_case(leaf(f), e, 'nested-zoo:list'))
            out.append(mk_case(["dict", [['"k"', f]]], e, 'nested-zoo:list'))
        for e in (mk_exp([], cls(NONE), 'dict', sp), mk_exp([cls(INT)], cls(STR), 'dict', sp), mk_exp(None, ANY, 'dict', sp)):
            dicts = [[]] + [[['"k"', a]] for a in items] + [[['"k"', n0], ['"l"', a]] for a in items] + [[['"k"', a], ['"l"', n0]] for a in items] + \
                [[['1', a]] for a in (f, n0, part)] + [[['"k"', n0], ['2', a]] for a in (n0, part, three)] + [[['3', part], ['"k"', n0]]]
            for kvs in dicts:
                out.append(mk_case(["dict", kvs], e, 'nested-zoo:dict', ped=(len(kvs) == 2)))
            out.append(mk_case(["list", [n0]], e, 'nested-zoo:dict'))
            out.append(mk_case(leaf(n0), e, 'nested-zoo:dict'))
        for e in (mk_exp(None, ANY, 'optional', sp), mk_exp([cls(INT)], cls(STR), 'optional', sp), mk_exp([], cls(NONE), 'optional', sp)):
            for a in items:
                out.append(mk_case(leaf(a), e, 'nested-zoo:optional', ped=True))
            out.append(mk_case(["list", [f]], e, 'nested-zoo:optional'))
    return out


# ---- random structured pairs with one near miss --------------------------------------------------------------------------

UNIONS = [[INT, STR], [INT, BOOL], [BOOL, STR], [P_, NONE], [INT, NONE], [P_, D_], [C_, D_, NONE], [STR, NONE], [INT, STR, FLOAT],
          [LIST, NONE], [OBJECT, NONE], [P_, C_]]
PLAIN = [INT, BOOL, STR, FLOAT, P_, C_, D_, OBJECT, NONE, LIST, ML_]


def rand_type(r, depth=0):
    k = r.random()
    if k < 0.45: return cls(r.choice(PLAIN))
    if k < 0.55: return ANY
    if k < 0.78 or depth >= 2: return union(r.choice(UNIONS), r.random() < 0.35)
    return gen1(r.choice([G_LIST, G_LIST, G_SEQ, G_ITER]), rand_type(r, depth + 1))


def strict_subs(c): return [d for d in range(len(CLASSES)) if d != c and issub(d, c) and d < 11]
def strict_supers(c): return [d for d in range(len(CLASSES)) if d != c and issub(c, d) and d < 11]
def unrelated(c): return [d for d in PLAIN if not issub(d, c) and not issub(c, d)]


def sub_of(r, t):
    """an annotation term (None = unannotated) meant to be a subtype of t (mostly equal; the spec decides what it really is)"""
    k = t[0]
    if k == 'any':
        return r.choice([None, ["none"], rand_type(r, 1), rand_type(r, 1)])
    if k == 'cls':
        c = t[1]
        z = r.random()
        if c == NONE and z < 0.5: return ["none"]
        if z < 0.65: return t
        if z < 0.85 and strict_subs(c): return cls(r.choice(strict_subs(c)))
        if c == LIST: return gen1(G_LIST, rand_type(r, 1))
        if z < 0.92:
            ss = [u for u in UNIONS if all(issub(m, c) for m in u)]
            if ss: return union(r.choice(ss), r.random() < 0.4)
        return t
    if k == 'union':
        z = r.random()
        if z < 0.4: return cls(r.choice(t[2]))
        if z < 0.6: return union(t[2], r.random() < 0.5)
        if z < 0.7: return union(list(reversed(t[2])), t[1])
        if z < 0.8 and len(t[2]) > 2: return union(t[2][:2], t[1])
        m = r.choice(t[2])
        if strict_subs(m): return cls(r.choice(strict_subs(m)))
        if m == NONE: return ["none"]
        return cls(m)
    if k == 'gen1':
        z = r.random()
        inner = sub_of(r, t[2])
        if inner is None or inner[0] == 'none': inner = t[2]
        if z < 0.6: return gen1(t[1], inner)
        if z < 0.8 and t[1] in (G_SEQ, G_ITER): return gen1(G_LIST, inner)
        if z < 0.9 and t[1] in (G_LIST, G_SEQ, G_ITER): return cls(r.choice([LIST, ML_]))
        if t[1] == G_AWAIT: return r.choice([cls(FUTURE), gen3(inner), gen1(G_AWAIT, inner)])
        return gen1(t[1], t[2])
    if k == 'gen3':
        inner = sub_of(r, t[2])
        if inner is None or inner[0] == 'none': inner = t[2]
        return gen3(inner)
    return t


def other_type(r, t, how):
    """a type related to t as `how`: 'unrelated' | 'super' | 'sub' """
    if t is None or t[0] == 'none': t = cls(NONE)
    if t[0] == 'cls':
        pool = {'unrelated': unrelated, 'super': strict_supers, 'sub': strict_subs}[how](t[1])
        if pool: return cls(r.choice(pool))
    if how == 'super': return r.choice([ANY, cls(OBJECT)])
    if how == 'sub': return sub_of(r, t) or t
    return r.choice([cls(D_), cls(FLOAT), gen1(G_LIST, cls(D_)), union([D_, FLOAT])])


def as_ta(a, fallback):
    """an annotation term as a type term for the expected side (None literal -> NoneType)"""
    if a is None: return fallback
    if a[0] == 'none': return cls(NONE)
    return a


FORMS_W = ['def'] * 10 + ['lambda', 'partial', 'partial_named', 'instance', 'class', 'bound', 'static', 'classm', 'unbound', 'renamed_lambda']
MUTATIONS = ['none', 'none', 'none', 'param_unrelated', 'param_super', 'param_sub', 'param_unannotated', 'arity_plus', 'arity_minus',
             'default_added', 'default_removed', 'ret_unrelated', 'ret_super', 'ret_sub', 'ret_unannotated', 'ret_none', 'flip_async',
             'exp_ret_shape', 'form', 'star', 'value_other', 'exp_arity', 'exp_param', 'ellipsis', 'optional_lead', 'kwonly_required']


def rand_exp(r):
    ell = r.random() < 0.15
    n = r.choice([0, 1, 1, 2, 2, 3, 4])
    ps = None if ell else [rand_type(r) for _ in range(n)]
    ret = rand_type(r)
    z = r.random()
    if z < 0.12: ret = gen1(G_AWAIT, ret)
    elif z < 0.2: ret = gen3(ret)
    return mk_exp(ps, ret)


def conforming_fn(r, e):
    coro = False
    eret = e['ret']
    if eret[0] == 'gen1' and eret[1] == G_AWAIT and r.random() < 0.8: coro, eret = True, eret[2]
    elif eret[0] == 'gen3' and r.random() < 0.8: coro, eret = True, eret[2]
    n = len(e['ps']) if e['ps'] is not None else r.choice([0, 1, 2, 3])
    ps = []
    for i in range(n):
        t = e['ps'][i] if e['ps'] is not None else rand_type(r)
        ps.append(mk_param(f'p{i}', sub_of(r, t), False, 'po' if (i == 0 and r.random() < 0.1) else 'pk'))
    for j in range(r.choice([0, 0, 0, 1, 2])):                  # optional parameters do not change conformance
        ps.append(mk_param(f'o{j}', r.choice([None, rand_type(r)]), True, r.choice(['pk', 'pk', 'ko'])))
    ps.sort(key=lambda p: {'po': 0, 'pk': 1, 'va': 2, 'ko': 3, 'vk': 4}[p['k']])
    return {'ps': ps, 'ret': sub_of(r, eret), 'coro': coro}


def near_miss(r):
    e = rand_exp(r)
    fn = conforming_fn(r, e)
    form = r.choice(FORMS_W)
    mut = r.choice(MUTATIONS)
    val = None
    req = [i for i, p in enumerate(fn['ps']) if not p['d'] and p['k'] in ('po', 'pk')]
    if mut.startswith('param_') and req:
        i = r.choice(req)
        base = e['ps'][i] if e['ps'] is not None and i < len(e['ps']) else fn['ps'][i]['a']
        fn['ps'][i]['a'] = None if mut == 'param_unannotated' else other_type(r, base, mut[6:])
    elif mut == 'arity_plus':
        fn['ps'].insert(r.choice([0, len(req)]), mk_param('x', r.choice([None, rand_type(r)])))
    elif mut == 'arity_minus' and req:
        del fn['ps'][r.choice(req)]
    elif mut == 'default_added' and req:
        for i in range(req[-1], len(fn['ps'])):
            if fn['ps'][i]['k'] in ('po', 'pk'): fn['ps'][i]['d'] = True
    elif mut == 'default_removed':
        for p in fn['ps']:
            if p['d'] and p['k'] in ('po', 'pk'):
                p['d'] = False
                break
    elif mut.startswith('ret_'):
        base = e['ret'][2] if fn['coro'] else e['ret']
        fn['ret'] = None if mut == 'ret_unannotated' else ["none"] if mut == 'ret_none' else other_type(r, base, mut[4:])
    elif mut == 'flip_async':
        fn['coro'] = not fn['coro']
    elif mut == 'exp_ret_shape':
        t = e['ret']
        inner = t[2] if t[0] in ('gen1', 'gen3') and (t[0] == 'gen3' or t[1] == G_AWAIT) else t
        e['ret'] = r.choice([inner, gen1(G_AWAIT, inner), gen3(inner), ANY, cls(OBJECT), cls(IDX[collections.abc.Awaitable]),
                             gen1(G_LIST, inner)])
    elif mut == 'form':
        form = r.choice(FORMS_W[10:])
    elif mut == 'star':
        k = r.choice(['va', 'vk', 'ko', 'ko_d', 'va+vk'])
        ann = r.choice([None, rand_type(r)])
        if 'va' in k and not any(p['k'] == 'va' for p in fn['ps']): fn['ps'].append(mk_param('args', ann, kind='va'))
        if 'vk' in k: fn['ps'].append(mk_param('kw', ann, kind='vk'))
        if k.startswith('ko'): fn['ps'].append(mk_param('k', ann, k == 'ko_d', 'ko'))
        fn['ps'].sort(key=lambda p: {'po': 0, 'pk': 1, 'va': 2, 'ko': 3, 'vk': 4}[p['k']])
    elif mut == 'value_other':
        ex, f = r.choice(BUILTIN_VALUES + NONCALLABLE_VALUES + [('None', 'none')] * 3)
        val = value_expr(ex, f)
    elif mut == 'exp_arity' and e['ps'] is not None:
        if e['ps'] and r.random() < 0.5: del e['ps'][r.randrange(len(e['ps']))]
        else: e['ps'].insert(r.randrange(len(e['ps']) + 1), rand_type(r))
    elif mut == 'exp_param' and e['ps']:
        i = r.randrange(len(e['ps']))
        e['ps'][i] = as_ta(other_type(r, e['ps'][i], r.choice(['unrelated', 'super', 'sub'])), e['ps'][i])
    elif mut == 'ellipsis':
        e['ps'] = None if e['ps'] is not None else [rand_type(r) for _ in range(len(req))]
    elif mut == 'optional_lead':
        # an optional parameter in front of a required one: only possible with *args / keyword-only / **kwargs
        lead = [mk_param(f'p{i}', p['a'], True) for i, p in enumerate(fn['ps']) if p['k'] in ('po', 'pk')]
        fn['ps'] = lead + [mk_param('args', r.choice([None, rand_type(r)]), kind='va')] * r.choice([0, 1]) + \
            [mk_param('k', r.choice([None, rand_type(r)]), False, 'ko')]
    elif mut == 'kwonly_required':
        fn['ps'].append(mk_param('k', r.choice([None, rand_type(r)]), False, 'ko'))
        fn['ps'].sort(key=lambda p: {'po': 0, 'pk': 1, 'va': 2, 'ko': 3, 'vk': 4}[p['k']])
    names = set()
    for i, p in enumerate(fn['ps']):
        if p['n'] in names: p['n'] = p['n'] + str(i)
        names.add(p['n'])
    if not valid_params(fn['ps']):
        for p in fn['ps']:
            if p['k'] in ('po', 'pk'): p['d'] = False
    if r.random() < 0.12: e['sp'] = 'abc'
    if val is None:
        val = value_of_fn(fn, form)
    return val, e, mut


def random_cases(r, n):
    out = []
    for k in range(n):
        val, e, mut = near_miss(r)
        z = r.random()
        if z < 0.78:
            out.append(mk_case(leaf(val), e, 'nm:' + mut, ped=(r.random() < 0.25)))
        else:
            # nested positions: the same pair inside Optional / List / Dict[str, ·], neighbours conforming or not
            w = r.choice(['optional', 'list', 'dict'])
            e['wrap'] = w
            others = []
            for _ in range(r.choice([0, 1, 1, 2])):
                if r.random() < 0.7: others.append(value_of_fn(conforming_fn(r, e), 'def'))
                else: others.append(near_miss(r)[0])
            if w == 'optional':
                v = leaf(value_expr('None', 'none')) if r.random() < 0.25 else leaf(val)
                if r.random() < 0.08: v = ["list", [val]]
            elif w == 'list':
                items = others + [val]
                r.shuffle(items)
                v = ["list", items] if r.random() < 0.92 else leaf(val)
            else:
                items = others + [val]
                r.shuffle(items)
                keys = [json.dumps('k' + str(i)) for i in range(len(items))]
                if r.random() < 0.12: keys[r.randrange(len(keys))] = str(r.randrange(5))
                v = ["dict", [[k_, it] for k_, it in zip(keys, items)]] if r.random() < 0.92 else ["list", items]
            out.append(mk_case(v, e, f'nested:{w}:{mut}', ped=(r.random() < 0.25)))
    return out


def gen_cases(rng, tier, alts=True):
    """alts=False drops the re-spellings (they only matter for the C02 view) and makes run_impl about 40 % cheaper"""
    n = 4000 if tier == 'quick' else 60000
    cases = exhaustive_small() + exhaustive_defaults() + union_family() + zoo_cases() + nested_zoo() + random_cases(rng, n)
    if not alts:
        for c in cases:
            c['x']['alts'] = []
    return finish_cases(cases)


def search(rng, tier, near):
    """extra cases when a proof obligation or the correspondence broke and no failing input was among the regular cases"""
    return finish_cases(random_cases(rng, 20000))


RULE = ('Callable part: (1) exhaustive: every def-function with <= 2 parameters annotated from {none, int, bool, str, Union[int,str]} and a '
        'return annotation from the same alphabet x every Callable[[..<=2 types..], R] / Callable[..., R] over {int, bool, str, Union[int,str], Any}; '
        'every placement of defaults / *args / **kwargs / keyword-only on <= 2 parameters x arities 0..3; (2) a zoo of every kind of callable '
        '(def, async def, lambda, functools.partial, update_wrapper-ed partial, renamed function, instance with __call__, class object, bound / '
        'static / class / unbound method, builtins, None, non-callables) x 18 annotations; (3) random: a Callable annotation with 0-4 '
        'parameter types over classes / Any / None / unions (both spellings) / List, Sequence, Iterable, Awaitable, Coroutine (nested to depth 2), '
        'a function generated to conform, then one near miss (parameter type -> unrelated / super / sub / unannotated, arity +-1 on either side, '
        'default added / removed, return type changed, sync <-> async, plain <-> Awaitable <-> Coroutine, other kind of callable, *args / **kwargs / '
        'keyword-only, optional parameter before a required one, `...` <-> list, collections.abc spelling); 22 % inside Optional / List / '
        'Dict[str, .] with conforming and non-conforming neighbours. Values are real objects defined in a real module file and reflected with '
        'inspect; annotations are built by the typing constructors and reflected back; a quarter of the cases also goes through a real @pedantic '
        'function; every case is re-run under up to 6 re-spellings (typing/collections.abc Callable, Union / X|Y, member order, Optional / Union / '
        '| None, List / list, Dict / dict). non-trivial = the value is callable')
ASSUMPTIONS = ['Callable fragment: no Protocol classes, TypeVars, string annotations, ParamSpec / Concatenate inside Callable[...]; default values with a lying __eq__ are excluded']
TRUSTED = ['reflection of function values via inspect (harness/props/_callable_common.reflect_leaf) and of Callable annotations via __args__ '
           '(reflect_expected); [env] facts of Model/Callable.lean: inspect.signature raises TypeError for non-callables, class inspect._empty has '
           'no base but object, typing.Callable[(a, r)] == Callable[[a], r] and any other tuple length raises TypeError']
