"""C17 — in_subprocess: observable facts of real runs (own short-lived process per scenario, hard watchdog) vs. the
prediction of the Lean protocol model for the same abstract scenario."""
import json, os, select, signal, subprocess, sys, tempfile, shutil, time, itertools
from concurrent.futures import ThreadPoolExecutor

RULE = ('scenario = tasks run with asyncio (concurrently), each task a sequence of awaited invocations (fd numbers are re-used); per '
        'invocation: callee kind {return 1 B … 1 MiB, raise Exception (4 ordinary classes + 16 classes the parent side of the protocol has a meaning '
        'for or that derive from one: EOFError, two subclasses of it (one also a ValueError), OSError, BrokenPipeError, ConnectionResetError and a '
        'subclass, ChildProcessError and a subclass, TimeoutError, ImportError, RuntimeError, AssertionError, StopAsyncIteration, LookupError, Exception '
        '— judged: same class name, same names along the MRO, same args as the exception the callee made), return such an exception INSTANCE as a value, '
        'raise SystemExit/KeyboardInterrupt, os._exit at once / after the '
        'work, SIGKILL self, unpicklable result, killed after send, killed in the middle of a 1 MiB send, callee that starts a process of its '
        'own (nested @in_subprocess, nested calculate_in_subprocess, plain multiprocess.Process) — compared with the result of calling the '
        'same callee directly —, callee whose process lingers 1.5 s (thorough: also 3 s) after it has reported (non-daemon thread), returning or raising}, '
        'child processes counted right after every single await (/proc, nothing reaped by the observer), sync or async callee, '
        '@in_subprocess or calculate_in_subprocess, quantised durations covering every completion order of up to 3 (quick) / 4 '
        '(thorough) concurrent invocations; WIDE scenarios: cpu_count+1, cpu_count+2, 2*cpu_count+3 (thorough: 4*cpu_count+1) concurrent cheap '
        'invocations — more than any per-core limit lets run at once —, through ONE decorated function per callee kind (a module-level '
        '@in_subprocess def) and through calculate_in_subprocess; SEVERAL EVENT LOOPS one after the other in the same interpreter (2-4 '
        'asyncio.run rounds per scenario, wide and small, mixed callee kinds, fd numbers and decorated functions re-used from loop to loop): '
        'every invocation of every round must get its own result; GATED callees (the callee waits for a multiprocess.Event that the parent sets as soon as '
        'given other invocations have handed over their result — relative durations fixed by design, no timing): an invocation whose child dies without a '
        'result (every death kind) among 1-12 siblings started in the same loop iteration that outlive it (before / between / after them), 36+ pending long '
        'invocations (more than any default thread pool has workers) that wait for a short one started after them; enumerated families + seeded random mixes '
        '(with rounds, with gates); every scenario in its own process, '
        'watchdog 4.5 s per event loop (HANG), process group killed afterwards; LONG callees (0.5-0.7 s; every way an invocation can end, sync / async, both '
        'forms, alone / concurrent / sequential) carry the ticker criterion of the non-blocking clause, judged relative to a control ticker measured in the same '
        'runner process; every suspected failure is re-run alone up to 3 times with 3 x longer limits and counts only if it shows every time.  '
        'non-trivial = more than one invocation or a callee '
        'that does not simply return')
EXHAUSTIVE = {'quick': False, 'thorough': False}
ASSUMPTIONS = [
    'PARTIAL: real OS schedules cannot be enumerated from user space — the schedule quantifier is discharged on the protocol model (all interleavings, proved) and sampled on the real library through quantised callee durations',
    'pickling (dill) of arguments/results and fork() of a process that has threads are outside the model; an unpicklable result is modelled as "the child ends inside send"',
    'cancellation of the awaiting task is not modelled',
    'fork inheritance of other invocations\' pipe ends is not modelled: with the current statement order Pipe→start→tx.close contains no await, so no other fork can happen while a write end is open in the parent — read off the source on every run (generated fact awaitsWhileWriteEndOpen, theorem no_await_while_write_end_open) and exercised by the gated scenarios (a child that dies without a result among siblings that outlive it)',
    'process.join() blocks the event loop from the end of the child\'s send until the child has exited; the model states that this is the only synchronous wait, it does not bound its duration',
    'event loop = asyncio on selectors.EpollSelector (Linux): a closed fd silently leaves the kernel interest set but stays in the selector map',
    'a child that lingers after its send (non-daemon thread, slow exit handler) keeps the parent inside the synchronous process.join() for that long, and the '
    'event loop runs nothing else meanwhile: this violates the clause "while it is pending the event loop keeps running other tasks" and is REPORTED (finding '
    'joinBlocksLoopWhileChildLingers; Lean: join_blocks_other_tasks / other_tasks_run_full_false; proved part other_tasks_run_partial under the guard promptExit). '
    'In scenarios with a lingering callee the clause is judged on the longest gap between two runs of a 10 ms ticker task (no discount): a gap of at least '
    'half the shortest linger time is a stall',
    'a callee that starts processes is compared for the value it returns; the grandchild processes themselves (children of the child) are outside the model',
    'several event loops in one interpreter are modelled as G.newLoop (a new empty selector map, the finished invocations stay); that the module keeps nothing '
    'else from one invocation / one loop to the next is read off the source by the translator (Gen/SubprocModule.lean: module-level bindings, context managers, '
    'synchronisation primitives, stores through non-locals) and proved empty (no_state_between_invocations); state kept elsewhere (inside multiprocess, asyncio) is environment',
    'timing-dependent observations (watchdog expiry = HANG, ticker, measured stall) never count on the strength of one run made under load: every suspected '
    'failure (a property failure that is not a recorded finding, or a disagreement with the model) is re-run ALONE up to 3 times with watchdog and hard limit '
    '3 times longer and counts only if it shows again every time; the first confirmed suspect establishes the violation; retries are recorded in the result '
    '(confirm_runs, first_run) and counted in the evidence.  A seeded defect is deterministic and reproduces; scheduling noise does not',
    'the ticker criterion of the non-blocking clause is applied to invocations whose callee deliberately takes >= 0.5 s (dedicated LONG scenarios for every '
    'callee kind, sync / async, both forms, concurrent and sequential), in event loops with at most 8 concurrent chains, and is RELATIVE: the ticks of a 10 ms '
    'ticker task while the invocation was pending, against what the same ticker got per second in a control phase of the same runner process right before the '
    'scenario (plain asyncio.sleep, nothing of the library running) over the callee\'s deliberate duration; starved = less than 20 % of that; a control below '
    '40 ticks/s (nominal ~95) means the machine is too busy: no verdict, the scenario is run again alone.  In wide scenarios (more invocations than cores) the '
    'loop is busy with the synchronous statements of the other invocations (fork, recv, join) and progress of other tasks is witnessed by those invocations '
    'completing — HANG, outcome, pid and resource clauses are judged for every invocation of every scenario',
]
TRUSTED = [
    'kernel pipe semantics (a read end reports EOF iff no write end is open; data written to one pipe is read from that pipe only) and waitpid',
    'scenario runner embedded in harness/props/C17.py: concretisation of callee kinds, classification of the awaited outcome, /proc based fd and child counting',
]

Q = 0.1            # seconds per duration quantum
WATCHDOG = 4.5     # s: invocations still pending after this are HANG
HARD = 9.0         # s: the scenario process itself is killed after this
WORKERS = 12
TICKER_MAX_CHAINS = 8
LONG_DUR = 5            # quanta: the ticker is judged for invocations whose callee deliberately takes at least LONG_DUR * Q = 0.5 s
TICKER_FRACTION = 0.2   # … and is starved when it ran less than this fraction of what the control ticker of the same process got per second
CONTROL_S = 0.3         # seconds the control ticker runs before the scenario
CONTROL_MIN_RATE = 40.0 # ticks/s (nominal: just under 100): a control below this means the machine is too busy to say anything
CONFIRM_RUNS = 3        # a suspected failure counts only if it shows again in every one of this many runs of the scenario ALONE …
CONFIRM_SCALE = 3       # … with watchdog and hard limit this many times longer
CONTROL_RERUNS = 8      # scenarios whose control was starved are run again alone (once or twice), at most this many per run

RUNNER = r'''
import asyncio, gc, json, os, signal, sys, time, threading, fcntl, termios, struct
try:        # report the library lines this process (and the children it forks) executes to the check that started it (core.LineCoverage)
    import core as _core
    _lc = _core.linecov_child()
except Exception:
    _lc = None
from pedantic.decorators.fn_deco_in_subprocess import in_subprocess, calculate_in_subprocess
try:
    from multiprocess.connection import Connection
    import multiprocess, multiprocess.util
except ImportError:
    Connection = None

SC = json.loads(sys.argv[1])
Q = SC['q']; WATCHDOG = SC['watchdog']
PARENT = os.getpid()
TICK = 0.01


class CalleeError(Exception):
    pass


class TruncatedStream(EOFError):
    """an application exception that derives from EOFError (a record parser that hits the end of its input)"""


class TruncatedRecord(TruncatedStream, ValueError):
    pass


class PeerGone(BrokenPipeError):
    pass


class WorkerLost(ChildProcessError):
    pass


EXC = {'ValueError': ValueError, 'KeyError': KeyError, 'CalleeError': CalleeError, 'ZeroDivisionError': ZeroDivisionError}
# exception classes the PARENT side of the protocol has a meaning for (an empty pipe is EOFError, a broken one OSError, a dead child is
# reported as ChildProcessError, a missing multiprocess package as ImportError, …) and classes derived from them: raised BY THE CALLEE they
# are the callee's outcome like any other exception — the caller must get that very exception back (same class, same args).  They carry
# their payload as ONE tuple argument (OSError gives two or three arguments a meaning of its own).
EXC1 = {'EOFError': EOFError, 'TruncatedStream': TruncatedStream, 'TruncatedRecord': TruncatedRecord, 'OSError': OSError,
        'BrokenPipeError': BrokenPipeError, 'ConnectionResetError': ConnectionResetError, 'PeerGone': PeerGone,
        'ChildProcessError': ChildProcessError, 'WorkerLost': WorkerLost, 'TimeoutError': TimeoutError, 'ImportError': ImportError,
        'RuntimeError': RuntimeError, 'AssertionError': AssertionError, 'StopAsyncIteration': StopAsyncIteration,
        'LookupError': LookupError, 'Exception': Exception}
EXC.update(EXC1)


def make_exc(name, idx, pid, size):
    if name in EXC1:
        return EXC1[name]((idx, pid, 'p' * size))
    return EXC[name](idx, pid, 'p' * size)


def payload_of(e):
    """(idx, pid, payload) of an exception made by make_exc, else None"""
    a = e.args
    if len(a) == 1 and isinstance(a[0], tuple):
        a = a[0]
    return a if len(a) == 3 and isinstance(a[0], int) and isinstance(a[2], str) else None


def same_exception(e, name):
    """`e` is what the callee raised / returned: an instance of (a faithful copy of) class `name` — same name, same names along the MRO
    (dill re-creates classes defined in __main__ by value) — with the very args"""
    a = payload_of(e)
    if a is None or type(e).__name__ != name or name not in EXC:
        return False
    if [c.__name__ for c in type(e).__mro__] != [c.__name__ for c in EXC[name].__mro__]:
        return False
    return e.args == make_exc(name, a[0], a[1], len(a[2])).args and a[2] == 'p' * len(a[2])


def gen_obj():
    yield 1


def killer():
    """ends this (child) process as soon as it is blocked in the middle of writing a big message"""
    me = os.getpid()
    while True:
        for fd in os.listdir('/proc/self/fd'):
            try:
                if fcntl.fcntl(int(fd), fcntl.F_GETFL) & os.O_ACCMODE != os.O_WRONLY:
                    continue      # only write ends: inherited read ends of other invocations' pipes do not count
                n = struct.unpack('i', fcntl.ioctl(int(fd), termios.FIONREAD, b'\0\0\0\0'))[0]
            except (OSError, ValueError):
                continue
            if n >= 32768:
                os.kill(me, signal.SIGKILL)
        time.sleep(0.005)


def grand(size):
    """runs in a process started by the callee"""
    return b'\xab' * size


def grand_worker(tx, size):
    tx.send(grand(size))
    tx.close()


def via_process(size):
    """a plain worker process of the callee's own"""
    rx, tx = multiprocess.Pipe(duplex=False)
    p = multiprocess.Process(target=grand_worker, args=(tx, size))
    p.start()
    tx.close()
    try:
        return rx.recv()
    finally:
        p.join()
        rx.close()


def linger_thread(seconds):
    time.sleep(seconds)


def finish(spec, idx, tag):
    kind = spec['callee'][0]
    if kind == 'ret':
        return (idx, os.getpid(), tag, b'\xab' * spec['size'])
    if kind == 'linger':
        # the process of the callee stays alive after the function has returned / raised (Python joins non-daemon threads before a
        # process ends); run directly (no process of its own) nothing lingers
        if os.getpid() != PARENT:
            threading.Thread(target=linger_thread, args=(spec['linger'],)).start()
        if spec['callee'][1] == 'exc':
            raise make_exc(spec['exc'], idx, os.getpid(), spec['size'])
        return (idx, os.getpid(), tag, b'\xab' * spec['size'])
    if kind == 'exc':
        raise make_exc(spec['exc'], idx, os.getpid(), spec['size'])
    if kind == 'retexc':
        return make_exc(spec['exc'], idx, os.getpid(), spec['size'])       # an exception instance as the VALUE the function returns
    if kind == 'base':
        if spec['base'] == 'sysexit':
            raise SystemExit(3)
        raise KeyboardInterrupt()
    if kind == 'death':
        if spec['callee'][1] == 'signal':
            os.kill(os.getpid(), signal.SIGKILL)
            time.sleep(30)
        os._exit(3)
    if kind == 'unpicklable':
        return (idx, os.getpid(), tag, gen_obj())
    if kind == 'aftersend':
        multiprocess.util.Finalize(None, os.kill, args=(os.getpid(), signal.SIGKILL), exitpriority=0)
        return (idx, os.getpid(), tag, b'\xab' * spec['size'])
    if kind == 'midsend':
        threading.Thread(target=killer, daemon=True).start()
        return (idx, os.getpid(), tag, b'\xab' * spec['size'])
    raise RuntimeError(kind)


GATES = {}      # invocation index -> multiprocess.Event (created before anything is forked); the callee of that invocation waits for it


def wait_gate(idx):
    """a callee that ends only when the caller says so: `idx` is gated on other invocations, its event is set by the parent as soon as
    all of them have handed over their result (an arbitrary relative duration: this one outlives those, by design)"""
    if idx in GATES and os.getpid() != PARENT:
        GATES[idx].wait(60)


def open_gates(res):
    for i, ev in GATES.items():
        if not ev.is_set() and all(res[j] is not None and res[j]['state'] == 'done' for j in SC['invs'][i]['gate']):
            ev.set()


def make(spec):
    early = spec['callee'] == ['death', 'beforeRun']
    if spec['callee'][0] == 'spawn':
        how = spec['callee'][1]

        async def nested(size):
            if how == 'deco':
                return await in_subprocess(grand)(size)
            return await calculate_in_subprocess(grand, size)
        if spec['async']:
            async def callee(idx, *, tag):
                await asyncio.sleep(spec['dur'] * Q)
                wait_gate(idx)
                payload = via_process(spec['size']) if how == 'process' else await nested(spec['size'])
                return (idx, os.getpid(), tag, payload)
        else:
            def callee(idx, *, tag):
                time.sleep(spec['dur'] * Q)
                wait_gate(idx)
                payload = via_process(spec['size']) if how == 'process' else asyncio.run(nested(spec['size']))
                return (idx, os.getpid(), tag, payload)
        return callee
    if spec['async']:
        async def callee(idx, *, tag):
            if early:
                os._exit(3)
            await asyncio.sleep(spec['dur'] * Q)
            wait_gate(idx)
            return finish(spec, idx, tag)
    else:
        def callee(idx, *, tag):
            if early:
                os._exit(3)
            time.sleep(spec['dur'] * Q)
            wait_gate(idx)
            return finish(spec, idx, tag)
    return callee


SHARED = {}


def target(spec):
    """what an invocation awaits: `in_subprocess(f)` / `calculate_in_subprocess` + f.  spec['share']: the function is decorated ONCE (as a
    module-level `@in_subprocess def work` is) and that one wrapper serves every invocation with the same callee — in every event loop"""
    if not spec.get('share'):
        f = make(spec)
        return in_subprocess(f) if spec['form'] == 'deco' else (lambda *a, **k: calculate_in_subprocess(f, *a, **k))
    key = json.dumps([spec[k] for k in ('callee', 'dur', 'size', 'async', 'form')] + [spec.get(k) for k in ('exc', 'base', 'linger')])
    if key not in SHARED:
        f = make(spec)
        SHARED[key] = in_subprocess(f) if spec['form'] == 'deco' else (lambda *a, **k: calculate_in_subprocess(f, *a, **k))
    return SHARED[key]


def children():
    """direct children of this process, any state, read from /proc without reaping anything"""
    out = []
    for d in os.listdir('/proc'):
        if d.isdigit():
            try:
                with open('/proc/%s/stat' % d) as f:
                    s = f.read()
                rest = s[s.rindex(')') + 2:].split()
                if int(rest[1]) == PARENT:
                    out.append((int(d), rest[0]))
            except (OSError, ValueError):
                pass
    return out


def nfds():
    return len(os.listdir('/proc/self/fd'))


def open_conns():
    if Connection is None:
        return 0
    return sum(1 for o in gc.get_objects() if isinstance(o, Connection) and not o.closed)


def classify(spec, idx, kind, val):
    def ours(e, callee_kind):
        a = payload_of(e)
        if a is None or not isinstance(e, Exception):
            return None
        j = a[0]
        if 0 <= j < len(SC['invs']) and SC['invs'][j].get('exc') == type(e).__name__ and SC['invs'][j]['callee'][-1] in callee_kind \
                and len(a[2]) == SC['invs'][j]['size'] and same_exception(e, type(e).__name__):
            return j, a[1]
        return None
    if kind == 'ret':
        r = val
        if isinstance(r, tuple) and len(r) == 4 and isinstance(r[0], int) and isinstance(r[3], bytes) \
                and r[2] == 't%d' % r[0] and r[3] == b'\xab' * len(r[3]):
            want = SC['invs'][r[0]]['size'] if 0 <= r[0] < len(SC['invs']) else -1
            if len(r[3]) == want:
                return ['ret', r[0]], r[1]
        if isinstance(r, BaseException) and ours(r, ('retexc',)):
            return ['ret', ours(r, ('retexc',))[0]], ours(r, ('retexc',))[1]
        return ['retother'], None
    e = val
    # the callee's own exception first (it may be a ChildProcessError): recognised by its payload, its class name, the names along its MRO
    # (dill re-creates classes defined in __main__ by value, the class object is not preserved: pickling is not modelled) and its args
    if ours(e, ('exc',)):
        return ['exc', ours(e, ('exc',))[0]], ours(e, ('exc',))[1]
    if isinstance(e, ChildProcessError):
        return ['cpe'], None
    return ['other', type(e).__name__], None


def direct_calls():
    """the callees that start processes of their own, run DIRECTLY in this process with the same arguments (before the event loop of the
    scenario exists): what they return here is what the property says the awaited invocation yields"""
    out = {}
    for i, spec in enumerate(SC['invs']):
        if spec['callee'][0] != 'spawn':
            continue
        f = make(spec)
        try:
            r = asyncio.run(f(i, tag='t%d' % i)) if spec['async'] else f(i, tag='t%d' % i)
            kind, val = 'ret', r
        except BaseException as e:
            kind, val = 'exc', e
        o, pid = classify(spec, i, kind, val)
        out[str(i)] = {'out': o, 'pid_is_parent': pid == PARENT}
    return out


ROUNDS = SC.get('rounds') or [SC['tasks']]       # one event loop (asyncio.run) per round, one after the other
N = len(SC['invs'])
res = [None] * N
ticks = [0]
order = []
stall = [0.0]
errors = []
BASE = {}
AT_END = {'conns': 0, 'sel': 0, 'kids': 0}


async def main(rno, chains):
    loop = asyncio.get_running_loop()
    gc.collect()
    if rno == 0:
        BASE.update({'fds': nfds(), 'children': len(children()), 'conns': open_conns()})
    base_sel = len(loop._selector.get_map())
    last = [time.monotonic()]

    async def ticker():
        while True:
            await asyncio.sleep(TICK)
            ticks[0] += 1
            now = time.monotonic()
            stall[0] = max(stall[0], now - last[0])
            last[0] = now

    def excess_children(i):
        """child processes of this process (running or zombie) beyond the ones the other invocations that are pending right now can account
        for (one each, at most) — counted right after invocation i handed over its result, before anything else runs"""
        others = sum(1 for j, r in enumerate(res) if j != i and r is not None and r['state'] == 'pending')
        return max(0, len(children()) - BASE['children'] - others)

    async def chain(ids):
        for i in ids:
            spec = SC['invs'][i]
            call = target(spec)
            t0, k0 = time.monotonic(), ticks[0]
            res[i] = {'state': 'pending'}
            try:
                r = await call(i, tag='t%d' % i)
                kind, val = 'ret', r
            except asyncio.CancelledError:
                raise
            except BaseException as e:
                kind, val = 'exc', e
            left = excess_children(i)
            out, pid = classify(spec, i, kind, val)
            res[i] = {'state': 'done', 'out': out, 'pid': pid, 'wall': time.monotonic() - t0, 'ticks': ticks[0] - k0, 'val': val, 'left': left}
            order.append(i)
            open_gates(res)

    async def blocker(nz):
        """freezes the event loop until nz children have been killed (used to catch a child in the middle of a big send)"""
        t0 = time.monotonic()
        while time.monotonic() - t0 < 3.0:
            if sum(1 for _, st in children() if st == 'Z') >= nz:
                return
            time.sleep(0.005)

    tk = asyncio.ensure_future(ticker())
    tasks = [asyncio.ensure_future(chain(ids)) for ids in chains]
    if SC.get('blocker') and rno == 0:
        tasks.append(asyncio.ensure_future(blocker(SC['blocker'])))
    done, pending = await asyncio.wait(tasks, timeout=WATCHDOG)      # per event loop
    errors.extend(repr(t.exception()) for t in done if t.exception() is not None)
    stall[0] = max(stall[0], time.monotonic() - last[0])
    tk.cancel()
    AT_END['conns'] = max(AT_END['conns'], open_conns() - BASE['conns'])
    AT_END['sel'] = max(AT_END['sel'], len(loop._selector.get_map()) - base_sel)
    AT_END['kids'] = max(AT_END['kids'], len(children()) - BASE['children'])
    hang = bool(pending)
    if not hang and rno + 1 < len(ROUNDS):
        sys.stdout.write(json.dumps({'round_done': rno}) + '\n')      # heartbeat: the observer's hard limit starts anew
        sys.stdout.flush()
        return              # this event loop ends here (asyncio.run closes it); the next round gets a new one
    outs, pids, walls, tks, lefts = [], [], [], [], []
    for r in res:
        if r is None:
            outs.append(['notrun']); pids.append(None); walls.append(0); tks.append(0); lefts.append(0)
        elif r['state'] == 'pending':
            outs.append(['hang']); pids.append(None); walls.append(0); tks.append(0); lefts.append(0)
        else:
            outs.append(r['out']); pids.append(r['pid']); walls.append(round(r['wall'], 3)); tks.append(r['ticks']); lefts.append(r['left'])
    fd_after = None
    if not hang:
        for r in res:
            if r is not None:
                r.pop('val', None)
        del done, pending, tasks, r
        gc.collect()
        fd_after = nfds() - BASE['fds']
    rep = {'out': outs, 'pid_differs': [None if p is None else (p != PARENT) for p in pids], 'wall': walls, 'ticks': tks,
           'order': order, 'hang': hang, 'fd_delta': fd_after, 'children_left': AT_END['kids'],
           'open_conns': AT_END['conns'], 'selector_delta': AT_END['sel'], 'errors': errors,
           'left_after_await': lefts, 'direct': DIRECT, 'stall': round(stall[0], 3), 'rounds_run': rno + 1, 'control': CONTROL}
    sys.stdout.write(json.dumps(rep) + '\n')
    sys.stdout.flush()
    os._exit(0)


async def control(seconds):
    """the same 10 ms ticker next to a plain `asyncio.sleep`: how many ticks per second does THIS process get on THIS machine right now
    (and what is the longest gap) when nothing of the library runs — the yardstick the ticks of the invocations are compared with"""
    n, gap, t0 = 0, 0.0, time.monotonic()
    last = t0

    async def tick():
        nonlocal n, gap, last
        while True:
            await asyncio.sleep(TICK)
            now = time.monotonic()
            n += 1
            gap = max(gap, now - last)
            last = now
    tk = asyncio.ensure_future(tick())
    await asyncio.sleep(seconds)
    tk.cancel()
    el = time.monotonic() - t0
    return {'rate': n / el, 'gap': round(max(gap, time.monotonic() - last), 3), 'seconds': round(el, 3)}


for _i, _spec in enumerate(SC['invs']):
    if _spec.get('gate'):
        GATES[_i] = multiprocess.Event()
CONTROL = asyncio.run(control(SC['control'])) if SC.get('control') else None
DIRECT = direct_calls()
for _rno, _chains in enumerate(ROUNDS):
    asyncio.run(main(_rno, _chains))
'''


# ------------------------------------------------------------------------------------------------ scenarios

def inv(callee, dur=1, size=16, big=None, is_async=False, form='deco', exc='ValueError', base='sysexit', linger=1.5, key=None, gate=None):
    kind = callee[0]
    if kind == 'midsend':
        size = 1 << 20
    if big is None:
        big = size > 60000
    d = {'callee': list(callee), 'dur': dur, 'size': size, 'big': bool(big), 'async': bool(is_async), 'form': form}
    if kind in ('exc', 'retexc') or callee == ['linger', 'exc']:
        d['exc'] = exc
    if kind == 'linger':
        d['linger'] = linger          # seconds the child stays alive after `_inner` has sent
    if kind == 'base':
        d['base'] = base
    if key is not None:
        d['key'] = key                # a name other invocations of the scenario refer to
    if gate:
        d['gate_keys'] = list(gate)   # the callee ends only after the invocations with these keys have handed over their result
    return d


def scenario(tasks, origin='', rounds=None):
    """tasks: list of lists of inv dicts (the chains of awaited invocations that run concurrently) -> case.
    rounds: list of such task lists — one event loop (`asyncio.run`) per round, one after the other in the same interpreter"""
    invs, tl, rl, sizes = [], [], [], []
    for rtasks in (rounds if rounds is not None else [tasks]):
        n0, chains = len(invs), []
        for t in rtasks:
            ids = []
            for k, s in enumerate(t):
                s = dict(s)
                s['pred'] = ids[-1] if ids else None
                ids.append(len(invs))
                invs.append(s)
            tl.append(ids)
            chains.append(ids)
        rl.append(chains)
        sizes.append(len(invs) - n0)
        # gates: by key, within the round.  An invocation others wait for must be able to end on its own: neither it nor anything
        # awaited before it in its chain is gated (otherwise the scenario would deadlock by construction, whatever the library does)
        keys = {s['key']: i for i, s in enumerate(invs) if i >= n0 and 'key' in s}
        for i in range(n0, len(invs)):
            if 'gate_keys' in invs[i]:
                invs[i]['gate'] = sorted(keys[k] for k in invs[i]['gate_keys'])
                for j in invs[i]['gate']:
                    k = j
                    while k is not None:
                        assert 'gate_keys' not in invs[k], 'a gate on a gated invocation'
                        k = invs[k]['pred']
    c = {'invs': [{'callee': s['callee'], 'big': s['big'], 'dur': s['dur'], 'pred': s['pred']} | ({'gate': s['gate']} if s.get('gate') else {})
                  for s in invs]}
    x = {'invs': invs, 'tasks': tl, 'origin': origin}
    if rounds is not None and len(rl) > 1:
        c['rounds'] = sizes
        x['rounds'] = rl
    firsts = [invs[ids[0]] for ids in rl[0] if ids]
    nmid = sum(1 for s in firsts if s['callee'][0] == 'midsend')
    if nmid:
        x['blocker'] = nmid
    return {'m': 'subproc', 'c': c, 'x': x}


def shared(d):
    """the same invocation made through ONE decorated function that serves all invocations of its kind (module-level `@in_subprocess def`)"""
    return dict(d, share=True)


CPUS = os.cpu_count() or 1


def wide(n, kinds=None, form='deco', is_async=False, dur=1, share=True):
    """n concurrent cheap invocations (one task each); kinds: callee kinds taken in turn"""
    kinds = kinds or [['ret']]
    out = []
    for i in range(n):
        d = inv(kinds[i % len(kinds)], dur=dur if isinstance(dur, int) else dur[i % len(dur)], size=16, is_async=is_async, form=form)
        out.append([shared(d) if share else d])
    return out


DEATHS = [['death', 'beforeRun'], ['death', 'osExit'], ['death', 'signal'], ['base'], ['unpicklable']]
SPAWNS = [['spawn', 'deco'], ['spawn', 'func'], ['spawn', 'process']]
LINGER_Q, LINGER_T = 1.5, 3.0      # seconds a lingering child outlives its send (quick / additionally in thorough)
EXCS = ['ValueError', 'KeyError', 'CalleeError', 'ZeroDivisionError']
# classes the parent side of the protocol handles / raises itself, and classes derived from them (see the runner)
EXCS_PROTOCOL = ['EOFError', 'TruncatedStream', 'TruncatedRecord', 'OSError', 'BrokenPipeError', 'ConnectionResetError', 'PeerGone',
                 'ChildProcessError', 'WorkerLost', 'TimeoutError', 'ImportError', 'RuntimeError', 'AssertionError', 'StopAsyncIteration',
                 'LookupError', 'Exception']
SIZES = [1, 4096, 60000, 65537, 1 << 20]


def rand_inv(rng, allow_death=True, maxdur=4):
    r = rng.random()
    common = dict(dur=rng.randint(0, maxdur), is_async=rng.random() < 0.35, form=rng.choice(['deco', 'func']))
    if r < 0.4 or not allow_death and r < 0.7:
        return inv(['ret'], size=rng.choice(SIZES + [16, 16]), **common)
    if r < 0.6 or not allow_death:
        return inv(['exc'], exc=rng.choice(EXCS + EXCS_PROTOCOL), size=rng.choice([1, 16, 70000]), **common)
    if r < 0.86:
        c = rng.choice(DEATHS)
        return inv(c, base=rng.choice(['sysexit', 'kbd']), **common)
    if r < 0.93:
        return inv(rng.choice(SPAWNS), size=rng.choice([16, 4096, 70000]), **common)
    return inv(['aftersend'], size=rng.choice([16, 4096]), **common)


def cases(rng, tier):
    out = []
    thorough = tier == 'thorough'
    # (a) single invocations: every callee kind
    for k, size in enumerate(SIZES):
        out.append(scenario([[inv(['ret'], dur=1, size=size, is_async=(k % 2 == 1), form=('deco', 'func')[k % 2])]], 'single-ret'))
    out.append(scenario([[inv(['ret'], dur=0, size=16)]], 'single-ret-instant'))
    for k, e in enumerate(EXCS[:2] if not thorough else EXCS):
        out.append(scenario([[inv(['exc'], exc=e, is_async=(k % 2 == 0), size=(16, 70000)[k % 2])]], 'single-exc'))
    # (a0) LONG callees (0.5-0.7 s): the invocations the ticker criterion of "while it is pending the event loop keeps running other tasks" is
    #      judged on — every way an invocation can end, sync / async callee, both forms, alone, concurrently, one after the other
    for k, (is_async, form) in enumerate(combos := list(itertools.product([False, True], ['deco', 'func']))):
        out.append(scenario([[inv(['ret'], dur=LONG_DUR + k % 2, is_async=is_async, form=form, size=(16, 70000)[k % 2])]], 'long-single'))
    long_kinds = [['exc'], ['death', 'osExit'], ['death', 'signal'], ['base'], ['unpicklable'], ['aftersend'], ['spawn', 'func']]
    for k, c in enumerate(long_kinds if thorough else long_kinds[:3]):
        out.append(scenario([[inv(c, dur=LONG_DUR, is_async=(k % 2 == 0), form=('deco', 'func')[k % 2])]], 'long-single'))
    out.append(scenario([[inv(['ret'], dur=LONG_DUR)], [inv(['exc'], dur=LONG_DUR + 2, is_async=True, form='func')], [inv(['death', 'osExit'], dur=LONG_DUR + 1)]], 'long-concurrent'))
    out.append(scenario([[inv(['ret'], dur=LONG_DUR, form='func'), inv(['ret'], dur=LONG_DUR, is_async=True)]], 'long-sequence'))
    if thorough:
        for k in range(12):
            out.append(scenario([[rand_inv(rng) | {'dur': LONG_DUR + rng.randint(0, 2)} for _ in range(rng.randint(1, 2))] for _ in range(rng.randint(1, 4))], 'long-random'))
    # (a1) the callee raises an exception of a class the PARENT side of the protocol has a meaning for (EOFError: empty pipe; OSError family:
    #      broken pipe; ChildProcessError: what the library reports for a dead child; ImportError, …) or of a class derived from one: it is the
    #      callee's outcome and must come back as that very exception (class, MRO, args) — sync and async callee, @in_subprocess and
    #      calculate_in_subprocess; and a callee that RETURNS such an exception instance gets it back as a value
    for k, e in enumerate(EXCS_PROTOCOL):
        for is_async, form in (combos if thorough or k < 3 else [combos[k % 4], combos[(k + 3) % 4]]):
            out.append(scenario([[inv(['exc'], exc=e, dur=0, is_async=is_async, form=form, size=(16, 70000)[(k + is_async) % 2])]], 'single-exc-protocol-class'))
    for k, e in enumerate(EXCS_PROTOCOL if thorough else EXCS_PROTOCOL[:4] + ['ChildProcessError', 'Exception']):
        out.append(scenario([[inv(['retexc'], exc=e, dur=0, is_async=(k % 2 == 1), form=('deco', 'func')[k % 2])]], 'single-returns-exception-instance'))
    out.append(scenario([[inv(['exc'], exc='EOFError', dur=1)], [inv(['death', 'osExit'], dur=1)], [inv(['exc'], exc='ChildProcessError', dur=1, is_async=True)],
                         [inv(['retexc'], exc='TruncatedStream', dur=2, form='func')], [inv(['exc'], exc='PeerGone', dur=0, form='func')]], 'concurrent-exc-protocol-class'))
    out.append(scenario([[inv(['exc'], exc='TruncatedRecord', dur=0), inv(['unpicklable'], dur=0), inv(['exc'], exc='EOFError', dur=0, is_async=True, form='func')]],
                        'sequence-exc-protocol-class'))
    for k, c in enumerate(DEATHS):
        out.append(scenario([[inv(c, base='sysexit', is_async=(k % 2 == 1))]], 'single-death'))
    out.append(scenario([[inv(['base'], base='kbd')]], 'single-death'))
    out.append(scenario([[inv(['aftersend'])]], 'single-aftersend'))
    out.append(scenario([[inv(['midsend'], dur=0)]], 'single-midsend'))
    # (a2) a callee that starts a process of its own: nested @in_subprocess / calculate_in_subprocess (async callee awaits it, sync callee
    #      runs it with asyncio.run) and a plain Process; the runner also calls the callee directly and compares
    for k, c in enumerate(SPAWNS):
        for is_async in (True, False):
            out.append(scenario([[inv(c, dur=1, size=(16, 70000)[(k + is_async) % 2], is_async=is_async, form=('deco', 'func')[(k + is_async) % 2])]],
                                'single-spawn'))
    out.append(scenario([[inv(['spawn', 'deco'], dur=1, is_async=True), inv(['ret'], dur=1)], [inv(['spawn', 'process'], dur=2), inv(['spawn', 'func'], dur=1, is_async=True)]],
                        'spawn+sequence+concurrent'))
    # (a3) a child that lingers after it has reported its result (non-daemon thread): when the await returns the child must be gone and reaped
    out.append(scenario([[inv(['linger', 'ret'], dur=1, linger=LINGER_Q)]], 'single-linger'))
    out.append(scenario([[inv(['linger', 'exc'], dur=0, linger=LINGER_Q, is_async=True, form='func'), inv(['ret'], dur=1)]], 'linger+sequence'))
    out.append(scenario([[inv(['linger', 'ret'], dur=1, linger=LINGER_Q, is_async=True)], [inv(['ret'], dur=2)], [inv(['linger', 'ret'], dur=1, linger=LINGER_Q, form='func')]],
                        'linger+concurrent'))
    if thorough:
        for k, (how, is_async, form) in enumerate(itertools.product(['ret', 'exc'], [False, True], ['deco', 'func'])):
            out.append(scenario([[inv(['linger', how], dur=k % 2, linger=(LINGER_T, LINGER_Q)[k % 2], is_async=is_async, form=form, size=(16, 70000)[k % 2])]],
                                'single-linger'))
        out.append(scenario([[inv(['linger', 'ret'], dur=0, linger=LINGER_T), inv(['linger', 'exc'], dur=0, linger=LINGER_Q / 3), inv(['ret'], dur=1)]], 'linger+sequence'))
        out.append(scenario([[inv(['linger', 'ret'], dur=1, linger=LINGER_T)], [inv(['death', 'osExit'], dur=1), inv(['ret'], dur=1)]], 'linger+concurrent'))
        for c in SPAWNS:
            out.append(scenario([[inv(c, dur=1, is_async=True)], [inv(c, dur=2)], [inv(['death', 'signal'], dur=1), inv(c, dur=1, is_async=(c[1] != 'process'))]],
                                'spawn+concurrent'))
    # (b) concurrent, every completion order of 2 and 3 (thorough: 4) invocations, mixed kinds
    kinds3 = [['ret'], ['exc'], ['death', 'osExit']]
    for durs in itertools.permutations([1, 2, 3]):
        rot = rng.randrange(3)
        ks = kinds3[rot:] + kinds3[:rot]
        out.append(scenario([[inv(k, dur=d, is_async=rng.random() < 0.3, form=rng.choice(['deco', 'func']))] for k, d in zip(ks, durs)],
                            'concurrent-3'))
    for durs in ((1, 3), (3, 1), (2, 2)):
        out.append(scenario([[inv(['ret'], dur=durs[0], size=rng.choice(SIZES))], [inv(rng.choice(DEATHS), dur=durs[1])]], 'concurrent-2'))
    if thorough:
        for durs in itertools.permutations([1, 2, 3, 4]):
            out.append(scenario([[rand_inv(rng) | {'dur': d}] for d in durs], 'concurrent-4'))
    # (c) sequences: fd numbers of a finished invocation are re-used by the next one
    out.append(scenario([[inv(['ret'], dur=1), inv(['ret'], dur=1), inv(['ret'], dur=1)]], 'sequence'))
    out.append(scenario([[inv(['death', 'osExit'], dur=1), inv(['ret'], dur=1), inv(['exc'], dur=1)]], 'sequence'))
    out.append(scenario([[inv(['exc'], dur=0), inv(['death', 'signal'], dur=1), inv(['ret'], dur=1, size=1 << 20)]], 'sequence'))
    out.append(scenario([[inv(['ret'], dur=1), inv(['ret'], dur=2)], [inv(['ret'], dur=2), inv(['base'], dur=1, base='kbd')]], 'sequence+concurrent'))
    out.append(scenario([[inv(['midsend'], dur=0), inv(['ret'], dur=1)], [inv(['midsend'], dur=0)]], 'midsend+sequence'))
    # (d) wide: many concurrent invocations, all the same instant / staggered
    out.append(scenario([[inv(['ret'], dur=1, size=1 << 20)] for _ in range(4)], 'wide-big'))
    out.append(scenario([[inv(c, dur=1)] for c in DEATHS] + [[inv(['ret'], dur=1)]], 'wide-deaths'))
    # (f) MORE concurrent invocations than the machine has cores (any limit on the number of simultaneously running children has to
    #     make the surplus wait, not fail), and SEVERAL EVENT LOOPS one after the other in the same interpreter (`asyncio.run` per round:
    #     two requests of a sync web worker, two test cases): every invocation of every round must get its own result.  The wide
    #     scenarios go through ONE decorated function per callee kind (a module-level `@in_subprocess def`), as user code does.
    big_n = 2 * CPUS + 3
    out.append(scenario(None, 'wide-rounds', rounds=[wide(CPUS + 1), wide(CPUS + 1), wide(CPUS + 1)]))
    out.append(scenario(None, 'wide-rounds', rounds=[wide(big_n, is_async=True, dur=[1, 0, 2]), wide(big_n, is_async=True, dur=[0, 1])]))
    out.append(scenario(None, 'wide-rounds-mixed', rounds=[wide(CPUS + 2, kinds=[['ret'], ['exc'], ['death', 'osExit']], form='func', share=False, dur=[0, 1, 2]),
                                                          wide(CPUS + 2, kinds=[['exc'], ['ret'], ['base'], ['ret']], form='func', share=False, dur=[1, 0])]))
    out.append(scenario(wide(big_n, kinds=[['ret'], ['ret'], ['exc']], dur=[1, 2]), 'wide'))
    out.append(scenario(None, 'rounds', rounds=[[[inv(['ret'], dur=1), inv(['ret'], dur=0)], [inv(['exc'], dur=1, is_async=True)]],
                                                [[inv(['death', 'signal'], dur=0), inv(['ret'], dur=1, form='func')]],
                                                [[inv(['ret'], dur=1, size=1 << 20)], [shared(inv(['ret'], dur=0))], [inv(['base'], dur=1)]],
                                                [[shared(inv(['ret'], dur=0))]]]))
    out.append(scenario(None, 'rounds', rounds=[[[shared(inv(['ret'], dur=1, form=f))]] for f in ('deco', 'func', 'deco')]))
    if thorough:
        out.append(scenario(None, 'wide-rounds', rounds=[wide(big_n, form='func')] * 3))
        out.append(scenario(None, 'wide-rounds', rounds=[wide(CPUS + 1, form='func', share=False, dur=[0, 1])] * 4))
        out.append(scenario(None, 'wide-rounds', rounds=[wide(3), wide(CPUS + 1), wide(2), wide(CPUS + 4, kinds=[['ret'], ['death', 'beforeRun']])]))
        out.append(scenario(None, 'wide-rounds-spawn', rounds=[wide(CPUS + 1, kinds=[['spawn', 'func'], ['spawn', 'deco']], is_async=True)] * 2))
        out.append(scenario(wide(CPUS + 1, kinds=[['spawn', 'process'], ['ret']]), 'wide-spawn'))
        out.append(scenario(wide(4 * CPUS + 1, dur=[0, 1, 2, 3]), 'wide'))
        for k in range(40):
            nr = rng.randint(2, 4)
            out.append(scenario(None, 'random-rounds', rounds=[
                [[rand_inv(rng, maxdur=2) | ({'share': True} if rng.random() < 0.5 else {}) for _ in range(1 if rng.random() < 0.7 else 2)]
                 for _ in range(rng.choice([1, 2, 3, CPUS + 1] if k % 8 == 0 else [1, 2, 3]))] for _ in range(nr)]))
    # (g) callees that end only when the caller says so (the callee waits for a multiprocess.Event that the parent sets as soon as another
    #     invocation has handed over its result): "arbitrary relative durations" with the order fixed BY DESIGN, no timing involved.
    #     g1: an invocation whose child dies without a result, started in the same loop iteration as siblings that outlive it — it must end
    #         (ChildProcessError) while they are still running (nothing of invocation A may be kept open by the children of the others);
    #     g2: more pending invocations than any default thread pool has workers (min(32, cpu_count + 4) <= 32) and one short invocation
    #         started after them, which the long ones wait for — an invocation must not need a slot of anything to get its result.
    for k, c in enumerate(DEATHS):
        sib = [[inv((['ret'], ['exc'])[j % 2], dur=0, gate=['A'], is_async=(j % 3 == 2), form=('deco', 'func')[(j + k) % 2])] for j in range(6)]
        pos = (0, 3, 6)[k % 3]
        out.append(scenario(sib[:pos] + [[inv(c, dur=0, key='A', base=('sysexit', 'kbd')[k % 2], form=('deco', 'func')[k % 2])]] + sib[pos:], 'gated-death'))
    out.append(scenario([[inv(['death', 'osExit'], dur=0, key='A')], [inv(['death', 'signal'], dur=1, key='B')]]
                        + [[shared(inv(['ret'], dur=0, gate=['A', 'B']))] for _ in range(5)], 'gated-death'))
    out.append(scenario([[inv(['ret'], dur=0, key='A'), inv(['death', 'osExit'], dur=0, key='B')]]
                        + [[inv(['ret'], dur=0, gate=['B'])] for _ in range(4)] + [[inv(['ret'], dur=1)]], 'gated-death+sequence'))
    n_long = max(36, CPUS + 8)
    out.append(scenario([[shared(inv(['ret'], dur=0, gate=['S']))] for _ in range(n_long)] + [[inv(['ret'], dur=0, key='S', form='func')]], 'wide-gated'))
    out.append(scenario([[inv(['ret'], dur=0, gate=['S'], form='func', is_async=(j % 2 == 1))] for j in range(n_long)]
                        + [[inv(['ret'], dur=1), inv(['exc'], dur=0, key='S')]], 'wide-gated'))
    if thorough:
        out.append(scenario(None, 'wide-gated-rounds', rounds=[[[shared(inv(['ret'], dur=0, gate=['S']))] for _ in range(n_long)] + [[inv(['death', 'osExit'], dur=0, key='S')]]] * 2))
        for c in DEATHS:
            for n_sib in (1, 2, 12):
                for pos in sorted({0, n_sib // 2, n_sib}):
                    sib = [[inv(['ret'], dur=rng.randint(0, 1), gate=['A'], is_async=rng.random() < 0.3, form=rng.choice(['deco', 'func']))] for _ in range(n_sib)]
                    out.append(scenario(sib[:pos] + [[inv(c, dur=rng.randint(0, 1), key='A', is_async=rng.random() < 0.3)]] + sib[pos:], 'gated-death'))
    for k in range(40 if thorough else 3):
        first = rand_inv(rng, maxdur=1) | {'key': 'A'}
        others = [[rand_inv(rng, maxdur=1) | ({'gate_keys': ['A']} if rng.random() < 0.7 else {})] for _ in range(rng.randint(1, 5))]
        pos = rng.randint(0, len(others))
        out.append(scenario(others[:pos] + [[first]] + others[pos:], 'random-gated'))
    nmax = 8 if thorough else 6
    for k in range(0 if thorough else 4):
        out.append(scenario(None, 'random-rounds', rounds=[
            [[rand_inv(rng, maxdur=2) | ({'share': True} if rng.random() < 0.5 else {}) for _ in range(1 if rng.random() < 0.7 else 2)]
             for _ in range(rng.randint(1, 3))] for _ in range(rng.randint(2, 3))]))
    # (e) seeded mixes
    for k in range(420 if thorough else 17):
        nt = rng.randint(1, nmax)
        budget = nmax
        tasks = []
        for _ in range(nt):
            ln = 1 if rng.random() < 0.6 else rng.randint(2, 3)
            ln = max(1, min(ln, budget - (nt - len(tasks) - 1)))
            budget -= ln
            tasks.append([rand_inv(rng, maxdur=3 if ln > 1 else 4) for _ in range(ln)])
        out.append(scenario(tasks, 'random'))
    if thorough:
        # every death kind at every position of 3 concurrent + 1 sequential follower
        for c in DEATHS + [['aftersend']]:
            for pos in range(3):
                tasks = [[inv(['ret'], dur=2 - (i % 2))] for i in range(3)]
                tasks[pos] = [inv(c, dur=1 + pos % 2, base=('sysexit', 'kbd')[pos % 2]), inv(['ret'], dur=1)]
                out.append(scenario(tasks, 'death-position'))
        for n in (7, 8):
            out.append(scenario([[rand_inv(rng)] for _ in range(n)], 'wide-random'))
    return out


def search(rng, tier, near):
    """the property is no longer shown to hold (proof or correspondence broken): look for a concrete failing input among
    the scenarios that exercise every protocol statement — child deaths, raising callees, re-used fd numbers"""
    out = []
    for c in DEATHS:
        out.append(scenario([[inv(c, dur=1)]], 'search'))
    out.append(scenario([[inv(['exc'], dur=1)]], 'search'))
    for is_async, form in itertools.product([False, True], ['deco', 'func']):
        out.append(scenario([[inv(['ret'], dur=LONG_DUR + 1, is_async=is_async, form=form)]], 'search'))
        out.append(scenario([[inv(['exc'], dur=LONG_DUR, is_async=is_async, form=form)], [inv(['ret'], dur=LONG_DUR + 2)]], 'search'))
    for e in EXCS_PROTOCOL:
        for is_async, form in itertools.product([False, True], ['deco', 'func']):
            out.append(scenario([[inv(['exc'], exc=e, dur=0, is_async=is_async, form=form)]], 'search'))
        out.append(scenario([[inv(['retexc'], exc=e, dur=0)]], 'search'))
    out.append(scenario([[inv(['ret'], dur=1), inv(['ret'], dur=1)]], 'search'))
    out.append(scenario([[inv(['ret'], dur=2, size=1 << 20)]], 'search'))
    for c in SPAWNS:
        out.append(scenario([[inv(c, dur=1, is_async=True)]], 'search'))
        out.append(scenario([[inv(c, dur=1)]], 'search'))
    out.append(scenario([[inv(['linger', 'ret'], dur=0, linger=LINGER_T)]], 'search'))
    out.append(scenario([[inv(['linger', 'exc'], dur=0, linger=LINGER_Q, is_async=True)]], 'search'))
    # state kept between invocations / between event loops: many at once, loop after loop, through one decorated function and through
    # calculate_in_subprocess
    for n in (2, CPUS + 1, 2 * CPUS + 3, 4 * CPUS + 1):
        for form in ('deco', 'func'):
            out.append(scenario(None, 'search', rounds=[wide(n, form=form)] * 3))
    out.append(scenario(None, 'search', rounds=[[[shared(inv(['ret'], dur=0))]]] * 6))
    # something of one invocation held by another / a bounded resource per pending invocation: gated callees (see cases (g))
    for c in DEATHS:
        for n_sib, pos in ((1, 0), (1, 1), (6, 0), (6, 3), (6, 6), (20, 10)):
            sib = [[inv(['ret'], dur=0, gate=['A'])] for _ in range(n_sib)]
            out.append(scenario(sib[:pos] + [[inv(c, dur=0, key='A')]] + sib[pos:], 'search'))
    for n in (8, 16, 33, 40, max(36, CPUS + 8), 2 * CPUS + 9):
        out.append(scenario([[shared(inv(['ret'], dur=0, gate=['S']))] for _ in range(n)] + [[inv(['ret'], dur=0, key='S')]], 'search'))
    for _ in range(12):
        out.append(scenario([[rand_inv(rng) for _ in range(rng.randint(1, 3))] for _ in range(rng.randint(1, 3))], 'search'))
    return out


# ------------------------------------------------------------------------------------------------ implementation side

def ticker_judged(x):
    """the invocations the non-blocking clause is judged on with the ticker: the callee deliberately takes >= LONG_DUR quanta (the loop has
    that long to run other tasks), the event loop is not crowded, no child lingers (those scenarios are judged on the measured stall), the
    loop is not frozen on purpose by the observer (blocker)"""
    if x.get('blocker') or any('linger' in v for v in x['invs']):
        return []
    crowded = {i for rd in (x.get('rounds') or [x['tasks']]) if len(rd) > TICKER_MAX_CHAINS for ids in rd for i in ids}
    return [i for i, v in enumerate(x['invs']) if v['dur'] >= LONG_DUR and i not in crowded and v['callee'] != ['death', 'beforeRun']]


def run_one(runner, case, env, scale=1):
    x = case['x']
    watchdog = WATCHDOG * scale
    hard = watchdog + (HARD - WATCHDOG)
    sc = {'invs': x['invs'], 'tasks': x['tasks'], 'rounds': x.get('rounds'), 'blocker': x.get('blocker', 0), 'q': Q, 'watchdog': watchdog,
          'control': CONTROL_S if (ticker_judged(x) or any('linger' in v for v in x['invs'])) else 0}
    t0 = time.time()
    dbg = os.environ.get('C17_DEBUG')
    p = subprocess.Popen([sys.executable, '-B', runner, json.dumps(sc)], stdout=subprocess.PIPE,
                         stderr=(None if dbg else subprocess.DEVNULL), stdin=subprocess.DEVNULL, env=env, start_new_session=True)
    out, timed_out = b'', False
    try:
        # the hard limit is per event loop: the runner writes a line when a round has ended, the last line is its report
        deadline = time.time() + hard
        while True:
            ready, _, _ = select.select([p.stdout], [], [], max(0.0, min(0.2, deadline - time.time())))
            if ready:
                chunk = os.read(p.stdout.fileno(), 1 << 16)
                if not chunk:
                    break
                out += chunk
                if b'\n' in chunk:
                    deadline = time.time() + hard
            elif p.poll() is not None:
                # the runner has ended (children of hung invocations may still hold the pipe open): read what it wrote and stop
                while select.select([p.stdout], [], [], 0)[0]:
                    chunk = os.read(p.stdout.fileno(), 1 << 16)
                    if not chunk:
                        break
                    out += chunk
                break
            elif time.time() >= deadline:
                timed_out = True
                out = b''
                break
    finally:
        try:
            os.killpg(p.pid, signal.SIGKILL)      # the scenario's process group: stragglers of a hung invocation
        except (ProcessLookupError, PermissionError):
            pass
        try:
            p.communicate(timeout=5)
        except Exception:
            pass
    n = len(x['invs'])
    line = out.decode('utf-8', 'replace').strip().splitlines()[-1:] if out else []
    if timed_out or not line:
        if not timed_out and p.returncode not in (0, None) and p.returncode > 0:
            # the runner itself failed (import error of the library, …): report, do not call it a hang
            return {'out': [['runner-error', p.returncode]] * n, 'hang': False, 'frozen': False, 'terminates': False,
                    'released': None, 'pid_differs': [None] * n, 'ticker_ok': None, 'wall_s': round(time.time() - t0, 2)}
        # nothing came back within the hard limit: the event loop itself was frozen (synchronous block) — everything hangs
        return {'out': [['hang']] * n, 'hang': True, 'frozen': True, 'terminates': False, 'released': None,
                'pid_differs': [None] * n, 'ticker_ok': None, 'watchdog_s': watchdog, 'hard_s': hard, 'wall_s': round(time.time() - t0, 2)}
    r = json.loads(line[0])
    outs = [['hang'] if o[0] in ('hang', 'notrun') else o for o in r['out']]
    tick_bad = []
    lingers = [s['linger'] for s in x['invs'] if 'linger' in s]
    # the ticker: ticks an invocation saw while it was pending, against what the CONTROL ticker of the same process got per second right
    # before the scenario (a plain asyncio.sleep, nothing of the library running) over the time the callee deliberately takes.  A control
    # that is itself starved says the machine is too busy: no verdict (ticker_ok None), the scenario is run again alone.
    judged = ticker_judged(x)
    ctl = r.get('control')
    ticker_ok, control_starved = None, False
    if judged:
        if not ctl or ctl['rate'] < CONTROL_MIN_RATE:
            control_starved = True
        else:
            for i in judged:
                if r['out'][i][0] in ('hang', 'notrun'):
                    continue
                want = ctl['rate'] * x['invs'][i]['dur'] * Q
                if r['ticks'][i] < TICKER_FRACTION * want:
                    tick_bad.append([i, r['wall'][i], r['ticks'][i], round(want, 1)])
            ticker_ok = not tick_bad
    released = None
    if not r['hang']:
        released = (r['fd_delta'] == 0 and r['children_left'] == 0 and r['open_conns'] == 0 and r['selector_delta'] == 0)
    return {'out': [o[:2] if o[0] != 'other' else ['other'] for o in outs], 'classes': [o[1] if o[0] == 'other' else None for o in outs],
            'hang': r['hang'], 'frozen': False, 'terminates': not r['hang'], 'released': released,
            'resources': {'fd_delta': r['fd_delta'], 'children_left': r['children_left'], 'open_conns': r['open_conns'],
                          'selector_delta': r['selector_delta']},
            'pid_differs': r['pid_differs'], 'ticker_ok': ticker_ok, 'ticker_bad': tick_bad, 'ticker_judged': judged, 'control': ctl,
            'control_starved': control_starved, 'watchdog_s': watchdog, 'order': r['order'],
            'left_after_await': r.get('left_after_await', [0] * n),
            'direct': {k: (v['out'][:2] if v['out'][0] != 'other' else ['other', v['out'][1]]) for k, v in (r.get('direct') or {}).items()},
            'stall_s': r.get('stall', 0) if lingers else None,
            'errors': r['errors'], 'wall_s': round(time.time() - t0, 2)}


def run_impl(cases):
    d = tempfile.mkdtemp(prefix='c17_')
    try:
        runner = os.path.join(d, 'c17_scenario.py')
        with open(runner, 'w') as f:
            f.write(RUNNER)
        env = dict(os.environ)
        env['PYTHONDONTWRITEBYTECODE'] = '1'
        with ThreadPoolExecutor(max_workers=WORKERS) as ex:
            res = list(ex.map(lambda c: run_one(runner, c, env), cases))
        # ---- nothing timing-dependent counts on the strength of one run made while a dozen scenarios (some with dozens of children) and
        # whatever else the machine is doing compete for the cores.  The watchdog (HANG), the ticker and the measured stall depend on the
        # load; so every SUSPECTED failure — a property failure that is not a recorded finding, or a disagreement with the model — is
        # re-run ALONE up to CONFIRM_RUNS times with watchdog and hard limit CONFIRM_SCALE times longer and counts only if it shows again
        # every time (a deterministic defect does; scheduling noise does not).  The first confirmed suspect establishes the violation:
        # the remaining ones keep their first-run result.  A scenario whose control ticker was starved has no ticker verdict: it is run
        # again alone as well.  All of it is recorded in the result (confirm_runs, first_run) and counted in the evidence.
        import core
        model = core.run_driver(cases)

        def suspect(c, r, m):
            j = judge(c, r, m)
            return bool((j['pfail'] and not j['finding']) or not j['corr'])
        def confirm(k):
            """re-run scenario k alone until the suspicion does not show (-> False, the passing run is kept) or it has shown CONFIRM_RUNS times"""
            first = res[k]
            # (a scenario that is the only one of this call — a replay — ran alone the first time already: that run counts as one)
            for attempt in range(2 if len(cases) == 1 else 1, CONFIRM_RUNS + 1):
                r2 = run_one(runner, cases[k], env, scale=CONFIRM_SCALE)
                r2['confirm_runs'] = attempt
                r2['first_run'] = first.get('first_run') or {f: first.get(f) for f in ('out', 'hang', 'frozen', 'ticker_bad', 'stall_s', 'resources', 'control', 'wall_s')}
                for f in ('control_reruns',):
                    if f in first:
                        r2[f] = first[f]
                res[k] = r2
                if not suspect(cases[k], r2, model[k]):
                    r2['suspicion_not_reproduced'] = True
                    return False
            return True
        confirmed = False
        for k in sorted((k for k in range(len(cases)) if suspect(cases[k], res[k], model[k])), key=lambda k: len(json.dumps(cases[k]['c']))):
            if confirmed:
                break
            confirmed = confirm(k)
        for k in [k for k in range(len(cases)) if res[k].get('control_starved') and not res[k].get('confirm_runs')][:CONTROL_RERUNS]:
            if confirmed:
                break
            for attempt in (1, 2):
                r2 = run_one(runner, cases[k], env, scale=CONFIRM_SCALE)
                r2['control_reruns'] = attempt
                if not r2.get('control_starved'):
                    break
            res[k] = r2
            if suspect(cases[k], r2, model[k]):
                confirmed = confirm(k)
        return res
    finally:
        shutil.rmtree(d, ignore_errors=True)


# ------------------------------------------------------------------------------------------------ verdict

def judge(case, impl, model):
    m, s = model['model'], model['spec']
    x = case['x']
    n = len(x['invs'])
    why = []
    if impl['out'] != m['out']:
        why.append(f"outcomes {impl['out']} vs model {m['out']}")
    if impl['terminates'] != m['terminates']:
        why.append(f"terminates {impl['terminates']} vs model {m['terminates']}")
    if impl['terminates'] and m['terminates'] and impl['released'] != m['released']:
        why.append(f"released {impl['released']} {impl.get('resources')} vs model {m['released']}")
    lingers = [k['linger'] for k in x['invs'] if 'linger' in k]
    stalled = None
    if lingers and impl.get('stall_s') is not None and not impl.get('hang'):
        # the longest time the event loop ran no other task; a stall = at least half the shortest linger time
        stalled = impl['stall_s'] >= 0.5 * min(lingers)
        expected = bool(m.get('loopFrozenWhileLingering'))
        if stalled != expected:
            why.append(f"event loop stalled {impl['stall_s']} s (stall: {stalled}) vs model: frozen inside join behind invocation(s) {m.get('stall')}: {expected}")
    corr = not why
    pfail = None
    finding = None
    if any(o[0] == 'runner-error' for o in impl['out']):
        pfail = f"the scenario process could not run the library at all (exit code {impl['out'][0][1]})"
    # an invocation that others are gated on is looked at first: when it hangs, theirs hanging too is a consequence
    for i in sorted(range(n), key=lambda i: bool(x['invs'][i].get('gate'))):
        if pfail:
            break
        o = impl['out'][i]
        kind = x['invs'][i]['callee'] + ([x['invs'][i]['exc']] if 'exc' in x['invs'][i] else [])
        if o == ['hang'] and s['terminates']:
            waiting = [j for j in range(n) if i in (x['invs'][j].get('gate') or [])]
            pfail = (f"HANG: invocation {i} (callee {kind}) was still pending {impl.get('watchdog_s', WATCHDOG)} s after the start"
                     + (' — the whole event loop was frozen' if impl.get('frozen') else '')
                     + (f"; the callees of invocations {waiting} end only after it has handed over its result (they wait for an event the caller "
                        f"sets then): it has to end while they are still running" if waiting else '')
                     + (f"; its callee ends only after invocations {x['invs'][i]['gate']} have ended" if x['invs'][i].get('gate') else ''))
        elif kind[0] == 'spawn' and str(i) in impl.get('direct', {}) and impl['direct'][str(i)][:1] == ['ret'] \
                and (o != impl['direct'][str(i)] or o not in s['allowed'][i]):
            cls = (impl.get('classes') or [None] * n)[i]
            pfail = (f"invocation {i} (callee {kind}, starts a process of its own): called directly with the same arguments it returns "
                     f"{impl['direct'][str(i)]}, awaited through in_subprocess the caller got {o + ([cls] if cls else [])}")
        elif o not in s['allowed'][i]:
            pfail = f"invocation {i} (callee {kind}) handed its caller {o}, the property allows {s['allowed'][i]}"
        elif impl['pid_differs'][i] is False:
            pfail = f"invocation {i} ran in the parent process"
    if not pfail and impl['ticker_ok'] is False and not stalled:
        pfail = (f"the event loop did not run other tasks while an invocation was pending: [invocation, wall s, ticks of a 10 ms ticker, ticks the "
                 f"control ticker got in the callee's {LONG_DUR * Q}+ s] {impl['ticker_bad']} (control: {impl.get('control')})")
    if not pfail and s['released'] and any(impl.get('left_after_await') or []):
        i = next(i for i, k in enumerate(impl['left_after_await']) if k)
        pfail = (f"invocation {i} (callee {x['invs'][i]['callee']}" + (f", child lingers {x['invs'][i]['linger']} s after its send" if 'linger' in x['invs'][i] else '')
                 + f") handed over its result while {impl['left_after_await'][i]} child process(es) it is responsible for were still there (running or un-reaped)")
    if not pfail and impl['released'] is False and s['released']:
        pfail = f"resources left behind after all invocations returned: {impl['resources']}"
    if not pfail and stalled:
        # every other clause holds for this scenario; the non-blocking clause does not
        who = [i for i in range(n) if 'linger' in x['invs'][i]]
        pfail = (f"the event loop ran no other task for {impl['stall_s']} s while invocation(s) {who} were pending (child lingers {lingers} s after its send): "
                 f"the coroutine sits in the synchronous process.join() until the child has exited"
                 + (f"; starved [invocation, wall s, ticks] {impl['ticker_bad']}" if impl.get('ticker_bad') else ''))
        # the recorded region: implementation == model (outcomes, termination, resources, and the model too has the loop frozen inside join
        # behind a lingering child) and the stall is about as long as the children linger — anything longer is something else
        if corr and m.get('stall') and impl['stall_s'] <= sum(lingers) + 1.0:
            finding = 'joinBlocksLoopWhileChildLingers'
    kinds = sorted({(k['callee'][0] if k['callee'][0] != 'death' else k['callee'][1]) for k in x['invs']})
    seq = any(k['pred'] is not None for k in x['invs'])
    paths = sorted(set(m.get('path', [])))
    return {'corr': corr, 'pfail': pfail, 'finding': finding,
            'nontrivial': n > 1 or x['invs'][0]['callee'][0] != 'ret',
            'tag': f"n={n}{'/seq' if seq else ''}{'/gated' if any(k.get('gate') for k in x['invs']) else ''}{'/loops=%d' % len(x['rounds']) if x.get('rounds') else ''}"
                   f"{'/wide' if any(len(r) > CPUS for r in (x.get('rounds') or [x['tasks']])) else ''}/{'+'.join(kinds)}/{'+'.join(paths)}",
            'why': '; '.join(why)}


def extra_coverage(results):
    orders, walls, stalls, direct = set(), [], [], 0
    for (c, i, m, j) in results:
        if i.get('order') is not None and len(i['order']) <= 4:
            orders.add(tuple(i['order']))
        walls.append(i.get('wall_s', 0))
        if i.get('stall_s') is not None:
            stalls.append(i['stall_s'])
        direct += len(i.get('direct') or {})
    rates = [i['control']['rate'] for (c, i, m, j) in results if i.get('control')]
    return {'suspected_failures_rerun_alone': sum(1 for (c, i, m, j) in results if i.get('confirm_runs')),
            'suspicions_not_reproduced_alone (scheduling noise)': sum(1 for (c, i, m, j) in results if i.get('suspicion_not_reproduced')),
            'suspicions_reproduced_in_every_run_alone': sum(1 for (c, i, m, j) in results if i.get('confirm_runs') == CONFIRM_RUNS and not i.get('suspicion_not_reproduced')),
            'confirmation_runs_total': sum(i.get('confirm_runs', 0) for (c, i, m, j) in results),
            'scenarios_rerun_because_the_control_ticker_was_starved': sum(1 for (c, i, m, j) in results if i.get('control_reruns')),
            'scenarios_without_ticker_verdict (control starved also alone)': sum(1 for (c, i, m, j) in results if i.get('control_starved')),
            'invocations_judged_with_the_ticker': sum(len(i.get('ticker_judged') or []) for (c, i, m, j) in results if i.get('ticker_ok') is not None),
            'control_ticker_rate_min_median_per_s': [round(min(rates), 1), round(sorted(rates)[len(rates) // 2], 1)] if rates else None,
            'distinct_completion_orders_up_to_4': len(orders), 'scenario_wall_max_s': max(walls or [0]),
            'invocations_compared_with_a_direct_call': direct, 'linger_scenarios': len(stalls),
            'max_event_loop_stall_s_in_linger_scenarios': max(stalls or [0]),
            'hang_watchdog_s': WATCHDOG, 'level_note': 'proof about the protocol model + correspondence on observable facts (partial: see assumptions)'}


def same_outcome(case, a, b):
    """amplified run (core.amplified_run): two executions of one scenario count as the same outcome when everything that is not a
    measurement or a scheduling decision agrees - results, exception classes, termination, resources, process identity.  Wall-clock
    figures (`wall_s`, `stall_s`), the completion order of concurrent invocations and the load-dependent ticker / freeze observations
    are judged per execution by `judge`, never compared."""
    keys = ('out', 'classes', 'hang', 'terminates', 'released', 'resources', 'pid_differs', 'errors')
    return all(a.get(k) == b.get(k) for k in keys)
