"""C17 — in_subprocess: observable facts of real runs (own short-lived process per scenario, hard watchdog) vs. the
prediction of the Lean protocol model for the same abstract scenario."""
import json, os, select, signal, subprocess, sys, tempfile, shutil, time, itertools
from concurrent.futures import ThreadPoolExecutor

RULE = ('scenario = tasks run with asyncio (concurrently), each task a sequence of awaited invocations (fd numbers are re-used); per '
        'invocation: callee kind {return 1 B … 1 MiB, raise Exception (4 ordinary classes + 16 classes the parent side of the protocol has a meaning '
        'for or that derive from one: EOFError, two subclasses of it (one also a ValueError), OSError, BrokenPipeError, ConnectionResetError and a '
        'subclass, ChildProcessError and a subclass, TimeoutError, ImportError, RuntimeError, AssertionError, StopAsyncIteration, LookupError, Exception '
        '— judged: same class name, same names along the MRO, same args as the exception the callee made), return such an exception INSTANCE as a value, '
        'raise SystemExit/KeyboardInterrupt, os._exit at once / after the '
        'work, SIGKILL self, unpicklable result, killed after send, killed in the middle of a 1 MiB send, callee that starts a process of its '
        'own (nested @in_subprocess, nested calculate_in_subprocess, plain multiprocess.Process) — compared with the result of calling the '
        'same callee directly —, callee whose process lingers 1.5 s (thorough: also 3 s) after it has reported (non-daemon thread), returning or raising}, '
        'child processes counted right after every single await (/proc, nothing reaped by the observer), sync or async callee, '
        '@in_subprocess or calculate_in_subprocess, quantised durations covering every completion order of up to 3 (quick) / 4 '
        '(thorough) concurrent invocations; WIDE scenarios: cpu_count+1, cpu_count+2, 2*cpu_count+3 (thorough: 4*cpu_count+1) concurrent cheap '
        'invocations — more than any per-core limit lets run at once —, through ONE decorated function per callee kind (a module-level '
        '@in_subprocess def) and through calculate_in_subprocess; SEVERAL EVENT LOOPS one after the other in the same interpreter (2-4 '
        'asyncio.run rounds per scenario, wide and small, mixed callee kinds, fd numbers and decorated functions re-used from loop to loop): '
        'every invocation of every round must get its own result; GATED callees (the callee waits for an event — a pipe the parent writes to —  that the parent sets as soon as '
        'given other invocations have handed over their result — relative durations fixed by design, no timing): an invocation whose child dies without a '
        'result (every death kind) among 1-12 siblings started in the same loop iteration that outlive it (before / between / after them), 36+ pending long '
        'invocations (more than any default thread pool has workers) that wait for a short one started after them; enumerated families + seeded random mixes '
        '(with rounds, with gates); every scenario in its own process, '
        'watchdog 4.5 s per event loop (HANG), process group killed afterwards; LONG callees (0.5-0.7 s; every way an invocation can end, sync / async, both '
        'forms, alone / concurrent / sequential) carry the ticker criterion of the non-blocking clause, judged relative to a control ticker measured in the same '
        'runner process; every suspected failure is re-run alone up to 3 times with 3 x longer limits and counts only if it shows every time.  '
        'HELD DESCRIPTORS (descriptor numbers are the environment\'s choice): the process holds N OTHER descriptors open while an event loop runs — N = 1100 / 3000: '
        'every descriptor the library opens (pipe ends, child sentinels, the loop\'s own) has a number >= FD_SETSIZE = 1024; N = 1000 / 1008 with 14 concurrent '
        'invocations: the numbers cross FD_SETSIZE in the middle of the loop; different N per event loop of one interpreter (0, 1100, 200); thorough: 110 pending '
        'invocations whose descriptors climb over FD_SETSIZE by themselves (3 per pending invocation), random N around the boundary and far above — every way an '
        'invocation can end, both forms, sync / async, alone / concurrent / one after the other (numbers re-used) / gated / LONG (ticker).  '
        'CALLEE SHAPES (what kind of callable is handed to the library and with which arguments it is called; the finite space shape x {sync, async} x '
        '{@in_subprocess, calculate_in_subprocess} is enumerated — quick: packed into concurrent scenarios + every mismatching shape alone, thorough: every '
        'combination alone with a returning and a raising callee): callables whose call signature differs from what inspect.signature reports (it follows __wrapped__ '
        'and honours __signature__) — pedantic\'s own @rename_kwargs called with the alias, functools.wraps decorators that consume a keyword / a leading positional '
        'argument of their own or supply an argument themselves, a function whose __signature__ claims fewer parameters; near misses where both agree — the same '
        'decorators called with the declared names, a pass-through wraps decorator, a wider __signature__, functools.partial, a bound method, a callable object; and '
        'calls that really do not fit the callable (unknown keyword, missing keyword, also behind a __signature__ that would accept them): the TypeError of the call is '
        'what the function raises, so that class is what the caller must get.  Every shaped callable is also called DIRECTLY in the runner with the same arguments '
        'and the awaited outcome is compared with that.  '
        'non-trivial = more than one invocation or a callee '
        'that does not simply return')
EXHAUSTIVE = {'quick': False, 'thorough': False}
ASSUMPTIONS = [
    'descriptor numbers: in the model a new pipe gets ANY two numbers that are not in use by the invocations (GStep.parent i r w — every theorem is about all such '
    'runs; pipe_gets_any_free_descriptors), and each invocation remembers on which side of FD_SETSIZE its read end lies (St.rxHigh); the instruction the translator '
    'emits for the readiness test says HOW readiness is tested — `rx.poll()` (Connection.poll: multiprocess waits with selectors.PollSelector, any number) = pollWait, a '
    'zero-timeout select.select([rx], [], [], 0) = selectWait (raises for a number >= FD_SETSIZE), anything else is not translated (Skip = broken obligation).  The '
    'driver predicts a scenario with the kernel\'s rule (lowest free number) above Sched.held descriptors; the exact numbers of the real process (standard streams, '
    'the event loop\'s own descriptors, child sentinels) are not modelled — scenarios are either clearly below FD_SETSIZE, clearly above (held >= 1100), or crossing, '
    'and on the unchanged tree the outcome does not depend on the numbers at all (readiness_by_connection_poll).  Needs RLIMIT_NOFILE (hard) above the number of held '
    'descriptors: the runner raises the soft limit; where the hard limit is too low it holds as many as it can get and the evidence says how many scenarios reached FD_SETSIZE',
    'callee shapes: the model takes of a call only whether the arguments fit what the callable accepts (Call.fits; if not, the child raises the TypeError of the call: '
    'Callee.raiseExc) — whether they fit what inspect.signature reports (Call.sigFits) is passed to the driver and read by nothing, because the parent side uses the '
    'callee and the arguments for nothing but passing them on (generated fact calleeTouchedInParent = [], theorem callee_and_arguments_only_passed_on; '
    'faithful_result_whatever_introspection_reports).  The TypeError of a call that does not fit is compared by class only (never by wording)',
    'PARTIAL: real OS schedules cannot be enumerated from user space — the schedule quantifier is discharged on the protocol model (all interleavings, proved) and sampled on the real library through quantised callee durations',
    'pickling (dill) of arguments/results and fork() of a process that has threads are outside the model; an unpicklable result is modelled as "the child ends inside send"',
    'cancellation of the awaiting task IS modelled: the environment step `cancel` (GStep.cancel, enabled whenever the coroutine is suspended at `await event.wait()` — '
    'also when the result has arrived meanwhile) raises CancelledError there; what the program does with it is read off the source (Instr.onCancel: `except Exception` '
    'does not catch it, `except BaseException` and `finally` do; `process.terminate()` / `.kill()` = instruction terminate).  Real runs: task.cancel() and asyncio.wait_for '
    'on invocations whose callee ends only after the invocation itself has (gated on its own invocation — no timing): the caller must get the cancellation, and right '
    'after that await no child of the invocation may exist (running or zombie).  A cancellation that arrives while the coroutine is NOT suspended (asyncio delivers it at '
    'the next await; the function has only one) and a cancellation before the coroutine has started at all (nothing of the library has run) are outside',
    'fork inheritance of other invocations\' pipe ends is modelled behind a generated fact: `start` gives the new child a copy of every write end that is open in the parent '
    '(St.foreignTx / Loc.heirs: no EOF for the owner while such a child lives) WHEN the coroutine can be suspended between Pipe() and tx.close() (awaitsWhileWriteEndOpen ≠ [], '
    'inheritOthers); with the current statement order it cannot, inheritOthers_false is proved from the generated list and every theorem about N invocations uses it (they do not '
    're-prove otherwise); witness inherited_write_end_blocks_eof; exercised by the gated scenarios (a child that dies without a result among siblings that outlive it)',
    'process.join() blocks the event loop from the end of the child\'s send until the child has exited; the model states that this is the only synchronous wait, it does not bound its duration',
    'event loop = asyncio on selectors.EpollSelector (Linux): a closed fd silently leaves the kernel interest set but stays in the selector map',
    'a child that lingers after its send (non-daemon thread, slow exit handler) keeps the parent inside the synchronous process.join() for that long, and the '
    'event loop runs nothing else meanwhile: this violates the clause "while it is pending the event loop keeps running other tasks" and is REPORTED (finding '
    'joinBlocksLoopWhileChildLingers; Lean: join_blocks_other_tasks / other_tasks_run_full_false; proved part other_tasks_run_partial under the guard promptExit). '
    'In scenarios with a lingering callee the clause is judged on the longest gap between two runs of a 10 ms ticker task (no discount): a gap of at least '
    'half the shortest linger time is a stall',
    'a callee that starts processes is compared for the value it returns; the grandchild processes themselves (children of the child) are outside the model',
    'several event loops in one interpreter are modelled as G.newLoop (a new empty selector map, the finished invocations stay); that the module keeps nothing '
    'else from one invocation / one loop to the next is read off the source by the translator (Gen/SubprocModule.lean: module-level bindings, context managers, '
    'synchronisation primitives, stores through non-locals) and proved empty (no_state_between_invocations); state kept elsewhere (inside multiprocess, asyncio) is environment',
    'timing-dependent observations (watchdog expiry = HANG, ticker, measured stall) never count on the strength of one run made under load: every suspected '
    'failure (a property failure that is not a recorded finding, or a disagreement with the model) is re-run ALONE up to 3 times with watchdog and hard limit '
    '3 times longer and counts only if it shows again every time; the first confirmed suspect establishes the violation; retries are recorded in the result '
    '(confirm_runs, first_run) and counted in the evidence.  A seeded defect is deterministic and reproduces; scheduling noise does not',
    'the ticker criterion of the non-blocking clause is applied to invocations whose callee deliberately takes >= 0.5 s (dedicated LONG scenarios for every '
    'callee kind, sync / async, both forms, concurrent and sequential), in event loops with at most 8 concurrent chains, and is RELATIVE: the ticks of a 10 ms '
    'ticker task while the invocation was pending, against what the same ticker got per second in a control phase of the same runner process right before the '
    'scenario (plain asyncio.sleep, nothing of the library running) over the callee\'s deliberate duration; starved = less than 20 % of that; a control below '
    '40 ticks/s (nominal ~95) means the machine is too busy: no verdict, the scenario is run again alone.  In wide scenarios (more invocations than cores) the '
    'loop is busy with the synchronous statements of the other invocations (fork, recv, join) and progress of other tasks is witnessed by those invocations '
    'completing — HANG, outcome, pid and resource clauses are judged for every invocation of every scenario',
]
TRUSTED = [
    'kernel pipe semantics (a read end reports EOF iff no write end is open; data written to one pipe is read from that pipe only) and waitpid',
    'scenario runner embedded in harness/props/C17.py: concretisation of callee kinds, classification of the awaited outcome, /proc based fd and child counting',
]

Q = 0.1            # seconds per duration quantum
WATCHDOG = 4.5     # s: invocations still pending after this are HANG
HARD = 9.0         # s: the scenario process itself is killed after this
WORKERS = 12
TICKER_MAX_CHAINS = 8
LONG_DUR = 5            # quanta: the ticker is judged for invocations whose callee deliberately takes at least LONG_DUR * Q = 0.5 s
TICKER_FRACTION = 0.2   # … and is starved when it ran less than this fraction of what the control ticker of the same process got per second
CONTROL_S = 0.3         # seconds the control ticker runs before the scenario
CONTROL_MIN_RATE = 40.0 # ticks/s (nominal: just under 100): a control below this means the machine is too busy to say anything
CONFIRM_RUNS = 3        # a suspected failure counts only if it shows again in every one of this many runs of the scenario ALONE …
CONFIRM_SCALE = 3       # … with watchdog and hard limit this many times longer
CONTROL_RERUNS = 8      # scenarios whose control was starved are run again alone (once or twice), at most this many per run

RUNNER = r'''
import asyncio, functools, gc, inspect, json, os, resource, select, signal, sys, time, threading, fcntl, termios, struct
try:        # report the library lines this process (and the children it forks) executes to the check that started it (core.LineCoverage)
    import core as _core
    _lc = _core.linecov_child()
except Exception:
    _lc = None
from pedantic.decorators.fn_deco_in_subprocess import in_subprocess, calculate_in_subprocess
from pedantic.decorators.fn_deco_rename_kwargs import rename_kwargs, Rename
try:
    from multiprocess.connection import Connection
    import multiprocess, multiprocess.util
except ImportError:
    Connection = None

SC = json.loads(sys.argv[1])
Q = SC['q']; WATCHDOG = SC['watchdog']
CANCEL_DELAY = SC.get('cancel_delay', 0.15)      # s: how long the caller lets an invocation run before it cancels it / its timeout
PARENT = os.getpid()
TICK = 0.01


class CalleeError(Exception):
    pass


class TruncatedStream(EOFError):
    """an application exception that derives from EOFError (a record parser that hits the end of its input)"""


class TruncatedRecord(TruncatedStream, ValueError):
    pass


class PeerGone(BrokenPipeError):
    pass


class WorkerLost(ChildProcessError):
    pass


EXC = {'ValueError': ValueError, 'KeyError': KeyError, 'CalleeError': CalleeError, 'ZeroDivisionError': ZeroDivisionError}
# exception classes the PARENT side of the protocol has a meaning for (an empty pipe is EOFError, a broken one OSError, a dead child is
# reported as ChildProcessError, a missing multiprocess package as ImportError, …) and classes derived from them: raised BY THE CALLEE they
# are the callee's outcome like any other exception — the caller must get that very exception back (same class, same args).  They carry
# their payload as ONE tuple argument (OSError gives two or three arguments a meaning of its own).
EXC1 = {'EOFError': EOFError, 'TruncatedStream': TruncatedStream, 'TruncatedRecord': TruncatedRecord, 'OSError': OSError,
        'BrokenPipeError': BrokenPipeError, 'ConnectionResetError': ConnectionResetError, 'PeerGone': PeerGone,
        'ChildProcessError': ChildProcessError, 'WorkerLost': WorkerLost, 'TimeoutError': TimeoutError, 'ImportError': ImportError,
        'RuntimeError': RuntimeError, 'AssertionError': AssertionError, 'StopAsyncIteration': StopAsyncIteration,
        'LookupError': LookupError, 'Exception': Exception}
EXC.update(EXC1)


def make_exc(name, idx, pid, size):
    if name in EXC1:
        return EXC1[name]((idx, pid, 'p' * size))
    return EXC[name](idx, pid, 'p' * size)


def payload_of(e):
    """(idx, pid, payload) of an exception made by make_exc, else None"""
    a = e.args
    if len(a) == 1 and isinstance(a[0], tuple):
        a = a[0]
    return a if len(a) == 3 and isinstance(a[0], int) and isinstance(a[2], str) else None


def same_exception(e, name):
    """`e` is what the callee raised / returned: an instance of (a faithful copy of) class `name` — same name, same names along the MRO
    (dill re-creates classes defined in __main__ by value) — with the very args"""
    a = payload_of(e)
    if a is None or type(e).__name__ != name or name not in EXC:
        return False
    if [c.__name__ for c in type(e).__mro__] != [c.__name__ for c in EXC[name].__mro__]:
        return False
    return e.args == make_exc(name, a[0], a[1], len(a[2])).args and a[2] == 'p' * len(a[2])


def gen_obj():
    yield 1


def killer():
    """ends this (child) process as soon as it is blocked in the middle of writing a big message"""
    me = os.getpid()
    while True:
        for fd in os.listdir('/proc/self/fd'):
            try:
                if fcntl.fcntl(int(fd), fcntl.F_GETFL) & os.O_ACCMODE != os.O_WRONLY:
                    continue      # only write ends: inherited read ends of other invocations' pipes do not count
                n = struct.unpack('i', fcntl.ioctl(int(fd), termios.FIONREAD, b'\0\0\0\0'))[0]
            except (OSError, ValueError):
                continue
            if n >= 32768:
                os.kill(me, signal.SIGKILL)
        time.sleep(0.005)


def grand(size):
    """runs in a process started by the callee"""
    return b'\xab' * size


def grand_worker(tx, size):
    tx.send(grand(size))
    tx.close()


def via_process(size):
    """a plain worker process of the callee's own"""
    rx, tx = multiprocess.Pipe(duplex=False)
    p = multiprocess.Process(target=grand_worker, args=(tx, size))
    p.start()
    tx.close()
    try:
        return rx.recv()
    finally:
        p.join()
        rx.close()


def linger_thread(seconds):
    time.sleep(seconds)


def finish(spec, idx, tag):
    kind = spec['callee'][0]
    if kind == 'ret':
        return (idx, os.getpid(), tag, b'\xab' * spec['size'])
    if kind == 'linger':
        # the process of the callee stays alive after the function has returned / raised (Python joins non-daemon threads before a
        # process ends); run directly (no process of its own) nothing lingers
        if os.getpid() != PARENT:
            threading.Thread(target=linger_thread, args=(spec['linger'],)).start()
        if spec['callee'][1] == 'exc':
            raise make_exc(spec['exc'], idx, os.getpid(), spec['size'])
        return (idx, os.getpid(), tag, b'\xab' * spec['size'])
    if kind == 'exc':
        raise make_exc(spec['exc'], idx, os.getpid(), spec['size'])
    if kind == 'retexc':
        return make_exc(spec['exc'], idx, os.getpid(), spec['size'])       # an exception instance as the VALUE the function returns
    if kind == 'base':
        if spec['base'] == 'sysexit':
            raise SystemExit(3)
        raise KeyboardInterrupt()
    if kind == 'death':
        if spec['callee'][1] == 'signal':
            os.kill(os.getpid(), signal.SIGKILL)
            time.sleep(30)
        os._exit(3)
    if kind == 'unpicklable':
        return (idx, os.getpid(), tag, gen_obj())
    if kind == 'aftersend':
        multiprocess.util.Finalize(None, os.kill, args=(os.getpid(), signal.SIGKILL), exitpriority=0)
        return (idx, os.getpid(), tag, b'\xab' * spec['size'])
    if kind == 'midsend':
        threading.Thread(target=killer, daemon=True).start()
        return (idx, os.getpid(), tag, b'\xab' * spec['size'])
    raise RuntimeError(kind)


class Gate:
    """an event the parent sets and children wait for, made of a pipe: setting it never waits for anybody (a `multiprocess.Event` waits in
    `set()` for every sleeper to wake up — for ever, when a sleeping child has been killed meanwhile, as the child of a cancelled
    invocation is) and waiting uses poll(), which takes any descriptor number"""

    def __init__(self):
        self.r, self.w = os.pipe()
        self.opened = False

    def wait(self, seconds):
        p = select.poll()
        p.register(self.r, select.POLLIN | select.POLLHUP)
        end = time.monotonic() + seconds
        while time.monotonic() < end:
            try:
                if p.poll(1000 * max(0.0, end - time.monotonic())):
                    return True
            except InterruptedError:
                pass
        return False

    def is_set(self):
        return self.opened

    def set(self):
        if not self.opened:
            self.opened = True
            os.write(self.w, b'x')       # never read: the pipe stays readable for every waiter


GATES = {}      # invocation index -> Gate (created before anything is forked); the callee of that invocation waits for it


def wait_gate(idx):
    """a callee that ends only when the caller says so: `idx` is gated on other invocations, its event is set by the parent as soon as
    all of them have handed over their result (an arbitrary relative duration: this one outlives those, by design)"""
    if idx in GATES and os.getpid() != PARENT:
        GATES[idx].wait(60)


def open_gates(res):
    for i, ev in GATES.items():
        if not ev.is_set() and all(res[j] is not None and res[j]['state'] == 'done' for j in SC['invs'][i]['gate']):
            ev.set()


def make(spec):
    early = spec['callee'] == ['death', 'beforeRun']
    if spec['callee'][0] == 'spawn':
        how = spec['callee'][1]

        async def nested(size):
            if how == 'deco':
                return await in_subprocess(grand)(size)
            return await calculate_in_subprocess(grand, size)
        if spec['async']:
            async def callee(idx, *, tag):
                await asyncio.sleep(spec['dur'] * Q)
                wait_gate(idx)
                payload = via_process(spec['size']) if how == 'process' else await nested(spec['size'])
                return (idx, os.getpid(), tag, payload)
        else:
            def callee(idx, *, tag):
                time.sleep(spec['dur'] * Q)
                wait_gate(idx)
                payload = via_process(spec['size']) if how == 'process' else asyncio.run(nested(spec['size']))
                return (idx, os.getpid(), tag, payload)
        return callee
    if spec['async']:
        async def callee(idx, *, tag):
            if early:
                os._exit(3)
            await asyncio.sleep(spec['dur'] * Q)
            wait_gate(idx)
            return finish(spec, idx, tag)
    else:
        def callee(idx, *, tag):
            if early:
                os._exit(3)
            time.sleep(spec['dur'] * Q)
            wait_gate(idx)
            return finish(spec, idx, tag)
    return callee


# ---- callee SHAPES: what kind of callable is handed to in_subprocess / calculate_in_subprocess, and with which arguments it is called.
# The base callee is `callee(idx, *, tag)`; it reports (idx, pid, tag, payload) and the classification accepts that only with
# tag == 't<idx>': a shape that is called with other arguments than the base callee declares gets them there exactly when every layer
# passed them on unchanged.  For several shapes what `inspect.signature` reports about the callable (it follows `__wrapped__` and honours
# `__signature__`) is NOT what the callable accepts — `sigfits` says whether the reported signature accepts the call that is made.
#   name: (async callee possible, the call fits the callable, the call fits the reported signature)
SHAPES = {
    'plain':          (True, True, True),      # callee(i, tag='t<i>')
    'rename':         (False, True, False),    # pedantic's own @rename_kwargs(label -> tag), called with the alias: f(i, label='t<i>')
    'rename-plain':   (False, True, True),     # … called with the declared name
    'extra-kw':       (True, True, False),     # functools.wraps decorator that consumes a keyword of its own: f(i, tag='t', suffix='<i>')
    'extra-kw-unused': (True, True, True),     # … called without it
    'extra-pos':      (True, True, False),     # wraps decorator that takes a leading positional argument: f('t', i, tag='<i>')
    'inject':         (True, True, False),     # wraps decorator that supplies the keyword itself: f(i)
    'passthru':       (True, True, True),      # wraps decorator (*a, **k) that changes nothing
    'sig-narrow':     (True, True, False),     # a function whose __signature__ claims (idx) only: f(i, tag='t<i>')
    'sig-wide':       (True, True, True),      # a function whose __signature__ claims (*a, **k)
    'partial':        (True, True, True),      # functools.partial(callee, tag='t<i>'): f(i)
    'method':         (True, True, True),      # a bound method
    'callable-object': (False, True, True),    # an object with __call__
    'misfit-kw':      (True, False, False),    # plain callee, called with a keyword it does not take: TypeError is what the function raises
    'misfit-missing': (True, False, False),    # plain callee, called without the required keyword
    'misfit-sig-ok':  (True, False, True),     # __signature__ claims (*a, **k), the function does not take the keyword that is passed
}


def shaped(callee, spec, idx):
    """the callable handed to the library for this invocation"""
    sh = spec.get('shape', 'plain')
    is_async = spec['async']
    if sh in ('plain', 'misfit-kw', 'misfit-missing'):
        return callee
    if sh in ('rename', 'rename-plain'):
        return rename_kwargs(Rename(from_='label', to='tag'))(callee)
    if sh in ('extra-kw', 'extra-kw-unused'):
        if is_async:
            @functools.wraps(callee)
            async def wrapper(*args, suffix='', **kw):
                kw['tag'] = kw['tag'] + suffix
                return await callee(*args, **kw)
        else:
            @functools.wraps(callee)
            def wrapper(*args, suffix='', **kw):
                kw['tag'] = kw['tag'] + suffix
                return callee(*args, **kw)
        return wrapper
    if sh == 'extra-pos':
        if is_async:
            @functools.wraps(callee)
            async def wrapper(prefix, *args, **kw):
                kw['tag'] = prefix + kw['tag']
                return await callee(*args, **kw)
        else:
            @functools.wraps(callee)
            def wrapper(prefix, *args, **kw):
                kw['tag'] = prefix + kw['tag']
                return callee(*args, **kw)
        return wrapper
    if sh == 'inject':
        if is_async:
            @functools.wraps(callee)
            async def wrapper(*args, **kw):
                return await callee(*args, tag='t%d' % args[0], **kw)
        else:
            @functools.wraps(callee)
            def wrapper(*args, **kw):
                return callee(*args, tag='t%d' % args[0], **kw)
        return wrapper
    if sh == 'passthru':
        if is_async:
            @functools.wraps(callee)
            async def wrapper(*args, **kw):
                return await callee(*args, **kw)
        else:
            @functools.wraps(callee)
            def wrapper(*args, **kw):
                return callee(*args, **kw)
        return wrapper
    if sh in ('sig-narrow', 'sig-wide', 'misfit-sig-ok'):
        P = inspect.Parameter
        callee.__signature__ = inspect.Signature([P('idx', P.POSITIONAL_OR_KEYWORD)] if sh == 'sig-narrow' else
                                                 [P('a', P.VAR_POSITIONAL), P('k', P.VAR_KEYWORD)])
        return callee
    if sh == 'partial':
        return functools.partial(callee, tag='t%d' % idx)
    if sh == 'method':
        class Worker:
            if is_async:
                async def run(self, i, *, tag):
                    return await callee(i, tag=tag)
            else:
                def run(self, i, *, tag):
                    return callee(i, tag=tag)
        return Worker().run
    if sh == 'callable-object':
        class Job:
            def __call__(self, i, *, tag):
                return callee(i, tag=tag)
        return Job()
    raise RuntimeError(sh)


def call_of(spec, i):
    """(args, kwargs) the invocation is made with"""
    sh = spec.get('shape', 'plain')
    if sh == 'rename':
        return (i,), {'label': 't%d' % i}
    if sh == 'extra-kw':
        return (i,), {'tag': 't', 'suffix': '%d' % i}
    if sh == 'extra-pos':
        return ('t', i), {'tag': '%d' % i}
    if sh in ('inject', 'partial', 'misfit-missing'):
        return (i,), {}
    if sh in ('misfit-kw', 'misfit-sig-ok'):
        return (i,), {'tag': 't%d' % i, 'verbose': True}
    return (i,), {'tag': 't%d' % i}


SHARED = {}


def target(spec, idx=0):
    """what an invocation awaits: `in_subprocess(f)` / `calculate_in_subprocess` + f.  spec['share']: the function is decorated ONCE (as a
    module-level `@in_subprocess def work` is) and that one wrapper serves every invocation with the same callee — in every event loop"""
    if not spec.get('share'):
        f = shaped(make(spec), spec, idx)
        return in_subprocess(f) if spec['form'] == 'deco' else (lambda *a, **k: calculate_in_subprocess(f, *a, **k))
    key = json.dumps([spec[k] for k in ('callee', 'dur', 'size', 'async', 'form')] + [spec.get(k) for k in ('exc', 'base', 'linger', 'shape')])
    if key not in SHARED:
        f = shaped(make(spec), spec, idx)
        SHARED[key] = in_subprocess(f) if spec['form'] == 'deco' else (lambda *a, **k: calculate_in_subprocess(f, *a, **k))
    return SHARED[key]


def children():
    """direct children of this process, any state, read from /proc without reaping anything"""
    out = []
    for d in os.listdir('/proc'):
        if d.isdigit():
            try:
                with open('/proc/%s/stat' % d) as f:
                    s = f.read()
                rest = s[s.rindex(')') + 2:].split()
                if int(rest[1]) == PARENT:
                    out.append((int(d), rest[0]))
            except (OSError, ValueError):
                pass
    return out


def nfds():
    return len(os.listdir('/proc/self/fd'))


def open_conns():
    if Connection is None:
        return 0
    return sum(1 for o in gc.get_objects() if isinstance(o, Connection) and not o.closed)


def classify(spec, idx, kind, val):
    if kind == 'cancelled':
        return ['cancelled'], None

    def ours(e, callee_kind):
        a = payload_of(e)
        if a is None or not isinstance(e, Exception):
            return None
        j = a[0]
        if 0 <= j < len(SC['invs']) and SC['invs'][j].get('exc') == type(e).__name__ and SC['invs'][j]['callee'][-1] in callee_kind \
                and len(a[2]) == SC['invs'][j]['size'] and same_exception(e, type(e).__name__):
            return j, a[1]
        return None
    if kind == 'ret':
        r = val
        if isinstance(r, tuple) and len(r) == 4 and isinstance(r[0], int) and isinstance(r[3], bytes) \
                and r[2] == 't%d' % r[0] and r[3] == b'\xab' * len(r[3]):
            want = SC['invs'][r[0]]['size'] if 0 <= r[0] < len(SC['invs']) else -1
            if len(r[3]) == want:
                return ['ret', r[0]], r[1]
        if isinstance(r, BaseException) and ours(r, ('retexc',)):
            return ['ret', ours(r, ('retexc',))[0]], ours(r, ('retexc',))[1]
        return ['retother'], None
    e = val
    if spec.get('shape', 'plain').startswith('misfit'):
        # the arguments do not fit the callable: run with the same arguments the function raises the TypeError of the call — that class is
        # what the caller must get (the wording is not compared)
        return (['exc', idx] if type(e) is TypeError and payload_of(e) is None else ['other', type(e).__name__]), None
    # the callee's own exception first (it may be a ChildProcessError): recognised by its payload, its class name, the names along its MRO
    # (dill re-creates classes defined in __main__ by value, the class object is not preserved: pickling is not modelled) and its args
    if ours(e, ('exc',)):
        return ['exc', ours(e, ('exc',))[0]], ours(e, ('exc',))[1]
    if isinstance(e, ChildProcessError):
        return ['cpe'], None
    return ['other', type(e).__name__], None


def direct_calls():
    """the callees that start processes of their own, run DIRECTLY in this process with the same arguments (before the event loop of the
    scenario exists): what they return here is what the property says the awaited invocation yields"""
    out = {}
    for i, spec in enumerate(SC['invs']):
        sh = spec.get('shape', 'plain')
        if not (spec['callee'][0] == 'spawn' or sh != 'plain' and (spec['callee'][0] in ('ret', 'exc', 'retexc') or sh.startswith('misfit'))) \
                or spec.get('gate'):
            continue
        # (a shape other than 'plain': this also checks the harness's own decorators — called directly the shaped callable must give the
        #  base callee's outcome, else the scenario itself is wrong)
        f = shaped(make(spec), spec, i)
        a, k = call_of(spec, i)
        try:
            r = asyncio.run(f(*a, **k)) if spec['async'] else f(*a, **k)
            kind, val = 'ret', r
        except BaseException as e:
            kind, val = 'exc', e
        o, pid = classify(spec, i, kind, val)
        out[str(i)] = {'out': o, 'pid_is_parent': pid == PARENT}
    return out


HELD = []
HELD_SHORT = [False]


def hold(n):
    """the surrounding program holds `n` other descriptors open (files, sockets — here: /dev/null) while the next event loop runs: they
    take the lowest free numbers, so everything opened afterwards (the event loop's own descriptors, the pipes of the invocations, the
    sentinels of their children) lies above them — with n >= 1024 beyond FD_SETSIZE"""
    soft, hard = resource.getrlimit(resource.RLIMIT_NOFILE)
    want = n + 4096
    if soft != resource.RLIM_INFINITY and soft < want:
        resource.setrlimit(resource.RLIMIT_NOFILE, (want if hard == resource.RLIM_INFINITY else min(want, hard), hard))
    while len(HELD) > n:
        os.close(HELD.pop())
    try:
        while len(HELD) < n:
            HELD.append(os.dup(HELD[0]) if HELD else os.open(os.devnull, os.O_RDONLY))
    except OSError:
        # the machine does not let this process have that many descriptors (hard RLIMIT_NOFILE): hold what it allows and leave room for the
        # scenario itself — reported (held_short), never a failure of the library
        HELD_SHORT[0] = True
        for _ in range(min(len(HELD), 256)):
            os.close(HELD.pop())


ROUNDS = SC.get('rounds') or [SC['tasks']]       # one event loop (asyncio.run) per round, one after the other
HELD_PER_ROUND = SC.get('held') or [0] * len(ROUNDS)
N = len(SC['invs'])
res = [None] * N
ticks = [0]
order = []
stall = [0.0]
errors = []
BASE = {}
AT_END = {'conns': 0, 'sel': 0, 'kids': 0}


async def main(rno, chains):
    loop = asyncio.get_running_loop()
    gc.collect()
    if rno == 0:
        BASE.update({'fds': nfds(), 'children': len(children()), 'conns': open_conns(), 'held': len(HELD)})
    base_sel = len(loop._selector.get_map())
    last = [time.monotonic()]

    async def ticker():
        while True:
            await asyncio.sleep(TICK)
            ticks[0] += 1
            now = time.monotonic()
            stall[0] = max(stall[0], now - last[0])
            last[0] = now

    def excess_children(i):
        """child processes of this process (running or zombie) beyond the ones the other invocations that are pending right now can account
        for (one each, at most) — counted right after invocation i handed over its result, before anything else runs"""
        others = sum(1 for j, r in enumerate(res) if j != i and r is not None and r['state'] == 'pending')
        return max(0, len(children()) - BASE['children'] - others)

    async def chain(ids):
        for i in ids:
            spec = SC['invs'][i]
            call = target(spec, i)
            a, k = call_of(spec, i)
            t0, k0 = time.monotonic(), ticks[0]
            res[i] = {'state': 'pending'}
            cn = spec.get('cancel')
            aw = None
            try:
                if not cn:
                    r = await call(*a, **k)
                elif cn['how'] == 'timeout':
                    # the caller gives the invocation a time limit; its callee ends only when the caller says so, i.e. never in time
                    r = await asyncio.wait_for(call(*a, **k), timeout=CANCEL_DELAY)
                else:
                    # the caller runs the invocation as a task of its own and cancels that task while the callee is still working:
                    # after a moment (the coroutine has started its child and is suspended) and once the invocations it is to
                    # outlive have handed over their results
                    aw = asyncio.ensure_future(call(*a, **k))
                    await asyncio.sleep(CANCEL_DELAY)
                    while not all(res[j] is not None and res[j]['state'] == 'done' for j in cn['after']):
                        await asyncio.sleep(0.005)
                    aw.cancel()
                    r = await aw
                kind, val = 'ret', r
            except asyncio.CancelledError as e:
                if aw is not None and aw.cancelled():
                    kind, val = 'cancelled', e
                else:
                    raise
            except BaseException as e:
                kind, val = ('cancelled', e) if cn and cn['how'] == 'timeout' and type(e) is asyncio.TimeoutError and payload_of(e) is None else ('exc', e)
            left = excess_children(i)
            out, pid = classify(spec, i, kind, val)
            res[i] = {'state': 'done', 'out': out, 'pid': pid, 'wall': time.monotonic() - t0, 'ticks': ticks[0] - k0, 'val': val, 'left': left}
            order.append(i)
            open_gates(res)

    async def blocker(nz):
        """freezes the event loop until nz children have been killed (used to catch a child in the middle of a big send)"""
        t0 = time.monotonic()
        while time.monotonic() - t0 < 3.0:
            if sum(1 for _, st in children() if st == 'Z') >= nz:
                return
            time.sleep(0.005)

    tk = asyncio.ensure_future(ticker())
    tasks = [asyncio.ensure_future(chain(ids)) for ids in chains]
    if SC.get('blocker') and rno == 0:
        tasks.append(asyncio.ensure_future(blocker(SC['blocker'])))
    done, pending = await asyncio.wait(tasks, timeout=WATCHDOG)      # per event loop
    errors.extend(repr(t.exception()) for t in done if t.exception() is not None)
    stall[0] = max(stall[0], time.monotonic() - last[0])
    tk.cancel()
    AT_END['conns'] = max(AT_END['conns'], open_conns() - BASE['conns'])
    AT_END['sel'] = max(AT_END['sel'], len(loop._selector.get_map()) - base_sel)
    AT_END['kids'] = max(AT_END['kids'], len(children()) - BASE['children'])
    hang = bool(pending)
    if not hang and rno + 1 < len(ROUNDS):
        sys.stdout.write(json.dumps({'round_done': rno}) + '\n')      # heartbeat: the observer's hard limit starts anew
        sys.stdout.flush()
        return              # this event loop ends here (asyncio.run closes it); the next round gets a new one
    outs, pids, walls, tks, lefts = [], [], [], [], []
    for r in res:
        if r is None:
            outs.append(['notrun']); pids.append(None); walls.append(0); tks.append(0); lefts.append(0)
        elif r['state'] == 'pending':
            outs.append(['hang']); pids.append(None); walls.append(0); tks.append(0); lefts.append(0)
        else:
            outs.append(r['out']); pids.append(r['pid']); walls.append(round(r['wall'], 3)); tks.append(r['ticks']); lefts.append(r['left'])
    fd_after = None
    if not hang:
        for r in res:
            if r is not None:
                r.pop('val', None)
        del done, pending, tasks, r
        gc.collect()
        fd_after = nfds() - BASE['fds'] - (len(HELD) - BASE['held'])
    rep = {'out': outs, 'pid_differs': [None if p is None else (p != PARENT) for p in pids], 'wall': walls, 'ticks': tks,
           'order': order, 'hang': hang, 'fd_delta': fd_after, 'children_left': AT_END['kids'],
           'open_conns': AT_END['conns'], 'selector_delta': AT_END['sel'], 'errors': errors,
           'left_after_await': lefts, 'direct': DIRECT, 'stall': round(stall[0], 3), 'rounds_run': rno + 1, 'control': CONTROL,
           'held': len(HELD), 'held_short': HELD_SHORT[0], 'max_fd': max(int(f) for f in os.listdir('/proc/self/fd'))}
    sys.stdout.write(json.dumps(rep) + '\n')
    sys.stdout.flush()
    os._exit(0)


async def control(seconds):
    """the same 10 ms ticker next to a plain `asyncio.sleep`: how many ticks per second does THIS process get on THIS machine right now
    (and what is the longest gap) when nothing of the library runs — the yardstick the ticks of the invocations are compared with"""
    n, gap, t0 = 0, 0.0, time.monotonic()
    last = t0

    async def tick():
        nonlocal n, gap, last
        while True:
            await asyncio.sleep(TICK)
            now = time.monotonic()
            n += 1
            gap = max(gap, now - last)
            last = now
    tk = asyncio.ensure_future(tick())
    await asyncio.sleep(seconds)
    tk.cancel()
    el = time.monotonic() - t0
    return {'rate': n / el, 'gap': round(max(gap, time.monotonic() - last), 3), 'seconds': round(el, 3)}


for _i, _spec in enumerate(SC['invs']):
    if _spec.get('gate'):
        GATES[_i] = Gate()
CONTROL = asyncio.run(control(SC['control'])) if SC.get('control') else None
DIRECT = direct_calls()
for _rno, _chains in enumerate(ROUNDS):
    hold(HELD_PER_ROUND[_rno] if _rno < len(HELD_PER_ROUND) else 0)
    asyncio.run(main(_rno, _chains))
'''


# ------------------------------------------------------------------------------------------------ scenarios

# callee shapes (see SHAPES in the runner): name -> (an async callee is possible, the call fits the callable, the call fits what inspect.signature reports)
SHAPES = {'plain': (True, True, True), 'rename': (False, True, False), 'rename-plain': (False, True, True), 'extra-kw': (True, True, False),
          'extra-kw-unused': (True, True, True), 'extra-pos': (True, True, False), 'inject': (True, True, False), 'passthru': (True, True, True),
          'sig-narrow': (True, True, False), 'sig-wide': (True, True, True), 'partial': (True, True, True), 'method': (True, True, True),
          'callable-object': (False, True, True), 'misfit-kw': (True, False, False), 'misfit-missing': (True, False, False),
          'misfit-sig-ok': (True, False, True)}
SHAPES_MISMATCH = [k for k, v in SHAPES.items() if v[1] and not v[2]]      # accepted by the callable, rejected by the reported signature
FD_SETSIZE = 1024
HELD_HIGH = 1100        # other descriptors held by the process: every descriptor opened afterwards has a number >= FD_SETSIZE


def inv(callee, dur=1, size=16, big=None, is_async=False, form='deco', exc='ValueError', base='sysexit', linger=1.5, key=None, gate=None, shape=None, cancel=None, cancel_after=()):
    kind = callee[0]
    if kind == 'midsend':
        size = 1 << 20
    if big is None:
        big = size > 60000
    d = {'callee': list(callee), 'dur': dur, 'size': size, 'big': bool(big), 'async': bool(is_async), 'form': form}
    if kind in ('exc', 'retexc') or callee == ['linger', 'exc']:
        d['exc'] = exc
    if kind == 'linger':
        d['linger'] = linger          # seconds the child stays alive after `_inner` has sent
    if kind == 'base':
        d['base'] = base
    if key is not None:
        d['key'] = key                # a name other invocations of the scenario refer to
    if gate:
        d['gate_keys'] = list(gate)   # the callee ends only after the invocations with these keys have handed over their result
    if cancel:
        # the caller cancels the task that awaits this invocation ('cancel': task.cancel(); 'timeout': asyncio.wait_for) while the callee is
        # still working — the callee ends only after the invocation itself has (it is gated on its own invocation): no timing involved
        assert cancel in ('cancel', 'timeout') and callee != ['death', 'beforeRun'] and kind not in ('spawn', 'linger', 'midsend') and not (cancel == 'timeout' and cancel_after)
        d['cancel'] = {'how': cancel, 'after_keys': list(cancel_after)}
    if shape and shape != 'plain':
        assert shape in SHAPES and (SHAPES[shape][0] or not is_async), shape
        d['shape'] = shape            # what kind of callable is handed to the library and how it is called
    return d


def model_inv(s):
    """what the driver gets of an invocation"""
    d = {'callee': s['callee'], 'big': s['big'], 'dur': s['dur'], 'pred': s['pred'], 'deco': s['form'] == 'deco', 'async': s['async']}
    if s.get('gate'):
        d['gate'] = s['gate']
    if s.get('cancel'):
        d['cancel'] = s['cancel']['after']
    if s.get('shape'):
        _, fits, sigfits = SHAPES[s['shape']]
        if not fits:
            d['fits'] = False
        if not sigfits:
            d['sigfits'] = False
    return d


def scenario(tasks, origin='', rounds=None, held=None):
    """tasks: list of lists of inv dicts (the chains of awaited invocations that run concurrently) -> case.
    rounds: list of such task lists — one event loop (`asyncio.run`) per round, one after the other in the same interpreter.
    held: number of OTHER descriptors the process holds open while the event loop runs (one number, or one per round)"""
    invs, tl, rl, sizes = [], [], [], []
    for rtasks in (rounds if rounds is not None else [tasks]):
        n0, chains = len(invs), []
        for t in rtasks:
            ids = []
            for k, s in enumerate(t):
                s = dict(s)
                s['pred'] = ids[-1] if ids else None
                ids.append(len(invs))
                invs.append(s)
            tl.append(ids)
            chains.append(ids)
        rl.append(chains)
        sizes.append(len(invs) - n0)
        # gates: by key, within the round.  An invocation others wait for must be able to end on its own: neither it nor anything
        # awaited before it in its chain is gated (otherwise the scenario would deadlock by construction, whatever the library does)
        keys = {s['key']: i for i, s in enumerate(invs) if i >= n0 and 'key' in s}
        for i in range(n0, len(invs)):
            if 'gate_keys' in invs[i]:
                invs[i]['gate'] = sorted(keys[k] for k in invs[i]['gate_keys'])
                for j in invs[i]['gate']:
                    k = j
                    while k is not None:
                        assert 'gate_keys' not in invs[k] and 'cancel' not in invs[k], 'a gate on a gated invocation'
                        k = invs[k]['pred']
            if 'cancel' in invs[i]:
                invs[i]['cancel'] = dict(invs[i]['cancel'], after=sorted(keys[k] for k in invs[i]['cancel']['after_keys']))
                invs[i]['gate'] = sorted(set(invs[i].get('gate', [])) | {i})       # the callee outlives its own invocation
                for j in invs[i]['cancel']['after']:
                    k = j
                    while k is not None:
                        assert 'gate_keys' not in invs[k] and 'cancel' not in invs[k], 'a cancellation that waits for a gated invocation'
                        k = invs[k]['pred']
    c = {'invs': [model_inv(s) for s in invs]}
    x = {'invs': invs, 'tasks': tl, 'origin': origin}
    if rounds is not None and len(rl) > 1:
        c['rounds'] = sizes
        x['rounds'] = rl
    if held:
        hl = [held] * len(rl) if isinstance(held, int) else list(held)
        assert len(hl) == len(rl)
        if any(hl):
            c['held'] = hl
            x['held'] = hl
    firsts = [invs[ids[0]] for ids in rl[0] if ids]
    nmid = sum(1 for s in firsts if s['callee'][0] == 'midsend')
    if nmid:
        x['blocker'] = nmid
    return {'m': 'subproc', 'c': c, 'x': x}


def shared(d):
    """the same invocation made through ONE decorated function that serves all invocations of its kind (module-level `@in_subprocess def`)"""
    return dict(d, share=True)


CPUS = os.cpu_count() or 1


def wide(n, kinds=None, form='deco', is_async=False, dur=1, share=True):
    """n concurrent cheap invocations (one task each); kinds: callee kinds taken in turn"""
    kinds = kinds or [['ret']]
    out = []
    for i in range(n):
        d = inv(kinds[i % len(kinds)], dur=dur if isinstance(dur, int) else dur[i % len(dur)], size=16, is_async=is_async, form=form)
        out.append([shared(d) if share else d])
    return out


DEATHS = [['death', 'beforeRun'], ['death', 'osExit'], ['death', 'signal'], ['base'], ['unpicklable']]
SPAWNS = [['spawn', 'deco'], ['spawn', 'func'], ['spawn', 'process']]
LINGER_Q, LINGER_T = 1.5, 3.0      # seconds a lingering child outlives its send (quick / additionally in thorough)
EXCS = ['ValueError', 'KeyError', 'CalleeError', 'ZeroDivisionError']
# classes the parent side of the protocol handles / raises itself, and classes derived from them (see the runner)
EXCS_PROTOCOL = ['EOFError', 'TruncatedStream', 'TruncatedRecord', 'OSError', 'BrokenPipeError', 'ConnectionResetError', 'PeerGone',
                 'ChildProcessError', 'WorkerLost', 'TimeoutError', 'ImportError', 'RuntimeError', 'AssertionError', 'StopAsyncIteration',
                 'LookupError', 'Exception']
SIZES = [1, 4096, 60000, 65537, 1 << 20]


def rand_inv(rng, allow_death=True, maxdur=4):
    r = rng.random()
    common = dict(dur=rng.randint(0, maxdur), is_async=rng.random() < 0.35, form=rng.choice(['deco', 'func']))
    if r < 0.4 or not allow_death and r < 0.7:
        return inv(['ret'], size=rng.choice(SIZES + [16, 16]), **common)
    if r < 0.6 or not allow_death:
        return inv(['exc'], exc=rng.choice(EXCS + EXCS_PROTOCOL), size=rng.choice([1, 16, 70000]), **common)
    if r < 0.86:
        c = rng.choice(DEATHS)
        return inv(c, base=rng.choice(['sysexit', 'kbd']), **common)
    if r < 0.93:
        return inv(rng.choice(SPAWNS), size=rng.choice([16, 4096, 70000]), **common)
    return inv(['aftersend'], size=rng.choice([16, 4096]), **common)


def held_cases(rng, thorough):
    """(h) the process holds OTHER descriptors open (a server with a thousand connections, a parent that opened many files — or some hundred
    pending invocations, each of which keeps its read end and the two descriptors of its child): descriptor numbers are the environment's
    choice, the pipe of an invocation may get numbers at or above FD_SETSIZE (1024), where select() no longer works.  Every way an
    invocation can end, both forms, sync / async, alone / concurrent / one after the other (fd numbers re-used), numbers that cross the
    boundary in the middle of a scenario, event loops with different numbers of held descriptors in one interpreter."""
    out = []
    combos = list(itertools.product([False, True], ['deco', 'func']))
    H = HELD_HIGH
    kinds = [['ret'], ['exc'], ['death', 'osExit'], ['base'], ['unpicklable'], ['death', 'signal'], ['aftersend'], ['retexc'], ['death', 'beforeRun'], ['spawn', 'func']]
    for k, c in enumerate(kinds if thorough else kinds[:5]):
        is_async, form = combos[k % 4]
        out.append(scenario([[inv(c, dur=k % 2, is_async=is_async, form=form, size=(16, 70000)[k % 2])]], 'held-single', held=H))
    for is_async, form in (combos if thorough else combos[1:3]):
        out.append(scenario([[inv(['ret'], dur=1, is_async=is_async, form=form)]], 'held-single', held=(H, 3000)[is_async]))
    out.append(scenario([[inv(['ret'], dur=2)], [inv(['exc'], dur=1, is_async=True, form='func')], [inv(['death', 'osExit'], dur=1)], [inv(['ret'], dur=0, size=70000, form='func')]],
                        'held-concurrent', held=H))
    out.append(scenario([[inv(['ret'], dur=0), inv(['death', 'signal'], dur=0, form='func'), inv(['ret'], dur=1, is_async=True)]], 'held-sequence', held=H))
    # the numbers cross FD_SETSIZE in the middle: the first invocations of the loop get numbers below it, the later ones above
    n_cross = 14
    out.append(scenario(wide(n_cross, kinds=[['ret'], ['exc'], ['ret'], ['death', 'osExit']], dur=[1, 2]), 'held-crossing', held=FD_SETSIZE - 16))
    out.append(scenario(wide(n_cross, form='func', share=False, is_async=True, dur=[2, 1, 0]), 'held-crossing', held=FD_SETSIZE - 24))
    # several event loops, the program opens / closes other descriptors in between
    out.append(scenario(None, 'held-rounds', rounds=[[[inv(['ret'], dur=0)], [shared(inv(['ret'], dur=1))]],
                                                     [[inv(['ret'], dur=1, form='func')], [shared(inv(['ret'], dur=1))], [inv(['death', 'osExit'], dur=0)]],
                                                     [[shared(inv(['ret'], dur=1))], [inv(['exc'], dur=0, is_async=True)]]], held=[0, H, 200]))
    out.append(scenario(None, 'held-rounds', rounds=[wide(3), wide(3)], held=[H, 0]))
    # gated: an invocation whose child dies without a result among siblings that outlive it, all above FD_SETSIZE
    out.append(scenario([[inv(['ret'], dur=0, gate=['A'])], [inv(['death', 'osExit'], dur=0, key='A', form='func')], [inv(['exc'], dur=0, gate=['A'], is_async=True)]],
                        'held-gated', held=H))
    # a LONG callee: the ticker clause above FD_SETSIZE
    out.append(scenario([[inv(['ret'], dur=LONG_DUR, form='func')]], 'held-long', held=H))
    if thorough:
        # some hundred invocations pending at once, no other descriptors held: the numbers climb by themselves (3 per pending invocation)
        out.append(scenario(wide(110, dur=[3, 2]), 'held-crossing-wide', held=FD_SETSIZE - 3 * 60))
        for k in range(30):
            h = rng.choice([1, 7, 200, FD_SETSIZE - 40, FD_SETSIZE - 9, FD_SETSIZE - 4, FD_SETSIZE, FD_SETSIZE + 1, H, 2000, 5000])
            tasks = [[rand_inv(rng, maxdur=2) for _ in range(1 if rng.random() < 0.6 else 2)] for _ in range(rng.randint(1, 5))]
            out.append(scenario(tasks, 'held-random', held=h))
        for k in range(8):
            nr = rng.randint(2, 3)
            out.append(scenario(None, 'held-random-rounds', rounds=[[[rand_inv(rng, maxdur=1) | ({'share': True} if rng.random() < 0.4 else {})]
                                                                      for _ in range(rng.randint(1, 3))] for _ in range(nr)],
                                held=[rng.choice([0, 50, FD_SETSIZE - 5, H, 1500]) for _ in range(nr)]))
    else:
        for k in range(2):
            out.append(scenario([[rand_inv(rng, maxdur=1)] for _ in range(rng.randint(1, 3))], 'held-random', held=rng.choice([FD_SETSIZE - 5, FD_SETSIZE, H, 2000])))
    return out


def cancel_cases(rng, thorough):
    """(j) CANCELLATION: the task that awaits an invocation is cancelled (task.cancel()) or runs out of time (asyncio.wait_for) while the
    callee is still working — the callee ends only after the invocation itself has (gated on its own invocation: no timing).  The
    caller must get the cancellation at once, and right after that await no child of the invocation may be left (running or un-reaped),
    at the end no descriptor, no Connection, no selector entry.  Both ways of cancelling, both forms, sync / async callee, every callee
    kind that can wait; alone, next to ordinary invocations, after another invocation has finished, followed by an ordinary invocation
    through the same chain (numbers re-used), many at once, in a later event loop, above FD_SETSIZE."""
    out = []
    combos = list(itertools.product([False, True], ['deco', 'func']))
    for k, (how, (is_async, form)) in enumerate(itertools.product(['cancel', 'timeout'], combos)):
        if thorough or k in (0, 3, 5, 6):
            out.append(scenario([[inv(['ret'], dur=0, cancel=how, is_async=is_async, form=form)]], 'cancel-single'))
    kinds = [['exc'], ['death', 'osExit'], ['unpicklable'], ['base'], ['death', 'signal'], ['aftersend'], ['retexc']]
    for k, c in enumerate(kinds if thorough else kinds[:2]):
        out.append(scenario([[inv(c, dur=0, cancel=('cancel', 'timeout')[k % 2], is_async=(k % 3 == 1), form=('func', 'deco')[k % 2], size=(16, 70000)[k % 2])]], 'cancel-single'))
    out.append(scenario([[inv(['ret'], dur=1)], [inv(['ret'], dur=0, cancel='cancel', form='func')], [inv(['exc'], dur=2, is_async=True)],
                         [inv(['ret'], dur=0, cancel='timeout', is_async=True)]], 'cancel-concurrent'))
    out.append(scenario([[inv(['ret'], dur=2, key='A')], [inv(['ret'], dur=0, cancel='cancel', cancel_after=['A'])], [inv(['death', 'osExit'], dur=1, key='B')],
                         [inv(['exc'], dur=0, cancel='cancel', cancel_after=['A', 'B'], form='func', is_async=True)]], 'cancel-after'))
    out.append(scenario([[inv(['ret'], dur=0, cancel='cancel'), inv(['ret'], dur=1), inv(['ret'], dur=0, cancel='timeout', form='func'), inv(['exc'], dur=0)]],
                        'cancel-sequence'))
    out.append(scenario([[shared(inv(['ret'], dur=0, cancel=('cancel', 'timeout')[j % 2]))] for j in range(10)] + [[inv(['ret'], dur=1)], [inv(['ret'], dur=3, form='func')]],
                        'cancel-wide'))
    out.append(scenario(None, 'cancel-rounds', rounds=[[[inv(['ret'], dur=0, cancel='cancel')], [inv(['ret'], dur=1)]],
                                                       [[inv(['ret'], dur=1, form='func')], [inv(['ret'], dur=0, cancel='timeout', form='func')]],
                                                       [[shared(inv(['ret'], dur=0))]]], held=[0, HELD_HIGH, 0]))
    out.append(scenario([[inv(['ret'], dur=0, cancel='cancel', shape='rename')], [inv(['ret'], dur=0, cancel='timeout', shape='extra-kw', is_async=True)]], 'cancel-shapes', held=HELD_HIGH))
    for k in range(30 if thorough else 3):
        tasks = [[rand_inv(rng, maxdur=2) for _ in range(1 if rng.random() < 0.6 else 2)] for _ in range(rng.randint(1, 5))]
        some = False
        for t in tasks:
            for d in t:
                if (rng.random() < 0.5 or not some) and d['callee'] != ['death', 'beforeRun'] and d['callee'][0] not in ('spawn', 'linger', 'midsend'):
                    d['cancel'] = {'how': rng.choice(['cancel', 'timeout']), 'after_keys': []}
                    some = True
        out.append(scenario(tasks, 'cancel-random', held=rng.choice([0, 0, 0, HELD_HIGH])))
    return out


def shape_cases(rng, thorough):
    """(i) callee SHAPES: what kind of callable is handed to @in_subprocess / calculate_in_subprocess and with which arguments it is
    called — above all callables whose call signature differs from what introspection reports (`inspect.signature` follows `__wrapped__`
    and honours `__signature__`): pedantic's own @rename_kwargs called with the alias, functools.wraps decorators that consume a keyword
    / a leading positional argument of their own or supply an argument themselves, functions with a __signature__ attribute; near
    misses: the same decorators called so that both agree, functools.partial, bound methods, callable objects; and calls that really do
    not fit (the TypeError of the call is what the function raises, so that is what the caller must get).  The finite space shape x
    {sync, async} x {@in_subprocess, calculate_in_subprocess} is enumerated: quick — every combination once, packed into concurrent
    scenarios, plus each mismatching shape alone; thorough — every combination alone, with returning and raising callees."""
    out = []
    combos = list(itertools.product([False, True], ['deco', 'func']))
    names = list(SHAPES)
    # every mismatching shape alone (the smallest failing input if the parent ever looks at the signature)
    for k, sh in enumerate(SHAPES_MISMATCH):
        for form in (('deco', 'func') if thorough else ('deco',)):
            is_async = SHAPES[sh][0] and k % 2 == 1
            out.append(scenario([[inv(['ret'], dur=0, shape=sh, is_async=is_async, form=form)]], 'shape-single'))
    # every shape x sync/async x form, concurrently in one event loop each
    for is_async, form in combos:
        chains = [[inv((['ret'], ['exc'])[(k + is_async) % 5 == 4], dur=k % 2, shape=sh, is_async=is_async, form=form, exc=('ValueError', 'EOFError')[k % 2])]
                  for k, sh in enumerate(names) if SHAPES[sh][0] or not is_async]
        out.append(scenario(chains, 'shape-all'))
    # one after the other through the same event loop, and in two event loops, with deaths in between
    out.append(scenario([[inv(['ret'], dur=0, shape='rename'), inv(['death', 'osExit'], dur=0, shape='extra-kw'), inv(['exc'], dur=0, shape='inject', is_async=True),
                          inv(['ret'], dur=0, shape='misfit-kw'), inv(['ret'], dur=0, shape='sig-narrow', form='func')]], 'shape-sequence'))
    out.append(scenario(None, 'shape-rounds', rounds=[[[inv(['ret'], dur=0, shape='extra-pos')], [inv(['ret'], dur=1, shape='partial', is_async=True)]],
                                                      [[inv(['exc'], dur=0, shape='rename')], [inv(['ret'], dur=0, shape='callable-object', form='func')]]], held=[0, HELD_HIGH]))
    if thorough:
        for sh in names:
            for is_async, form in combos:
                if is_async and not SHAPES[sh][0]:
                    continue
                for c in (['ret'], ['exc']):
                    out.append(scenario([[inv(c, dur=0, shape=sh, is_async=is_async, form=form, exc=rng.choice(EXCS + EXCS_PROTOCOL))]], 'shape-single'))
        for k in range(30):
            tasks = [[rand_inv(rng, maxdur=1) for _ in range(1 if rng.random() < 0.6 else 2)] for _ in range(rng.randint(1, 4))]
            for t in tasks:
                for d in t:
                    sh = rng.choice(names)
                    if d['callee'][0] not in ('midsend',) and (SHAPES[sh][0] or not d['async']) and sh != 'plain':
                        d['shape'] = sh
            out.append(scenario(tasks, 'shape-random', held=rng.choice([0, 0, HELD_HIGH])))
    else:
        for k in range(2):
            tasks = [[rand_inv(rng, maxdur=1)] for _ in range(rng.randint(1, 3))]
            for t in tasks:
                for d in t:
                    sh = rng.choice(names)
                    if d['callee'][0] not in ('midsend',) and (SHAPES[sh][0] or not d['async']) and sh != 'plain':
                        d['shape'] = sh
            out.append(scenario(tasks, 'shape-random'))
    return out


def cases(rng, tier):
    out = []
    thorough = tier == 'thorough'
    # (a) single invocations: every callee kind
    for k, size in enumerate(SIZES):
        out.append(scenario([[inv(['ret'], dur=1, size=size, is_async=(k % 2 == 1), form=('deco', 'func')[k % 2])]], 'single-ret'))
    out.append(scenario([[inv(['ret'], dur=0, size=16)]], 'single-ret-instant'))
    for k, e in enumerate(EXCS[:2] if not thorough else EXCS):
        out.append(scenario([[inv(['exc'], exc=e, is_async=(k % 2 == 0), size=(16, 70000)[k % 2])]], 'single-exc'))
    # (a0) LONG callees (0.5-0.7 s): the invocations the ticker criterion of "while it is pending the event loop keeps running other tasks" is
    #      judged on — every way an invocation can end, sync / async callee, both forms, alone, concurrently, one after the other
    for k, (is_async, form) in enumerate(combos := list(itertools.product([False, True], ['deco', 'func']))):
        out.append(scenario([[inv(['ret'], dur=LONG_DUR + k % 2, is_async=is_async, form=form, size=(16, 70000)[k % 2])]], 'long-single'))
    long_kinds = [['exc'], ['death', 'osExit'], ['death', 'signal'], ['base'], ['unpicklable'], ['aftersend'], ['spawn', 'func']]
    for k, c in enumerate(long_kinds if thorough else long_kinds[:3]):
        out.append(scenario([[inv(c, dur=LONG_DUR, is_async=(k % 2 == 0), form=('deco', 'func')[k % 2])]], 'long-single'))
    out.append(scenario([[inv(['ret'], dur=LONG_DUR)], [inv(['exc'], dur=LONG_DUR + 2, is_async=True, form='func')], [inv(['death', 'osExit'], dur=LONG_DUR + 1)]], 'long-concurrent'))
    out.append(scenario([[inv(['ret'], dur=LONG_DUR, form='func'), inv(['ret'], dur=LONG_DUR, is_async=True)]], 'long-sequence'))
    if thorough:
        for k in range(12):
            out.append(scenario([[rand_inv(rng) | {'dur': LONG_DUR + rng.randint(0, 2)} for _ in range(rng.randint(1, 2))] for _ in range(rng.randint(1, 4))], 'long-random'))
    # (a1) the callee raises an exception of a class the PARENT side of the protocol has a meaning for (EOFError: empty pipe; OSError family:
    #      broken pipe; ChildProcessError: what the library reports for a dead child; ImportError, …) or of a class derived from one: it is the
    #      callee's outcome and must come back as that very exception (class, MRO, args) — sync and async callee, @in_subprocess and
    #      calculate_in_subprocess; and a callee that RETURNS such an exception instance gets it back as a value
    for k, e in enumerate(EXCS_PROTOCOL):
        for is_async, form in (combos if thorough or k < 3 else [combos[k % 4], combos[(k + 3) % 4]]):
            out.append(scenario([[inv(['exc'], exc=e, dur=0, is_async=is_async, form=form, size=(16, 70000)[(k + is_async) % 2])]], 'single-exc-protocol-class'))
    for k, e in enumerate(EXCS_PROTOCOL if thorough else EXCS_PROTOCOL[:4] + ['ChildProcessError', 'Exception']):
        out.append(scenario([[inv(['retexc'], exc=e, dur=0, is_async=(k % 2 == 1), form=('deco', 'func')[k % 2])]], 'single-returns-exception-instance'))
    out.append(scenario([[inv(['exc'], exc='EOFError', dur=1)], [inv(['death', 'osExit'], dur=1)], [inv(['exc'], exc='ChildProcessError', dur=1, is_async=True)],
                         [inv(['retexc'], exc='TruncatedStream', dur=2, form='func')], [inv(['exc'], exc='PeerGone', dur=0, form='func')]], 'concurrent-exc-protocol-class'))
    out.append(scenario([[inv(['exc'], exc='TruncatedRecord', dur=0), inv(['unpicklable'], dur=0), inv(['exc'], exc='EOFError', dur=0, is_async=True, form='func')]],
                        'sequence-exc-protocol-class'))
    for k, c in enumerate(DEATHS):
        out.append(scenario([[inv(c, base='sysexit', is_async=(k % 2 == 1))]], 'single-death'))
    out.append(scenario([[inv(['base'], base='kbd')]], 'single-death'))
    out.append(scenario([[inv(['aftersend'])]], 'single-aftersend'))
    out.append(scenario([[inv(['midsend'], dur=0)]], 'single-midsend'))
    # (a2) a callee that starts a process of its own: nested @in_subprocess / calculate_in_subprocess (async callee awaits it, sync callee
    #      runs it with asyncio.run) and a plain Process; the runner also calls the callee directly and compares
    for k, c in enumerate(SPAWNS):
        for is_async in (True, False):
            out.append(scenario([[inv(c, dur=1, size=(16, 70000)[(k + is_async) % 2], is_async=is_async, form=('deco', 'func')[(k + is_async) % 2])]],
                                'single-spawn'))
    out.append(scenario([[inv(['spawn', 'deco'], dur=1, is_async=True), inv(['ret'], dur=1)], [inv(['spawn', 'process'], dur=2), inv(['spawn', 'func'], dur=1, is_async=True)]],
                        'spawn+sequence+concurrent'))
    # (a3) a child that lingers after it has reported its result (non-daemon thread): when the await returns the child must be gone and reaped
    out.append(scenario([[inv(['linger', 'ret'], dur=1, linger=LINGER_Q)]], 'single-linger'))
    out.append(scenario([[inv(['linger', 'exc'], dur=0, linger=LINGER_Q, is_async=True, form='func'), inv(['ret'], dur=1)]], 'linger+sequence'))
    out.append(scenario([[inv(['linger', 'ret'], dur=1, linger=LINGER_Q, is_async=True)], [inv(['ret'], dur=2)], [inv(['linger', 'ret'], dur=1, linger=LINGER_Q, form='func')]],
                        'linger+concurrent'))
    if thorough:
        for k, (how, is_async, form) in enumerate(itertools.product(['ret', 'exc'], [False, True], ['deco', 'func'])):
            out.append(scenario([[inv(['linger', how], dur=k % 2, linger=(LINGER_T, LINGER_Q)[k % 2], is_async=is_async, form=form, size=(16, 70000)[k % 2])]],
                                'single-linger'))
        out.append(scenario([[inv(['linger', 'ret'], dur=0, linger=LINGER_T), inv(['linger', 'exc'], dur=0, linger=LINGER_Q / 3), inv(['ret'], dur=1)]], 'linger+sequence'))
        out.append(scenario([[inv(['linger', 'ret'], dur=1, linger=LINGER_T)], [inv(['death', 'osExit'], dur=1), inv(['ret'], dur=1)]], 'linger+concurrent'))
        for c in SPAWNS:
            out.append(scenario([[inv(c, dur=1, is_async=True)], [inv(c, dur=2)], [inv(['death', 'signal'], dur=1), inv(c, dur=1, is_async=(c[1] != 'process'))]],
                                'spawn+concurrent'))
    # (b) concurrent, every completion order of 2 and 3 (thorough: 4) invocations, mixed kinds
    kinds3 = [['ret'], ['exc'], ['death', 'osExit']]
    for durs in itertools.permutations([1, 2, 3]):
        rot = rng.randrange(3)
        ks = kinds3[rot:] + kinds3[:rot]
        out.append(scenario([[inv(k, dur=d, is_async=rng.random() < 0.3, form=rng.choice(['deco', 'func']))] for k, d in zip(ks, durs)],
                            'concurrent-3'))
    for durs in ((1, 3), (3, 1), (2, 2)):
        out.append(scenario([[inv(['ret'], dur=durs[0], size=rng.choice(SIZES))], [inv(rng.choice(DEATHS), dur=durs[1])]], 'concurrent-2'))
    if thorough:
        for durs in itertools.permutations([1, 2, 3, 4]):
            out.append(scenario([[rand_inv(rng) | {'dur': d}] for d in durs], 'concurrent-4'))
    # (c) sequences: fd numbers of a finished invocation are re-used by the next one
    out.append(scenario([[inv(['ret'], dur=1), inv(['ret'], dur=1), inv(['ret'], dur=1)]], 'sequence'))
    out.append(scenario([[inv(['death', 'osExit'], dur=1), inv(['ret'], dur=1), inv(['exc'], dur=1)]], 'sequence'))
    out.append(scenario([[inv(['exc'], dur=0), inv(['death', 'signal'], dur=1), inv(['ret'], dur=1, size=1 << 20)]], 'sequence'))
    out.append(scenario([[inv(['ret'], dur=1), inv(['ret'], dur=2)], [inv(['ret'], dur=2), inv(['base'], dur=1, base='kbd')]], 'sequence+concurrent'))
    out.append(scenario([[inv(['midsend'], dur=0), inv(['ret'], dur=1)], [inv(['midsend'], dur=0)]], 'midsend+sequence'))
    # (d) wide: many concurrent invocations, all the same instant / staggered
    out.append(scenario([[inv(['ret'], dur=1, size=1 << 20)] for _ in range(4)], 'wide-big'))
    out.append(scenario([[inv(c, dur=1)] for c in DEATHS] + [[inv(['ret'], dur=1)]], 'wide-deaths'))
    # (f) MORE concurrent invocations than the machine has cores (any limit on the number of simultaneously running children has to
    #     make the surplus wait, not fail), and SEVERAL EVENT LOOPS one after the other in the same interpreter (`asyncio.run` per round:
    #     two requests of a sync web worker, two test cases): every invocation of every round must get its own result.  The wide
    #     scenarios go through ONE decorated function per callee kind (a module-level `@in_subprocess def`), as user code does.
    big_n = 2 * CPUS + 3
    out.append(scenario(None, 'wide-rounds', rounds=[wide(CPUS + 1), wide(CPUS + 1), wide(CPUS + 1)]))
    out.append(scenario(None, 'wide-rounds', rounds=[wide(big_n, is_async=True, dur=[1, 0, 2]), wide(big_n, is_async=True, dur=[0, 1])]))
    out.append(scenario(None, 'wide-rounds-mixed', rounds=[wide(CPUS + 2, kinds=[['ret'], ['exc'], ['death', 'osExit']], form='func', share=False, dur=[0, 1, 2]),
                                                          wide(CPUS + 2, kinds=[['exc'], ['ret'], ['base'], ['ret']], form='func', share=False, dur=[1, 0])]))
    out.append(scenario(wide(big_n, kinds=[['ret'], ['ret'], ['exc']], dur=[1, 2]), 'wide'))
    out.append(scenario(None, 'rounds', rounds=[[[inv(['ret'], dur=1), inv(['ret'], dur=0)], [inv(['exc'], dur=1, is_async=True)]],
                                                [[inv(['death', 'signal'], dur=0), inv(['ret'], dur=1, form='func')]],
                                                [[inv(['ret'], dur=1, size=1 << 20)], [shared(inv(['ret'], dur=0))], [inv(['base'], dur=1)]],
                                                [[shared(inv(['ret'], dur=0))]]]))
    out.append(scenario(None, 'rounds', rounds=[[[shared(inv(['ret'], dur=1, form=f))]] for f in ('deco', 'func', 'deco')]))
    if thorough:
        out.append(scenario(None, 'wide-rounds', rounds=[wide(big_n, form='func')] * 3))
        out.append(scenario(None, 'wide-rounds', rounds=[wide(CPUS + 1, form='func', share=False, dur=[0, 1])] * 4))
        out.append(scenario(None, 'wide-rounds', rounds=[wide(3), wide(CPUS + 1), wide(2), wide(CPUS + 4, kinds=[['ret'], ['death', 'beforeRun']])]))
        out.append(scenario(None, 'wide-rounds-spawn', rounds=[wide(CPUS + 1, kinds=[['spawn', 'func'], ['spawn', 'deco']], is_async=True)] * 2))
        out.append(scenario(wide(CPUS + 1, kinds=[['spawn', 'process'], ['ret']]), 'wide-spawn'))
        out.append(scenario(wide(4 * CPUS + 1, dur=[0, 1, 2, 3]), 'wide'))
        for k in range(40):
            nr = rng.randint(2, 4)
            out.append(scenario(None, 'random-rounds', rounds=[
                [[rand_inv(rng, maxdur=2) | ({'share': True} if rng.random() < 0.5 else {}) for _ in range(1 if rng.random() < 0.7 else 2)]
                 for _ in range(rng.choice([1, 2, 3, CPUS + 1] if k % 8 == 0 else [1, 2, 3]))] for _ in range(nr)]))
    # (g) callees that end only when the caller says so (the callee waits for an event — a pipe the parent writes to —  that the parent sets as soon as another
    #     invocation has handed over its result): "arbitrary relative durations" with the order fixed BY DESIGN, no timing involved.
    #     g1: an invocation whose child dies without a result, started in the same loop iteration as siblings that outlive it — it must end
    #         (ChildProcessError) while they are still running (nothing of invocation A may be kept open by the children of the others);
    #     g2: more pending invocations than any default thread pool has workers (min(32, cpu_count + 4) <= 32) and one short invocation
    #         started after them, which the long ones wait for — an invocation must not need a slot of anything to get its result.
    for k, c in enumerate(DEATHS):
        sib = [[inv((['ret'], ['exc'])[j % 2], dur=0, gate=['A'], is_async=(j % 3 == 2), form=('deco', 'func')[(j + k) % 2])] for j in range(6)]
        pos = (0, 3, 6)[k % 3]
        out.append(scenario(sib[:pos] + [[inv(c, dur=0, key='A', base=('sysexit', 'kbd')[k % 2], form=('deco', 'func')[k % 2])]] + sib[pos:], 'gated-death'))
    out.append(scenario([[inv(['death', 'osExit'], dur=0, key='A')], [inv(['death', 'signal'], dur=1, key='B')]]
                        + [[shared(inv(['ret'], dur=0, gate=['A', 'B']))] for _ in range(5)], 'gated-death'))
    out.append(scenario([[inv(['ret'], dur=0, key='A'), inv(['death', 'osExit'], dur=0, key='B')]]
                        + [[inv(['ret'], dur=0, gate=['B'])] for _ in range(4)] + [[inv(['ret'], dur=1)]], 'gated-death+sequence'))
    n_long = max(36, CPUS + 8)
    out.append(scenario([[shared(inv(['ret'], dur=0, gate=['S']))] for _ in range(n_long)] + [[inv(['ret'], dur=0, key='S', form='func')]], 'wide-gated'))
    out.append(scenario([[inv(['ret'], dur=0, gate=['S'], form='func', is_async=(j % 2 == 1))] for j in range(n_long)]
                        + [[inv(['ret'], dur=1), inv(['exc'], dur=0, key='S')]], 'wide-gated'))
    if thorough:
        out.append(scenario(None, 'wide-gated-rounds', rounds=[[[shared(inv(['ret'], dur=0, gate=['S']))] for _ in range(n_long)] + [[inv(['death', 'osExit'], dur=0, key='S')]]] * 2))
        for c in DEATHS:
            for n_sib in (1, 2, 12):
                for pos in sorted({0, n_sib // 2, n_sib}):
                    sib = [[inv(['ret'], dur=rng.randint(0, 1), gate=['A'], is_async=rng.random() < 0.3, form=rng.choice(['deco', 'func']))] for _ in range(n_sib)]
                    out.append(scenario(sib[:pos] + [[inv(c, dur=rng.randint(0, 1), key='A', is_async=rng.random() < 0.3)]] + sib[pos:], 'gated-death'))
    for k in range(40 if thorough else 3):
        first = rand_inv(rng, maxdur=1) | {'key': 'A'}
        others = [[rand_inv(rng, maxdur=1) | ({'gate_keys': ['A']} if rng.random() < 0.7 else {})] for _ in range(rng.randint(1, 5))]
        pos = rng.randint(0, len(others))
        out.append(scenario(others[:pos] + [[first]] + others[pos:], 'random-gated'))
    out += held_cases(rng, thorough)
    out += shape_cases(rng, thorough)
    out += cancel_cases(rng, thorough)
    nmax = 8 if thorough else 6
    for k in range(0 if thorough else 4):
        out.append(scenario(None, 'random-rounds', rounds=[
            [[rand_inv(rng, maxdur=2) | ({'share': True} if rng.random() < 0.5 else {}) for _ in range(1 if rng.random() < 0.7 else 2)]
             for _ in range(rng.randint(1, 3))] for _ in range(rng.randint(2, 3))]))
    # (e) seeded mixes
    for k in range(420 if thorough else 17):
        nt = rng.randint(1, nmax)
        budget = nmax
        tasks = []
        for _ in range(nt):
            ln = 1 if rng.random() < 0.6 else rng.randint(2, 3)
            ln = max(1, min(ln, budget - (nt - len(tasks) - 1)))
            budget -= ln
            tasks.append([rand_inv(rng, maxdur=3 if ln > 1 else 4) for _ in range(ln)])
        out.append(scenario(tasks, 'random'))
    if thorough:
        # every death kind at every position of 3 concurrent + 1 sequential follower
        for c in DEATHS + [['aftersend']]:
            for pos in range(3):
                tasks = [[inv(['ret'], dur=2 - (i % 2))] for i in range(3)]
                tasks[pos] = [inv(c, dur=1 + pos % 2, base=('sysexit', 'kbd')[pos % 2]), inv(['ret'], dur=1)]
                out.append(scenario(tasks, 'death-position'))
        for n in (7, 8):
            out.append(scenario([[rand_inv(rng)] for _ in range(n)], 'wide-random'))
    return out


def search(rng, tier, near):
    """the property is no longer shown to hold (proof or correspondence broken): look for a concrete failing input among
    the scenarios that exercise every protocol statement — child deaths, raising callees, re-used fd numbers"""
    out = []
    for c in DEATHS:
        out.append(scenario([[inv(c, dur=1)]], 'search'))
    out.append(scenario([[inv(['exc'], dur=1)]], 'search'))
    for is_async, form in itertools.product([False, True], ['deco', 'func']):
        out.append(scenario([[inv(['ret'], dur=LONG_DUR + 1, is_async=is_async, form=form)]], 'search'))
        out.append(scenario([[inv(['exc'], dur=LONG_DUR, is_async=is_async, form=form)], [inv(['ret'], dur=LONG_DUR + 2)]], 'search'))
    for e in EXCS_PROTOCOL:
        for is_async, form in itertools.product([False, True], ['deco', 'func']):
            out.append(scenario([[inv(['exc'], exc=e, dur=0, is_async=is_async, form=form)]], 'search'))
        out.append(scenario([[inv(['retexc'], exc=e, dur=0)]], 'search'))
    out.append(scenario([[inv(['ret'], dur=1), inv(['ret'], dur=1)]], 'search'))
    out.append(scenario([[inv(['ret'], dur=2, size=1 << 20)]], 'search'))
    for c in SPAWNS:
        out.append(scenario([[inv(c, dur=1, is_async=True)]], 'search'))
        out.append(scenario([[inv(c, dur=1)]], 'search'))
    out.append(scenario([[inv(['linger', 'ret'], dur=0, linger=LINGER_T)]], 'search'))
    out.append(scenario([[inv(['linger', 'exc'], dur=0, linger=LINGER_Q, is_async=True)]], 'search'))
    # state kept between invocations / between event loops: many at once, loop after loop, through one decorated function and through
    # calculate_in_subprocess
    for n in (2, CPUS + 1, 2 * CPUS + 3, 4 * CPUS + 1):
        for form in ('deco', 'func'):
            out.append(scenario(None, 'search', rounds=[wide(n, form=form)] * 3))
    out.append(scenario(None, 'search', rounds=[[[shared(inv(['ret'], dur=0))]]] * 6))
    # something of one invocation held by another / a bounded resource per pending invocation: gated callees (see cases (g))
    for c in DEATHS:
        for n_sib, pos in ((1, 0), (1, 1), (6, 0), (6, 3), (6, 6), (20, 10)):
            sib = [[inv(['ret'], dur=0, gate=['A'])] for _ in range(n_sib)]
            out.append(scenario(sib[:pos] + [[inv(c, dur=0, key='A')]] + sib[pos:], 'search'))
    for n in (8, 16, 33, 40, max(36, CPUS + 8), 2 * CPUS + 9):
        out.append(scenario([[shared(inv(['ret'], dur=0, gate=['S']))] for _ in range(n)] + [[inv(['ret'], dur=0, key='S')]], 'search'))
    # descriptor numbers at / above FD_SETSIZE, and callables whose call signature is not what introspection reports
    for h in (HELD_HIGH, FD_SETSIZE, 3000):
        for is_async, form in itertools.product([False, True], ['deco', 'func']):
            out.append(scenario([[inv(['ret'], dur=1, is_async=is_async, form=form)]], 'search', held=h))
        out.append(scenario([[inv(['exc'], dur=0)], [inv(['death', 'osExit'], dur=1)], [inv(['ret'], dur=0, size=70000)]], 'search', held=h))
    out.append(scenario(wide(14), 'search', held=FD_SETSIZE - 16))
    for how in ('cancel', 'timeout'):
        for is_async, form in itertools.product([False, True], ['deco', 'func']):
            out.append(scenario([[inv(['ret'], dur=0, cancel=how, is_async=is_async, form=form)]], 'search'))
    out.append(scenario([[inv(['ret'], dur=0, cancel='cancel'), inv(['ret'], dur=0)], [inv(['ret'], dur=1)]], 'search'))
    for sh in SHAPES:
        for is_async, form in itertools.product([False, True], ['deco', 'func']):
            if SHAPES[sh][0] or not is_async:
                out.append(scenario([[inv(['ret'], dur=0, shape=sh, is_async=is_async, form=form)]], 'search'))
    for _ in range(12):
        out.append(scenario([[rand_inv(rng) for _ in range(rng.randint(1, 3))] for _ in range(rng.randint(1, 3))], 'search'))
    return out


# ------------------------------------------------------------------------------------------------ implementation side

def ticker_judged(x):
    """the invocations the non-blocking clause is judged on with the ticker: the callee deliberately takes >= LONG_DUR quanta (the loop has
    that long to run other tasks), the event loop is not crowded, no child lingers (those scenarios are judged on the measured stall), the
    loop is not frozen on purpose by the observer (blocker)"""
    if x.get('blocker') or any('linger' in v for v in x['invs']):
        return []
    crowded = {i for rd in (x.get('rounds') or [x['tasks']]) if len(rd) > TICKER_MAX_CHAINS for ids in rd for i in ids}
    return [i for i, v in enumerate(x['invs']) if v['dur'] >= LONG_DUR and i not in crowded and v['callee'] != ['death', 'beforeRun']]


def run_one(runner, case, env, scale=1):
    x = case['x']
    watchdog = WATCHDOG * scale
    hard = watchdog + (HARD - WATCHDOG)
    sc = {'invs': x['invs'], 'tasks': x['tasks'], 'rounds': x.get('rounds'), 'held': x.get('held'), 'blocker': x.get('blocker', 0), 'q': Q, 'watchdog': watchdog,
          'control': CONTROL_S if (ticker_judged(x) or any('linger' in v for v in x['invs'])) else 0}
    t0 = time.time()
    dbg = os.environ.get('C17_DEBUG')
    p = subprocess.Popen([sys.executable, '-B', runner, json.dumps(sc)], stdout=subprocess.PIPE,
                         stderr=(None if dbg else subprocess.DEVNULL), stdin=subprocess.DEVNULL, env=env, start_new_session=True)
    out, timed_out = b'', False
    try:
        # the hard limit is per event loop: the runner writes a line when a round has ended, the last line is its report
        deadline = time.time() + hard
        while True:
            ready, _, _ = select.select([p.stdout], [], [], max(0.0, min(0.2, deadline - time.time())))
            if ready:
                chunk = os.read(p.stdout.fileno(), 1 << 16)
                if not chunk:
                    break
                out += chunk
                if b'\n' in chunk:
                    deadline = time.time() + hard
            elif p.poll() is not None:
                # the runner has ended (children of hung invocations may still hold the pipe open): read what it wrote and stop
                while select.select([p.stdout], [], [], 0)[0]:
                    chunk = os.read(p.stdout.fileno(), 1 << 16)
                    if not chunk:
                        break
                    out += chunk
                break
            elif time.time() >= deadline:
                timed_out = True
                out = b''
                break
    finally:
        try:
            os.killpg(p.pid, signal.SIGKILL)      # the scenario's process group: stragglers of a hung invocation
        except (ProcessLookupError, PermissionError):
            pass
        try:
            p.communicate(timeout=5)
        except Exception:
            pass
    n = len(x['invs'])
    line = out.decode('utf-8', 'replace').strip().splitlines()[-1:] if out else []
    if timed_out or not line:
        if not timed_out and p.returncode not in (0, None) and p.returncode > 0:
            # the runner itself failed (import error of the library, …): report, do not call it a hang
            return {'out': [['runner-error', p.returncode]] * n, 'hang': False, 'frozen': False, 'terminates': False,
                    'released': None, 'pid_differs': [None] * n, 'ticker_ok': None, 'wall_s': round(time.time() - t0, 2)}
        # nothing came back within the hard limit: the event loop itself was frozen (synchronous block) — everything hangs
        return {'out': [['hang']] * n, 'hang': True, 'frozen': True, 'terminates': False, 'released': None,
                'pid_differs': [None] * n, 'ticker_ok': None, 'watchdog_s': watchdog, 'hard_s': hard, 'wall_s': round(time.time() - t0, 2)}
    r = json.loads(line[0])
    outs = [['hang'] if o[0] in ('hang', 'notrun') else o for o in r['out']]
    tick_bad = []
    lingers = [s['linger'] for s in x['invs'] if 'linger' in s]
    # the ticker: ticks an invocation saw while it was pending, against what the CONTROL ticker of the same process got per second right
    # before the scenario (a plain asyncio.sleep, nothing of the library running) over the time the callee deliberately takes.  A control
    # that is itself starved says the machine is too busy: no verdict (ticker_ok None), the scenario is run again alone.
    judged = ticker_judged(x)
    ctl = r.get('control')
    ticker_ok, control_starved = None, False
    if judged:
        if not ctl or ctl['rate'] < CONTROL_MIN_RATE:
            control_starved = True
        else:
            for i in judged:
                if r['out'][i][0] in ('hang', 'notrun'):
                    continue
                want = ctl['rate'] * x['invs'][i]['dur'] * Q
                if r['ticks'][i] < TICKER_FRACTION * want:
                    tick_bad.append([i, r['wall'][i], r['ticks'][i], round(want, 1)])
            ticker_ok = not tick_bad
    released = None
    if not r['hang']:
        released = (r['fd_delta'] == 0 and r['children_left'] == 0 and r['open_conns'] == 0 and r['selector_delta'] == 0)
    return {'out': [o[:2] if o[0] != 'other' else ['other'] for o in outs], 'classes': [o[1] if o[0] == 'other' else None for o in outs],
            'hang': r['hang'], 'frozen': False, 'terminates': not r['hang'], 'released': released,
            'resources': {'fd_delta': r['fd_delta'], 'children_left': r['children_left'], 'open_conns': r['open_conns'],
                          'selector_delta': r['selector_delta']},
            'pid_differs': r['pid_differs'], 'ticker_ok': ticker_ok, 'ticker_bad': tick_bad, 'ticker_judged': judged, 'control': ctl,
            'control_starved': control_starved, 'watchdog_s': watchdog, 'order': r['order'],
            'left_after_await': r.get('left_after_await', [0] * n),
            'direct': {k: (v['out'][:2] if v['out'][0] != 'other' else ['other', v['out'][1]]) for k, v in (r.get('direct') or {}).items()},
            'stall_s': r.get('stall', 0) if lingers else None, 'held': r.get('held', 0), 'held_short': bool(r.get('held_short')), 'max_fd': r.get('max_fd'),
            'errors': r['errors'], 'wall_s': round(time.time() - t0, 2)}


def run_impl(cases):
    d = tempfile.mkdtemp(prefix='c17_')
    try:
        runner = os.path.join(d, 'c17_scenario.py')
        with open(runner, 'w') as f:
            f.write(RUNNER)
        env = dict(os.environ)
        env['PYTHONDONTWRITEBYTECODE'] = '1'
        with ThreadPoolExecutor(max_workers=WORKERS) as ex:
            res = list(ex.map(lambda c: run_one(runner, c, env), cases))
        # ---- nothing timing-dependent counts on the strength of one run made while a dozen scenarios (some with dozens of children) and
        # whatever else the machine is doing compete for the cores.  The watchdog (HANG), the ticker and the measured stall depend on the
        # load; so every SUSPECTED failure — a property failure that is not a recorded finding, or a disagreement with the model — is
        # re-run ALONE up to CONFIRM_RUNS times with watchdog and hard limit CONFIRM_SCALE times longer and counts only if it shows again
        # every time (a deterministic defect does; scheduling noise does not).  The first confirmed suspect establishes the violation:
        # the remaining ones keep their first-run result.  A scenario whose control ticker was starved has no ticker verdict: it is run
        # again alone as well.  All of it is recorded in the result (confirm_runs, first_run) and counted in the evidence.
        import core
        model = core.run_driver(cases)

        def suspect(c, r, m):
            j = judge(c, r, m)
            return bool((j['pfail'] and not j['finding']) or not j['corr'])
        def confirm(k):
            """re-run scenario k alone until the suspicion does not show (-> False, the passing run is kept) or it has shown CONFIRM_RUNS times"""
            first = res[k]
            # (a scenario that is the only one of this call — a replay — ran alone the first time already: that run counts as one)
            for attempt in range(2 if len(cases) == 1 else 1, CONFIRM_RUNS + 1):
                r2 = run_one(runner, cases[k], env, scale=CONFIRM_SCALE)
                r2['confirm_runs'] = attempt
                r2['first_run'] = first.get('first_run') or {f: first.get(f) for f in ('out', 'hang', 'frozen', 'ticker_bad', 'stall_s', 'resources', 'control', 'wall_s')}
                for f in ('control_reruns',):
                    if f in first:
                        r2[f] = first[f]
                res[k] = r2
                if not suspect(cases[k], r2, model[k]):
                    r2['suspicion_not_reproduced'] = True
                    return False
            return True
        confirmed = False
        def few_gated(k):
            # a hang that needs another invocation's fork to fall into a window shows the more reliably the more siblings there are:
            # scenarios with only a few gated siblings are tried after everything else
            ng = sum(1 for v in cases[k]['x']['invs'] if v.get('gate') and not v.get('cancel'))
            return 1 if 0 < ng < 4 else 0
        for k in sorted((k for k in range(len(cases)) if suspect(cases[k], res[k], model[k])), key=lambda k: (few_gated(k), len(json.dumps(cases[k]['c'])))):
            if confirmed:
                break
            confirmed = confirm(k)
        for k in [k for k in range(len(cases)) if res[k].get('control_starved') and not res[k].get('confirm_runs')][:CONTROL_RERUNS]:
            if confirmed:
                break
            for attempt in (1, 2):
                r2 = run_one(runner, cases[k], env, scale=CONFIRM_SCALE)
                r2['control_reruns'] = attempt
                if not r2.get('control_starved'):
                    break
            res[k] = r2
            if suspect(cases[k], r2, model[k]):
                confirmed = confirm(k)
        return res
    finally:
        shutil.rmtree(d, ignore_errors=True)


# ------------------------------------------------------------------------------------------------ verdict

SHAPE_TEXT = {
    'rename': "pedantic's own @rename_kwargs(Rename(from_='label', to='tag')) around callee(idx, *, tag), called f(i, label='t<i>')",
    'rename-plain': "@rename_kwargs(label -> tag) around callee(idx, *, tag), called with the declared name f(i, tag='t<i>')",
    'extra-kw': "functools.wraps decorator `wrapper(*args, suffix='', **kw)` that appends suffix to tag, called f(i, tag='t', suffix='<i>')",
    'extra-kw-unused': "functools.wraps decorator `wrapper(*args, suffix='', **kw)`, called f(i, tag='t<i>')",
    'extra-pos': "functools.wraps decorator `wrapper(prefix, *args, **kw)` that prepends prefix to tag, called f('t', i, tag='<i>')",
    'inject': "functools.wraps decorator that supplies the keyword tag itself, called f(i)",
    'passthru': "functools.wraps decorator `wrapper(*args, **kw)` that changes nothing, called f(i, tag='t<i>')",
    'sig-narrow': "callee(idx, *, tag) whose __signature__ attribute claims (idx), called f(i, tag='t<i>')",
    'sig-wide': "callee(idx, *, tag) whose __signature__ attribute claims (*a, **k), called f(i, tag='t<i>')",
    'partial': "functools.partial(callee, tag='t<i>'), called f(i)",
    'method': "bound method run(self, i, *, tag), called f(i, tag='t<i>')",
    'callable-object': "object with __call__(self, i, *, tag), called f(i, tag='t<i>')",
    'misfit-kw': "callee(idx, *, tag) called f(i, tag='t<i>', verbose=True): the call itself raises TypeError",
    'misfit-missing': "callee(idx, *, tag) called f(i): the call itself raises TypeError",
    'misfit-sig-ok': "callee(idx, *, tag) whose __signature__ claims (*a, **k), called f(i, tag='t<i>', verbose=True): the call itself raises TypeError",
}

def judge(case, impl, model):
    m, s = model['model'], model['spec']
    x = case['x']
    n = len(x['invs'])
    why = []
    if impl['out'] != m['out']:
        why.append(f"outcomes {impl['out']} vs model {m['out']}")
    if impl['terminates'] != m['terminates']:
        why.append(f"terminates {impl['terminates']} vs model {m['terminates']}")
    if impl['terminates'] and m['terminates'] and impl['released'] != m['released']:
        why.append(f"released {impl['released']} {impl.get('resources')} vs model {m['released']}")
    lingers = [k['linger'] for k in x['invs'] if 'linger' in k]
    stalled = None
    if lingers and impl.get('stall_s') is not None and not impl.get('hang'):
        # the longest time the event loop ran no other task; a stall = at least half the shortest linger time
        stalled = impl['stall_s'] >= 0.5 * min(lingers)
        expected = bool(m.get('loopFrozenWhileLingering'))
        if stalled != expected:
            why.append(f"event loop stalled {impl['stall_s']} s (stall: {stalled}) vs model: frozen inside join behind invocation(s) {m.get('stall')}: {expected}")
    corr = not why
    pfail = None
    finding = None
    if any(o[0] == 'runner-error' for o in impl['out']):
        pfail = f"the scenario process could not run the library at all (exit code {impl['out'][0][1]})"
    # an invocation that others are gated on is looked at first: when it hangs, theirs hanging too is a consequence
    for i in sorted(range(n), key=lambda i: bool(x['invs'][i].get('gate'))):
        if pfail:
            break
        o = impl['out'][i]
        kind = x['invs'][i]['callee'] + ([x['invs'][i]['exc']] if 'exc' in x['invs'][i] else [])
        if o == ['hang'] and s['terminates']:
            waiting = [j for j in range(n) if i in (x['invs'][j].get('gate') or [])]
            pfail = (f"HANG: invocation {i} (callee {kind}) was still pending {impl.get('watchdog_s', WATCHDOG)} s after the start"
                     + (' — the whole event loop was frozen' if impl.get('frozen') else '')
                     + (f"; the callees of invocations {waiting} end only after it has handed over its result (they wait for an event the caller "
                        f"sets then): it has to end while they are still running" if waiting else '')
                     + (f"; its callee ends only after invocations {x['invs'][i]['gate']} have ended" if x['invs'][i].get('gate') else ''))
        elif str(i) in impl.get('direct', {}) and (kind[0] == 'spawn' and impl['direct'][str(i)][:1] == ['ret']
                                                   or x['invs'][i].get('shape') and impl['direct'][str(i)] in s['allowed'][i]) \
                and (o != impl['direct'][str(i)] or o not in s['allowed'][i]):
            cls = (impl.get('classes') or [None] * n)[i]
            what = 'starts a process of its own' if kind[0] == 'spawn' else f"callable of shape {x['invs'][i].get('shape')!r}: {SHAPE_TEXT.get(x['invs'][i].get('shape'), '')}"
            pfail = (f"invocation {i} (callee {kind}, {what}): called directly with the same arguments it "
                     f"{'returns' if impl['direct'][str(i)][0] == 'ret' else 'raises'} {impl['direct'][str(i)]}, awaited through "
                     f"{'@in_subprocess' if x['invs'][i]['form'] == 'deco' else 'calculate_in_subprocess'} the caller got {o + ([cls] if cls else [])}"
                     + (f"; the process held {impl.get('held')} other descriptors open (highest descriptor number {impl.get('max_fd')})" if impl.get('held') else ''))
        elif str(i) in impl.get('direct', {}) and x['invs'][i].get('shape') and impl['direct'][str(i)] not in s['allowed'][i]:
            # the harness's own decorator / call is wrong: called directly the shaped callable does not give the base callee's outcome
            pfail = None
            why.append(f"scenario error: invocation {i} of shape {x['invs'][i].get('shape')!r} called directly gives {impl['direct'][str(i)]}, expected {s['allowed'][i]}")
            corr = False
        elif o not in s['allowed'][i]:
            cls = (impl.get('classes') or [None] * n)[i]
            pfail = (f"invocation {i} (callee {kind}" + (f", callable of shape {x['invs'][i]['shape']!r}" if x['invs'][i].get('shape') else '')
                     + f") handed its caller {o + ([cls] if cls else [])}, the property allows {s['allowed'][i]}"
                     + (f"; the process held {impl.get('held')} other descriptors open (highest descriptor number {impl.get('max_fd')})" if impl.get('held') else ''))
        elif impl['pid_differs'][i] is False:
            pfail = f"invocation {i} ran in the parent process"
    if not pfail and impl['ticker_ok'] is False and not stalled:
        pfail = (f"the event loop did not run other tasks while an invocation was pending: [invocation, wall s, ticks of a 10 ms ticker, ticks the "
                 f"control ticker got in the callee's {LONG_DUR * Q}+ s] {impl['ticker_bad']} (control: {impl.get('control')})")
    def cancel_text(i):
        cn = x['invs'][i].get('cancel')
        return '' if not cn else (", the awaiting task was cancelled while the callee was working" if cn['how'] == 'cancel' else
                                  ", awaited with asyncio.wait_for and timed out while the callee was working")
    if not pfail and s['released'] and any(impl.get('left_after_await') or []):
        i = next(i for i, k in enumerate(impl['left_after_await']) if k)
        pfail = (f"invocation {i} (callee {x['invs'][i]['callee']}" + (f", child lingers {x['invs'][i]['linger']} s after its send" if 'linger' in x['invs'][i] else '')
                 + cancel_text(i)
                 + f") handed over its {'result' if not x['invs'][i].get('cancel') else 'outcome ' + str(impl['out'][i])} while {impl['left_after_await'][i]} "
                   f"child process(es) it is responsible for were still there (running or un-reaped)")
        # the recorded region: the invocation was cancelled, and the model too says that it has not released what it had
        if x['invs'][i].get('cancel') and impl['out'] == m['out'] and m.get('releasedEach') and m['releasedEach'][i] is False:
            finding = 'cancelLeavesChildAndPipe'
    if not pfail and impl['released'] is False and s['released']:
        pfail = f"resources left behind after all invocations returned: {impl['resources']}"
        cancelled = [i for i in range(n) if x['invs'][i].get('cancel')]
        if cancelled:
            pfail += f"; invocation(s) {cancelled} were cancelled / timed out while pending"
            if impl['out'] == m['out'] and m.get('releasedEach') and all(m['releasedEach'][i] is False for i in cancelled) \
                    and all(r for i, r in enumerate(m['releasedEach']) if i not in cancelled):
                finding = 'cancelLeavesChildAndPipe'
    if not pfail and stalled:
        # every other clause holds for this scenario; the non-blocking clause does not
        who = [i for i in range(n) if 'linger' in x['invs'][i]]
        pfail = (f"the event loop ran no other task for {impl['stall_s']} s while invocation(s) {who} were pending (child lingers {lingers} s after its send): "
                 f"the coroutine sits in the synchronous process.join() until the child has exited"
                 + (f"; starved [invocation, wall s, ticks] {impl['ticker_bad']}" if impl.get('ticker_bad') else ''))
        # the recorded region: implementation == model (outcomes, termination, resources, and the model too has the loop frozen inside join
        # behind a lingering child) and the stall is about as long as the children linger — anything longer is something else
        if corr and m.get('stall') and impl['stall_s'] <= sum(lingers) + 1.0:
            finding = 'joinBlocksLoopWhileChildLingers'
    kinds = sorted({(k['callee'][0] if k['callee'][0] != 'death' else k['callee'][1]) for k in x['invs']})
    shapes = sorted({k['shape'] for k in x['invs'] if k.get('shape')})
    cancels = sorted({k['cancel']['how'] for k in x['invs'] if k.get('cancel')})
    held = max(x.get('held') or [0])
    seq = any(k['pred'] is not None for k in x['invs'])
    paths = sorted(set(m.get('path', [])))
    return {'corr': corr, 'pfail': pfail, 'finding': finding,
            'nontrivial': n > 1 or x['invs'][0]['callee'][0] != 'ret' or bool(x['invs'][0].get('cancel')),
            'tag': f"n={n}{'/seq' if seq else ''}{'/gated' if any(k.get('gate') for k in x['invs']) else ''}{'/loops=%d' % len(x['rounds']) if x.get('rounds') else ''}"
                   f"{'/wide' if any(len(r) > CPUS for r in (x.get('rounds') or [x['tasks']])) else ''}"
                   f"{'/held>=FD_SETSIZE' if held >= FD_SETSIZE else '/held' if held else ''}{'/shapes=' + '+'.join(shapes) if shapes else ''}"
                   f"{'/cancelled-by=' + '+'.join(cancels) if cancels else ''}"
                   f"/{'+'.join(kinds)}/{'+'.join(paths)}",
            'why': '; '.join(why)}


def extra_coverage(results):
    orders, walls, stalls, direct = set(), [], [], 0
    for (c, i, m, j) in results:
        if i.get('order') is not None and len(i['order']) <= 4:
            orders.add(tuple(i['order']))
        walls.append(i.get('wall_s', 0))
        if i.get('stall_s') is not None:
            stalls.append(i['stall_s'])
        direct += len(i.get('direct') or {})
    rates = [i['control']['rate'] for (c, i, m, j) in results if i.get('control')]
    return {'cancelled_invocations (task.cancel / wait_for timeout)': [sum(1 for (c, i, m, j) in results for v in c['x']['invs'] if (v.get('cancel') or {}).get('how') == h)
                                                                      for h in ('cancel', 'timeout')],
            'scenarios_with_held_descriptors': sum(1 for (c, i, m, j) in results if c['x'].get('held')),
            'scenarios_whose_descriptor_numbers_reached_FD_SETSIZE': sum(1 for (c, i, m, j) in results if (i.get('max_fd') or 0) >= FD_SETSIZE),
            'scenarios_that_could_not_hold_the_requested_descriptors (RLIMIT_NOFILE)': sum(1 for (c, i, m, j) in results if i.get('held_short')),
            'highest_descriptor_number_seen': max([i.get('max_fd') or 0 for (c, i, m, j) in results] or [0]),
            'invocations_with_a_callable_whose_signature_differs_from_what_introspection_reports': sum(
                1 for (c, i, m, j) in results for v in c['x']['invs'] if v.get('shape') in SHAPES_MISMATCH),
            'callee_shapes_exercised': sorted({v.get('shape', 'plain') for (c, i, m, j) in results for v in c['x']['invs']}),
            'suspected_failures_rerun_alone': sum(1 for (c, i, m, j) in results if i.get('confirm_runs')),
            'suspicions_not_reproduced_alone (scheduling noise)': sum(1 for (c, i, m, j) in results if i.get('suspicion_not_reproduced')),
            'suspicions_reproduced_in_every_run_alone': sum(1 for (c, i, m, j) in results if i.get('confirm_runs') == CONFIRM_RUNS and not i.get('suspicion_not_reproduced')),
            'confirmation_runs_total': sum(i.get('confirm_runs', 0) for (c, i, m, j) in results),
            'scenarios_rerun_because_the_control_ticker_was_starved': sum(1 for (c, i, m, j) in results if i.get('control_reruns')),
            'scenarios_without_ticker_verdict (control starved also alone)': sum(1 for (c, i, m, j) in results if i.get('control_starved')),
            'invocations_judged_with_the_ticker': sum(len(i.get('ticker_judged') or []) for (c, i, m, j) in results if i.get('ticker_ok') is not None),
            'control_ticker_rate_min_median_per_s': [round(min(rates), 1), round(sorted(rates)[len(rates) // 2], 1)] if rates else None,
            'distinct_completion_orders_up_to_4': len(orders), 'scenario_wall_max_s': max(walls or [0]),
            'invocations_compared_with_a_direct_call': direct, 'linger_scenarios': len(stalls),
            'max_event_loop_stall_s_in_linger_scenarios': max(stalls or [0]),
            'hang_watchdog_s': WATCHDOG, 'level_note': 'proof about the protocol model + correspondence on observable facts (partial: see assumptions)'}


def same_outcome(case, a, b):
    """amplified run (core.amplified_run): two executions of one scenario count as the same outcome when everything that is not a
    measurement or a scheduling decision agrees - results, exception classes, termination, resources, process identity.  Wall-clock
    figures (`wall_s`, `stall_s`), the completion order of concurrent invocations and the load-dependent ticker / freeze observations
    are judged per execution by `judge`, never compared."""
    keys = ('out', 'classes', 'hang', 'terminates', 'released', 'resources', 'pid_differs', 'errors')
    return all(a.get(k) == b.get(k) for k in keys)
