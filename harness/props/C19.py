"""C19 — docstring checking: generated real modules (signature x Google-style docstring x single edit x trigger path) run
through the library at import time, against the Lean model `Docstring` (pedantic.decorator trigger, _check_docstring,
_assert_docstring_is_complete, _parse_documented_type, _update_context, typing construction/equality) and the Lean spec."""
import ast, os, sys, json, tempfile, shutil, importlib.util, itertools, types, typing

RULE = ('signatures with 0-3 parameters (annotated from a pool of 27 annotations: the 19 of the property + nested/PEP 604/builtin '
        'extras, some parameters unannotated) and return annotation (pool / None / absent) x the consistent Google-style '
        'docstring rendered from the signature in a random equal spelling (Optional/Union/| permutations, Literal order, section '
        'title synonyms, documentation order; variadic parameters *args / **kwargs, whose NAMES are args / kwargs; def and async def) x every single '
        'edit (drop / add / rename / duplicate / reorder a parameter; rename to a NEAR name: 1-3 leading `*`, trailing `*`, `*x*`, leading / trailing / '
        'inner `_`, `__x__`, upper case, capitalised, a blank inside, proper prefix / suffix, last letter doubled, backticks, `self.x`, trailing hyphen — '
        'enumerated for 7 signatures with realistic names incl. variadic ones x every parameter x def / async def x every trigger path incl. methods of a '
        'pedantic_class_require_docstring class, sampled inside the seeded signatures; change '
        'the documented type to something that merely NAMES the annotation — the bare origin of a parametrised type at the top and at every inner '
        'subscript in the typing and the builtin spelling, the outer type with one argument dropped, every string the annotation object or its '
        'origin reports as __name__ / __qualname__ / _name — for every pool annotation x spelling x {parameter, Returns, next to a correct '
        'neighbour} x trigger path (enumerated), change '
        'the documented type at every node of its syntax tree, drop the type, typing. prefix, undefined name, class outside the '
        'context, unparsable text, wrong arity, drop / add / alter / untype Returns — also a Returns section with free text without a `type:` prefix '
        '(8 texts, one- and two-line), with nothing in it, with white space only: added to functions returning None (`-> None`, no annotation, `__init__`; '
        '0-2 parameters; def / async def) and replacing the typed entry of value-returning ones —, missing / empty / summary-only docstring) x '
        'trigger paths (@pedantic, @pedantic_require_docstring, @pedantic(require_docstring=True), pedantic_class_require_docstring '
        'on a class with 1-2 methods, pedantic_class (methods are @pedantic functions), ENABLE_PEDANTIC=0); CLASS HIERARCHIES: the decorated class '
        'derives from a class decorated before with pedantic_class / pedantic_class_require_docstring / trace_class / timer_class / '
        'for_all_methods(pedantic), directly or one level up (also an undecorated base, no base), and defines a new method / an override / __init__ / a '
        'coroutine with the consistent docstring, every single edit of it or none; the finite grid trigger x raw docstring kind x number of documented '
        'parameters is enumerated.  EVERY FUNCTION A CLASS HOLDS: for each of the 7 non-empty subsets of {getter, setter, deleter} of a property x '
        'the way it is written (`@property` / `@x.setter` / `@x.deleter`, the chain starting at `x = property()` when there is no getter; '
        '`x = property(fget=…, …)` of functions deleted from the class body afterwards; the same without the `del`) x each accessor of the subset: '
        'that accessor with the consistent docstring, every single edit of it, no / an empty / a summary-only docstring, the others consistent, '
        'under pedantic_class_require_docstring and pedantic_class, alone or next to a consistent method; likewise static methods, class methods and '
        'methods (3 signatures) next to a full property; outcome for a class = exception class, or whether ALL / SOME / NONE of the functions it '
        'holds came back as wrappers.  THE SAME `def` EXECUTED AGAIN: an inner function of a factory, the body of a loop, a class defined in a '
        'factory, a reloaded module (equal code objects) whose annotation in a parameter or the return is a variable, executed 2-3 times with the '
        'value the docstring documents (A), an equal spelling (E), another type (B) in the orders AB BA AE AAB ABA EA AA, every function '
        'decorator.  HOW THE DECORATOR IS APPLIED: `@decorator` syntax or a call after the definition (`C = pedantic_class_require_docstring(C)`, '
        '`f = pedantic(f)`; the module is registered in sys.modules while it runs, so the class can be found under its qualified name) — every '
        'second class of the hierarchies, every fourth seeded signature, and enumerated: an overriding method (`keep`, `__init__`) with no / an '
        'empty / the consistent docstring under each of the 7 bases (whose method of that name is documented consistently with the same '
        'signature) x both class decorators x both forms.  Each case is a real .py module imported from a temp dir; outcome = exception class raised '
        'by the import (or none) and whether a wrapper was returned.  non-trivial = docstring checking applies')
EXHAUSTIVE = {'quick': False, 'thorough': False}
ASSUMPTIONS = [
    'docstring_parser is installed (without it `decorated_func.docstring` is None and nothing is ever checked, also not with require_docstring)',
    'pedantic is enabled unless the case says otherwise (ENABLE_PEDANTIC unset / "0" set by the harness around the import)',
    'annotations are evaluated eagerly (no `from __future__ import annotations`); parameter names are distinct (Python syntax)',
    'the NAME of a parameter is its key in __annotations__ / inspect: `args` for `*args: T`, `kwargs` for `**kwargs: T`.  By the letter of the property '
    '("documents exactly the annotated parameters") `args (T)` documents the variadic parameter and `*args (T)` — the spelling the Google style guide uses — '
    'names no parameter: specification, model and library agree on this (the library rejects `*args (T)`); whether the starred spelling should be '
    'admitted for real variadic parameters is a design question for the integrator, not decided here',
    'the functions of a class are those `cls.__dict__` holds as plain functions, static methods, class methods and as the accessors of '
    '`property` objects (other descriptors — functools.cached_property, custom ones — are not looked at by the library and not generated)',
    'documented types use only identifiers the model knows (builtin classes, the typing names of the fragment, the module\'s '
    'own names My/Other/T, undefined names); the generator checks this for every case',
]
TRUSTED = [
    'docstring_parser 0.16 `parse` (style AUTO): the harness abstracts the generated docstring by calling it, exactly as '
    'DecoratedFunction does; where its result differs from the docstring as written (a Returns type with a blank that does not '
    'end in `]`) the case is reported as the parser-limitation region',
    'the meaning of a documented type for the *specification* is computed by the harness with the real interpreter: eval of the '
    'text in a clean namespace (typing names, builtins, the module\'s My/Other/T), abstracted by `to_val` (introspection of '
    '__origin__/__args__/type()); the Lean evaluator `evalD` and typing-object equality `annEq` are environment models, compared '
    'with the real eval / real `==` on every case (fields den_agree / eqs)',
    'Python `ast.parse(text, mode="eval")` gives the syntax tree that `eval(text, ...)` evaluates',
]

# ------------------------------------------------------------------------------------------------ typing side of the harness

class My: pass
class Other: pass
T = typing.TypeVar('T')
NSMOD = {k: getattr(typing, k) for k in typing.__all__}
NSMOD.update({'My': My, 'Other': Other, 'T': T})
NS_JSON = [['My', ['cls', 'My']], ['Other', ['cls', 'Other']], ['T', ['tvar', 'T']]]
# names a module may bind to such objects under ANOTHER identifier than their `__name__`: type aliases (of a class, of generics), a type
# variable bound under another identifier.  Only the modules of the alias family define them (ALIAS_SRC); evaluating every documented
# text in the larger namespace is harmless, because no other family ever writes these identifiers.
ALIAS_SRC = ('Alias = My\nIntList = List[int]\nStrList = List[str]\nTable = Dict[str, Optional[My]]\nU = TypeVar("T2")\nWrong = Other\n')
ALIASES = {'Alias': My, 'IntList': typing.List[int], 'StrList': typing.List[str], 'Table': typing.Dict[str, typing.Optional[My]],
           'U': typing.TypeVar('T2'), 'Wrong': Other}
NSMOD.update(ALIASES)
KNOWN = {'int', 'str', 'float', 'bool', 'list', 'dict', 'tuple', 'set', 'bytes',
         'List', 'Dict', 'Tuple', 'Set', 'Type', 'Optional', 'Union', 'Callable', 'Literal', 'Any'}
USER = {'My', 'Other', 'T', 'Foo', 'NoneType'} | set(ALIASES)   # Foo is defined nowhere; NoneType only ever through the context
HEADS = {list: 'List', dict: 'Dict', tuple: 'Tuple', set: 'Set', type: 'Type', typing.Literal: 'Literal'}


class OutsideFragment(Exception):
    pass


def to_val(o):
    """abstraction of a real typing object"""
    import collections.abc
    if isinstance(o, str): return ['str', o]
    if o is None: return ['none']
    if o is Ellipsis: return ['ellipsis']
    if isinstance(o, bool): return ['bool', o]
    if isinstance(o, int): return ['int', o]
    if isinstance(o, typing.TypeVar): return ['tvar', o.__name__]
    if isinstance(o, typing.ForwardRef): return ['fref', o.__forward_arg__]
    if isinstance(o, list): return ['pylist', [to_val(x) for x in o]]
    if isinstance(o, types.UnionType): return ['union', False, [to_val(a) for a in o.__args__]]
    if isinstance(o, types.GenericAlias): return ['balias', o.__origin__.__name__, [to_val(a) for a in o.__args__]]
    if o is typing.Any: return ['special', 'Any']
    org = typing.get_origin(o)
    if org is typing.Union: return ['union', True, [to_val(a) for a in o.__args__]]
    if org is collections.abc.Callable and hasattr(o, '__args__'): return ['talias', 'Callable', [to_val(a) for a in o.__args__]]
    if org in HEADS and hasattr(o, '__args__'): return ['talias', HEADS[org], [to_val(a) for a in o.__args__]]
    if isinstance(o, type): return ['cls', o.__name__]
    name = getattr(o, '_name', None)
    if name in KNOWN and str(o) == 'typing.' + name: return ['special', name]
    raise OutsideFragment(repr(o))


def to_expr(text):
    """syntax tree of a documented type (None: not an expression)"""
    try:
        tree = ast.parse(text, mode='eval').body
    except SyntaxError:
        return None

    def go(n):
        if isinstance(n, ast.Name):
            if n.id not in KNOWN and n.id not in USER:
                raise OutsideFragment('identifier ' + n.id)
            return ['name', n.id]
        if isinstance(n, ast.Attribute): return ['name', ast.unparse(n)]          # dotted names are bound nowhere
        if isinstance(n, ast.Constant):
            v = n.value
            if v is None: return ['none']
            if v is Ellipsis: return ['ellipsis']
            if isinstance(v, bool): return ['bool', v]
            if isinstance(v, int): return ['int', v]
            if isinstance(v, str): return ['str', v]
        if isinstance(n, ast.Subscript):
            args = n.slice.elts if isinstance(n.slice, ast.Tuple) else [n.slice]
            return ['sub', go(n.value), [go(a) for a in args]]
        if isinstance(n, ast.BinOp) and isinstance(n.op, ast.BitOr): return ['bor', go(n.left), go(n.right)]
        if isinstance(n, ast.List): return ['list', [go(a) for a in n.elts]]
        if isinstance(n, ast.Call) and ast.unparse(n) == 'exit()': return ['exit']     # raises SystemExit (no Exception)
        raise OutsideFragment(ast.dump(n))
    return go(tree)


_TT, _MEANING, _ANN, _PARSED = {}, {}, {}, {}


def ns_json(aliases):
    """the globals of the generated module as far as a documented name can refer to them"""
    if not aliases:
        return NS_JSON
    if 'v' not in _NS_ALIAS:
        _NS_ALIAS['v'] = NS_JSON + [[k, to_val(v)] for k, v in ALIASES.items()]
    return _NS_ALIAS['v']


_NS_ALIAS = {}


def tt(text):
    """(memoised: the results are shared between cases and never mutated)"""
    if text is None:
        return None
    if text not in _TT:
        _TT[text] = {'text': text, 'expr': to_expr(text)}
    return _TT[text]


def meaning(text):
    """what the text denotes in the module's namespace, by the real interpreter (None: nothing)"""
    if text is None:
        return None, None
    if text not in _MEANING:
        try:
            o = eval(text, dict(NSMOD))
            _MEANING[text] = (o, to_val(o))
        except OutsideFragment:
            raise
        except BaseException:
            _MEANING[text] = (None, None)
    return _MEANING[text]


def ann_obj(ann):
    """the object an annotation of the signature evaluates to, and its abstraction"""
    if ann not in _ANN:
        o = eval(ann, dict(NSMOD))
        _ANN[ann] = (o, to_val(o))
    return _ANN[ann]


def parsed_doc(doctext):
    """what docstring_parser returns for func.__doc__, abstracted"""
    if doctext not in _PARSED:
        import docstring_parser
        parsed = docstring_parser.parse(doctext)
        _PARSED[doctext] = {'params': [[p.arg_name, tt(p.type_name)] for p in parsed.params],
                            'returns': None if parsed.returns is None else
                            [len(parsed.returns.args), tt(parsed.returns.args[1]) if len(parsed.returns.args) > 1 else None]}
    return _PARSED[doctext]


# ------------------------------------------------------------------------------------------------ generator

# (annotation source, equal spellings for the docstring)
POOL = [
    ('int', ['int']), ('str', ['str']), ('List[int]', ['List[int]']), ('Dict[str, int]', ['Dict[str, int]']),
    ('Optional[int]', ['Optional[int]', 'Union[int, None]', 'Union[None, int]', 'int | None', 'None | int']),
    ('Union[int, str]', ['Union[int, str]', 'Union[str, int]', 'int | str', 'Union[int, str, int]']),
    ('My', ['My']), ('List[My]', ['List[My]']), ('Tuple[int, ...]', ['Tuple[int, ...]']),
    ('Callable[[int], str]', ['Callable[[int], str]']), ('list[int]', ['list[int]']),
    ('int | None', ['int | None', 'Optional[int]', 'Union[None, int]']), ('Any', ['Any']),
    ('Literal[1, 2]', ['Literal[1, 2]', 'Literal[2, 1]']), ('T', ['T']), ("'My'", ['My']), ('Type[My]', ['Type[My]']),
    ('float', ['float']), ('bool', ['bool']),
    # beyond the 19 of the property text: nesting, PEP 604 with a user class, builtin generics, Callable shapes
    ('Dict[str, List[Optional[My]]]', ['Dict[str, List[Optional[My]]]', 'Dict[str, List[Union[None, My]]]']),
    ('Optional[List[My]]', ['Optional[List[My]]', 'Union[List[My], None]', 'List[My] | None']),
    ('My | None', ['My | None', 'Optional[My]']), ('dict[str, list[int]]', ['dict[str, list[int]]']),
    ('Callable[..., Any]', ['Callable[..., Any]']), ('Tuple[int, str]', ['Tuple[int, str]']),
    ('Union[int, List[str], None]', ['Union[int, List[str], None]', 'Optional[Union[List[str], int]]']),
    ('Set[T]', ['Set[T]']),
]
N_CORE = 19
RET_EXTRA = [('None', None), (None, None)]       # `-> None`, no return annotation
ATOMS = ['int', 'str', 'float', 'None', 'My', 'Other', 'Foo', 'T', 'Any']
HEAD_SWAP = {'List': ['list', 'Set'], 'list': ['List', 'set'], 'Dict': ['dict'], 'dict': ['Dict'], 'Tuple': ['tuple', 'Union'],
             'Set': ['List'], 'Type': ['List'], 'Optional': ['List'], 'Union': ['Tuple'], 'Callable': [], 'Literal': []}
# Returns entries without a `type:` prefix (no colon anywhere: docstring_parser takes what precedes the first colon for the type)
FREE_TEXT = ['whether the value was stored', 'nothing of interest', 'the stored value, always', 'a new store', 'None',
             'the value that was stored\nand a second line of prose', 'int', 'bool - True on success']
UNPARSABLE = ['List[int', 'int str', 'List[int]]', '?']                      # SyntaxError out of eval
ILL_TYPED = ['List[int, str]', 'Dict[str]', 'int[str]', 'Optional[int, str]', 'Any[int]', 'Callable[[int]]', 'None | None']   # TypeError


def node_edits(text, rng, per_node):
    """every node of the syntax tree of `text`, replaced (in up to per_node ways) by something else"""
    tree = ast.parse(text, mode='eval')
    out = []
    nodes = [n for n in ast.walk(tree.body)]
    for idx, n in enumerate(nodes):
        if isinstance(n, (ast.Tuple, ast.expr_context, ast.operator)):
            continue
        here = ast.unparse(n)
        is_head = any(isinstance(p, ast.Subscript) and p.value is n for p in nodes)
        in_list = isinstance(n, ast.List)
        if is_head:
            cands = list(HEAD_SWAP.get(here, []))
        elif in_list:
            cands = ['[str]', '[int, int]', '...', '[]']
        elif isinstance(n, ast.Constant) and isinstance(n.value, int) and not isinstance(n.value, bool):
            cands = ['3', 'True', str(n.value + 1)]
        else:
            cands = ATOMS + [f'List[{here}]', f'Optional[{here}]']
            if isinstance(n, ast.Subscript):
                a = n.slice.elts[0] if isinstance(n.slice, ast.Tuple) and n.slice.elts else n.slice
                if not isinstance(a, ast.Tuple):
                    cands.append(ast.unparse(a))            # unwrap
            if isinstance(n, ast.BinOp):
                cands += [ast.unparse(n.left), ast.unparse(n.right)]
            if isinstance(n, ast.Constant) and n.value is Ellipsis:
                cands = ['str', 'int']
        cands = [c for c in cands if c != here]
        rng.shuffle(cands)
        for c in cands[:per_node]:
            # substitute by position on a fresh tree
            fresh = ast.parse(text, mode='eval')
            fnodes = [m for m in ast.walk(fresh.body)]
            target = fnodes[idx]

            class S(ast.NodeTransformer):
                def visit(self, node):
                    if node is target:
                        return ast.parse(c, mode='eval').body
                    return self.generic_visit(node)
            new = ast.unparse(ast.fix_missing_locations(S().visit(fresh)))
            if new != text:
                out.append((f'node{idx}:{type(n).__name__}', new))
    return out


OTHER_SPELLING = {'List': 'list', 'list': 'List', 'Dict': 'dict', 'dict': 'Dict', 'Tuple': 'tuple', 'tuple': 'Tuple', 'Set': 'set', 'set': 'Set'}


def in_fragment(text):
    try:
        return to_expr(text) is not None
    except OutsideFragment:
        return False


def near_misses(ann, ty):
    """documented types that merely *name* the annotation `ann` (source text) whose consistent spelling is `ty`:
       the bare origin of a parametrised type (at the top and at every inner subscript, in the typing and in the builtin
       spelling), the outer type with one argument dropped, and every string the annotation object (or its origin) reports as
       its own name (`__name__`, `__qualname__`, `_name`).  Deterministic; every result differs from `ty` as text."""
    out = []

    def add(label, text):
        if text != ty and in_fragment(text) and all(t != text for _, t in out):      # the first label of a text wins
            out.append((label, text))
    tree = ast.parse(ty, mode='eval')
    nodes = list(ast.walk(tree.body))
    for idx, n in enumerate(nodes):
        if not isinstance(n, ast.Subscript):
            continue
        top = n is tree.body
        head = ast.unparse(n.value)
        elts = list(n.slice.elts) if isinstance(n.slice, ast.Tuple) else [n.slice]
        repl = [('bare-origin' if top else 'bare-origin-inner', head)]
        if head in OTHER_SPELLING:
            repl.append(('bare-origin-other-spelling' if top else 'bare-origin-inner', OTHER_SPELLING[head]))
        if len(elts) >= 2:
            for k in range(len(elts)):
                rest = elts[:k] + elts[k + 1:]
                repl.append(('drop-arg', f"{head}[{', '.join(ast.unparse(e) for e in rest)}]"))
        for label, c in repl:
            fresh = ast.parse(ty, mode='eval')
            target = list(ast.walk(fresh.body))[idx]

            class S(ast.NodeTransformer):
                def visit(self, node):
                    if node is target:
                        return ast.parse(c, mode='eval').body
                    return self.generic_visit(node)
            add(label, ast.unparse(ast.fix_missing_locations(S().visit(fresh))))
    # what the annotation object calls itself
    try:
        o = eval(ann, dict(NSMOD))
    except Exception:
        o = None
    o = NSMOD.get(o, o) if isinstance(o, str) else o
    objs = [('', o)] + ([('origin', typing.get_origin(o))] if typing.get_origin(o) is not None else [])
    for who, obj in objs:
        for attr in ('__name__', '__qualname__', '_name'):
            v = getattr(obj, attr, None)
            if isinstance(v, str) and v:
                add(f'name-like:{who}{attr}', v)
                if v in OTHER_SPELLING:
                    add(f'name-like:{who}{attr}-other-spelling', OTHER_SPELLING[v])
    return out


def base(nm):
    """the NAME of a parameter written `*args` / `**kwargs` in the signature is `args` / `kwargs` (inspect, `__annotations__`)"""
    return nm.lstrip('*')


_ROUNDTRIP = {}


def roundtrips(name):
    """docstring_parser hands the documented name back as written (it strips blanks around a name, so a variant that differs only
    there is the same name and is not generated)"""
    if name not in _ROUNDTRIP:
        import docstring_parser
        d = docstring_parser.parse(render_doc({'params': [(name, 'int')], 'returns': None}))
        _ROUNDTRIP[name] = [(q.arg_name, q.type_name) for q in d.params] == [(name, 'int')]
    return _ROUNDTRIP[name]


def near_names(nm):
    """(kind, name) — names that are NOT the parameter's name but close to it: leading / trailing / surrounding `*` and `_`, another
    case, a blank inside, a proper prefix / suffix, the name extended, decorated spellings (`self.x`, backticks).  For a parameter
    written `*args` in the signature the name is `args`; `*args`, `**args` … are near names like for every other parameter."""
    b = base(nm)
    out = [('star1-prefix', '*' + b), ('star2-prefix', '**' + b), ('star3-prefix', '***' + b), ('star-suffix', b + '*'),
           ('star-around', '*' + b + '*'), ('underscore-prefix', '_' + b), ('underscore-suffix', b + '_'),
           ('dunder', '__' + b + '__'), ('upper', b.upper()), ('capitalized', b[:1].upper() + b[1:]), ('lower', b.lower()),
           ('extended', b + b[-1:]), ('backticks', '`' + b + '`'), ('dotted', 'self.' + b), ('hyphen-suffix', b + '-')]
    if len(b) >= 2:
        k = len(b) // 2
        out += [('inner-blank', b[:k] + ' ' + b[k:]), ('prefix', b[:-1]), ('suffix', b[1:]), ('inner-underscore', b[:k] + '_' + b[k:])]
    seen, res = {b}, []
    for kind, n in out:
        if n not in seen and roundtrips(n):
            seen.add(n)
            res.append((kind, n))
    return res


def render_doc(idoc, title_args='Args', title_ret='Returns'):
    """the docstring text (without quotes) for an intended docstring"""
    if isinstance(idoc, str):
        return idoc
    lines = [' Summary.', '']
    if idoc['params']:
        lines.append(f'    {title_args}:')
        for nm, ty in idoc['params']:
            lines.append(f'        {nm} ({ty}): text' if ty is not None else f'        {nm}: text')
        lines.append('')
    r = idoc['returns']
    if r is not None:
        lines.append(f'    {title_ret}:')
        if r[0] == 'typed':
            lines.append(f'        {r[1]}: text')
        elif r[0] == 'untyped':             # a Returns entry without a `type:` prefix: free text (r[1], when given; no colon in it)
            lines += ['        ' + ln for ln in (r[1] if len(r) > 1 else 'text without a type').split('\n')]
        elif r[0] == 'blank':               # a Returns section with nothing but white space in it
            lines.append('        \t ')
        else:
            assert r[0] == 'empty'          # a Returns section with nothing in it
        lines.append('')
    return '\n'.join(lines) + '    '


HEAD_SRC = ('from typing import *\nfrom pedantic import pedantic, pedantic_require_docstring, pedantic_class_require_docstring\n'
            'from pedantic import pedantic_class, trace_class, timer_class, for_all_methods\n'
            'class My: pass\nclass Other: pass\nT = TypeVar("T")\n')
DECO_SRC = {'pedantic': '@pedantic', 'require': '@pedantic_require_docstring', 'require_kw': '@pedantic(require_docstring=True)'}


def render_fn(name, sig, doctext, indent, deco_line, selfarg):
    """selfarg: falsy (no receiver) | True (`self`) | the name of the first parameter (`cls`); deco_line: one line or several"""
    first = [] if not selfarg else ['self' if selfarg is True else selfarg]
    ps = first + [nm if ann is None else f'{nm}: {ann}' for nm, ann in sig['params']]
    ret = '' if sig['ret'] is None else f" -> {sig['ret']}"
    lines = []
    for dl in (deco_line.split('\n') if deco_line else []):
        lines.append(indent + dl)
    lines.append(f"{indent}{'async ' if sig.get('async') else ''}def {name}({', '.join(ps)}){ret}:")
    if doctext is not None:
        body = doctext.replace('\n    ', '\n' + indent + '    ') if indent else doctext
        lines.append(f'{indent}    """{body}"""')
    lines.append(f'{indent}    pass')
    return '\n'.join(lines) + '\n'


def abstract_unit(sig, idoc, doctext, deco, aliases=False):
    """the abstract case of one decorated function.  `doctext` is func.__doc__ (None: no docstring)."""
    anns = []
    ann_objs = {}
    for nm, ann in sig['params']:
        nm = base(nm)
        if ann is not None:
            o, v = ann_obj(ann); ann_objs[nm] = o
            anns.append([nm, v])
    if sig['ret'] is None: ret = ['absent']; ret_obj = None
    elif sig['ret'] == 'None': ret = ['none']; ret_obj = None
    else:
        ret_obj, v = ann_obj(sig['ret']); ret = ['val', v]
    raw = 'none' if doctext is None else ('empty' if doctext == '' else 'text')
    doc = parsed_doc(doctext)
    if isinstance(idoc, dict):
        ip, ir = idoc['params'], idoc['returns']
    else:
        ip, ir = [], None
    eqs = []

    def res(o):          # a string annotation means the module's object of that name
        return NSMOD.get(o, o) if isinstance(o, str) else o
    den_params = []
    for nm, ty in ip:
        o, v = meaning(ty)
        den_params.append([nm, v])
        if v is not None and nm in ann_objs:
            a = res(ann_objs[nm])
            eqs.append([to_val(a), v, bool(a == o), bool(o == a)])
    intended = {'params': [[nm, tt(ty)] for nm, ty in ip],
                'returns': None if ir is None else (['typed', tt(ir[1])] if ir[0] == 'typed' else ['untyped'])}
    if ir is None: den_ret = None
    elif ir[0] == 'typed':
        o, v = meaning(ir[1]); den_ret = ['typed', v]
        if v is not None and ret_obj is not None:
            a = res(ret_obj)
            eqs.append([to_val(a), v, bool(a == o), bool(o == a)])
    else: den_ret = ['untyped']
    return {'req': deco != 'pedantic', 'deco': deco, 'sig': {'anns': anns, 'ret': ret, 'raw': raw}, 'doc': doc, 'intended': intended,
            'den': {'params': den_params, 'returns': den_ret}, 'ns': ns_json(aliases), 'eqs': eqs}


BASE_DOC = ('        """ Summary.\n\n        Args:\n            {p} (int): text\n{r}        """\n')
BASE_BODY = ('    def __init__(self, factor: int) -> None:\n' + BASE_DOC.format(p='factor', r='') + '        self.factor = factor\n\n'
             '    def keep(self, v: int) -> int:\n' + BASE_DOC.format(p='v', r='\n        Returns:\n            int: text\n') + '        return v\n\n')
# a base class that has been decorated BEFORE the class of the case is: with each class decorator built on for_all_methods, directly
# and one level further up (every method of the base is documented consistently, so each of the decorators accepts it)
BASES = {
    'pedantic_class': '@pedantic_class\nclass B:\n' + BASE_BODY,
    'pedantic_class_require_docstring': '@pedantic_class_require_docstring\nclass B:\n' + BASE_BODY,
    'trace_class': '@trace_class\nclass B:\n' + BASE_BODY,
    'timer_class': '@timer_class\nclass B:\n' + BASE_BODY,
    'for_all_methods': '@for_all_methods(decorator=pedantic)\nclass B:\n' + BASE_BODY,
    'grandparent': '@pedantic_class_require_docstring\nclass A:\n' + BASE_BODY + 'class B(A):\n    pass\n\n',
    'undecorated': 'class B:\n' + BASE_BODY,
}
CLASS_DECO = {'class': '@pedantic_class_require_docstring', 'class_plain': '@pedantic_class'}


DECO_CALL = {'pedantic': 'pedantic({})', 'require': 'pedantic_require_docstring({})', 'require_kw': 'pedantic(require_docstring=True)({})',
             'class': 'pedantic_class_require_docstring({})', 'class_plain': 'pedantic_class({})'}


def mk_case(deco, units, edit, enabled=True, titles=('Args', 'Returns'), in_domain=True, base=None, apply='syntax', aliases=False):
    """units: list of (sig, idoc) — one for a function, one per method for the class paths (deco 'class': the class is decorated with
       pedantic_class_require_docstring, 'class_plain': with pedantic_class; a method is called sig['name'] or m<k>).
       idoc: None (no docstring) | str (literal docstring text without documented entries) | dict (intended docstring)
       base: None | key of BASES — the class of the case derives from a class decorated earlier in the module
       aliases: the module also defines the type aliases of ALIAS_SRC (and the case tells the model so: they are globals of the module)
       apply: 'syntax' (`@decorator` in front of the definition) | 'call' (the function / class is defined first — it is bound in its
       module, which run_impl registers in sys.modules like a real import does — and then replaced by `decorator(<it>)`)"""
    is_cls = deco in CLASS_DECO
    srcs, names = [], []
    for k, (sig, idoc) in enumerate(units):
        doctext = None if idoc is None else render_doc(idoc, *titles)
        if is_cls:
            names.append(sig.get('name') or f'm{k}')
            srcs.append(render_fn(names[-1], sig, doctext, '    ', None, True))
        else:
            srcs.append(render_fn('f', sig, doctext, '', DECO_SRC[deco] if apply == 'syntax' else None, False))
    if is_cls:
        assert len(set(names)) == len(names)
        src = HEAD_SRC + (ALIAS_SRC if aliases else '') + (BASES[base] if base else '') + (CLASS_DECO[deco] + '\n' if apply == 'syntax' else '') \
            + f"class C{'(B)' if base else ''}:\n" + '\n'.join(srcs)
        if apply == 'call':
            src += '\nC = ' + DECO_CALL[deco].format('C') + '\n'
    else:
        src = HEAD_SRC + (ALIAS_SRC if aliases else '') + srcs[0]
        if apply == 'call':
            src += '\nf = ' + DECO_CALL[deco].format('f') + '\n'
    # func.__doc__ exactly as the compiler stores it (3.12: the raw constant)
    tree = ast.parse(src)
    if is_cls:
        cdef = [n for n in tree.body if isinstance(n, ast.ClassDef) and n.name == 'C'][0]
        fns = [n for n in cdef.body if isinstance(n, (ast.FunctionDef, ast.AsyncFunctionDef))]
    else:
        fns = [n for n in ast.walk(tree) if isinstance(n, (ast.FunctionDef, ast.AsyncFunctionDef))]
    assert len(fns) == len(units)
    udeco = {'class': 'class', 'class_plain': 'pedantic'}.get(deco, deco)       # what every method is decorated with
    aus = [abstract_unit(sig, idoc, ast.get_docstring(fn, clean=False), udeco, aliases) for (sig, idoc), fn in zip(units, fns)]
    c = {'env': {'enabled': enabled, 'parser': True}, 'kind': 'class' if is_cls else 'func', 'units': aus}
    x = {'src': src, 'deco': deco, 'edit': edit, 'in_domain': in_domain}
    if deco == 'class_plain':
        c['classdeco'] = 'plain'
    if is_cls:
        x['probe'] = names[0]
    if base:
        x['base'] = base
    if apply != 'syntax':
        x['apply'] = apply
    if aliases:
        x['aliases'] = True
    return {'m': 'docstring', 'c': c, 'x': x}


# ------------------------------------------------------------------------------------------------ names that are not `__name__`s

# (annotation, [documented types that denote an equal type], [documented types that do not])
ALIAS_PAIRS = [
    ('Alias', ['Alias', 'My'], ['Wrong', 'Other', 'Foo', 'IntList']),
    ('My', ['Alias'], ['Wrong']),
    ('IntList', ['IntList', 'List[int]'], ['StrList', 'list[int]', 'Optional[IntList]', 'List[IntList]']),
    ('List[int]', ['IntList'], ['StrList']),
    ('List[str]', ['StrList'], ['IntList']),
    ('Optional[IntList]', ['Optional[IntList]', 'Union[IntList, None]', 'Optional[List[int]]', 'Union[None, IntList]'],
     ['Optional[StrList]', 'IntList']),
    ('Table', ['Table', 'Dict[str, Optional[Alias]]', 'Dict[str, Optional[My]]', 'Dict[str, Union[None, Alias]]'],
     ['Dict[str, Optional[Wrong]]', 'Dict[str, Alias]']),
    ('Dict[str, Alias]', ['Dict[str, My]', 'Dict[str, Alias]'], ['Dict[str, Wrong]', 'Table']),
    ('List[Alias]', ['List[Alias]', 'List[My]'], ['List[Wrong]', 'Alias']),
    ('U', ['U'], ['T', 'Alias']),
    ('List[U]', ['List[U]'], ['List[T]', 'U']),
    ('T', ['T'], ['U']),
    ('Callable[[Alias], IntList]', ['Callable[[Alias], IntList]', 'Callable[[My], List[int]]'], ['Callable[[Wrong], IntList]']),
]


def alias_cases(rng, tier):
    """the module binds a class / a generic / a type variable under ANOTHER identifier than its `__name__` (`Alias = My`,
    `IntList = List[int]`, `Table = Dict[str, Optional[My]]`, `U = TypeVar('T2')`, `Wrong = Other`): the annotation is the alias, the
    spelled-out type, or contains the alias; the docstring documents it by the alias, by the `__name__` / spelled out, inside another
    generic (consistent in the module's namespace) or by an alias of ANOTHER type (inconsistent) — as a parameter, as the return type
    and next to a correctly documented neighbour, under every trigger path.  (Not generated: a type variable documented by a `__name__`
    that is no identifier of the module — `U = TypeVar('T2')` documented `T2`.)"""
    out = []
    k = 0
    for ann, good, bad in ALIAS_PAIRS:
        for text, label in [(t, 'consistent:alias') for t in good] + [(t, 'alias-wrong') for t in bad]:
            for deco in ('pedantic', 'require', 'require_kw', 'class', 'class_plain'):
                k += 1
                shapes = [
                    ({'params': [('p0', ann)], 'ret': 'None'}, {'params': [('p0', text)], 'returns': None}),
                    ({'params': [('p0', 'int')], 'ret': ann}, {'params': [('p0', 'int')], 'returns': ('typed', text)}),
                    ({'params': [('p0', 'str'), ('p1', ann)], 'ret': ann},
                     {'params': [('p0', 'str'), ('p1', text)], 'returns': ('typed', good[0])}),
                ]
                for j, (sig, idoc) in enumerate(shapes):
                    if tier == 'quick' and j == 2 and k % 2:
                        continue
                    out.append(mk_case(deco, [(sig, idoc)], label + ('' if j != 1 else '-returns'), aliases=True,
                                       apply=('call' if (k + j) % 5 == 0 else 'syntax')))
    return out


# ------------------------------------------------------------------------------------------------ every function a class holds

def accessor_sigs(t, setter_ret='None', deleter_ret='None'):
    """the signatures of the accessors of a property of type `t`"""
    return {'fget': {'params': [], 'ret': t}, 'fset': {'params': [('value', t)], 'ret': setter_ret}, 'fdel': {'params': [], 'ret': deleter_ret}}


PARTS = ('fget', 'fset', 'fdel')
PART_DECO = {'fget': 'getter', 'fset': 'setter', 'fdel': 'deleter'}
PART_FN = {'fget': '_get_', 'fset': '_set_', 'fdel': '_del_'}


def mk_members_case(deco, members, edit, enabled=True, titles=('Args', 'Returns'), base=None, apply='syntax', role=None):
    """a class given by ALL the functions it holds.  members (in the order of the class body):
         {'kind': 'fn', 'role': 'method' | 'static' | 'classm', 'sig': sig (with 'name'), 'idoc': idoc}
         {'kind': 'prop', 'name': n, 'syntax': 'deco' (`@property` / `@n.setter` / `@n.deleter`; without a getter the chain starts at
            `n = property()`) | 'call' (`n = property(fget=_get_n, …)` of functions that are deleted from the class body afterwards) |
            'call_keep' (the same without the `del`: the functions are methods of the class as well), 'parts': {part: (sig, idoc)}}
       The units of the case are the functions in the order `for_all_methods` meets them, each with its `role`."""
    assert deco in CLASS_DECO
    defs, refs, body, xmembers = [], [], [], []          # defs: (sig, idoc); refs: (index into defs, role)

    def add_def(name, sig, idoc, deco_line, first):
        doctext = None if idoc is None else render_doc(idoc, *titles)
        body.append(render_fn(name, sig, doctext, '    ', deco_line, first))
        defs.append((sig, idoc))
        return len(defs) - 1
    for m in members:
        if m['kind'] == 'fn':
            r = m['role']
            k = add_def(m['sig']['name'], m['sig'], m['idoc'], {'method': None, 'static': '@staticmethod', 'classm': '@classmethod'}[r],
                        {'method': True, 'static': False, 'classm': 'cls'}[r])
            refs.append((k, r))
            xmembers.append([m['sig']['name'], 'fn'])
            continue
        n, parts = m['name'], [p for p in PARTS if p in m['parts']]
        if m['syntax'] == 'deco':
            if 'fget' not in parts:
                body.append(f'    {n} = property()\n')
            for p in parts:
                sig, idoc = m['parts'][p]
                refs.append((add_def(n, sig, idoc, '@property' if p == 'fget' else f'@{n}.{PART_DECO[p]}', True), p))
        else:
            ks = {p: add_def(PART_FN[p] + n, m['parts'][p][0], m['parts'][p][1], None, True) for p in parts}
            body.append(f"    {n} = property({', '.join(f'{p}={PART_FN[p] + n}' for p in parts)})\n")
            if m['syntax'] == 'call':
                body.append(f"    del {', '.join(PART_FN[p] + n for p in parts)}\n")
            else:
                for p in parts:
                    refs.append((ks[p], 'method'))
                    xmembers.append([PART_FN[p] + n, 'fn'])
            refs += [(ks[p], p) for p in parts]
        xmembers.append([n, 'prop', parts])
    src = HEAD_SRC + (BASES[base] if base else '') + (CLASS_DECO[deco] + '\n' if apply == 'syntax' else '') \
        + f"class C{'(B)' if base else ''}:\n" + '\n'.join(body)
    if apply == 'call':
        src += '\nC = ' + DECO_CALL[deco].format('C') + '\n'
    tree = ast.parse(src)
    cdef = [x for x in tree.body if isinstance(x, ast.ClassDef) and x.name == 'C'][0]
    fns = [x for x in cdef.body if isinstance(x, (ast.FunctionDef, ast.AsyncFunctionDef))]
    assert len(fns) == len(defs)
    udeco = {'class': 'class', 'class_plain': 'pedantic'}[deco]
    aus = [abstract_unit(sig, idoc, ast.get_docstring(fn, clean=False), udeco) for (sig, idoc), fn in zip(defs, fns)]
    c = {'env': {'enabled': enabled, 'parser': True}, 'kind': 'class', 'units': [dict(aus[k], role=r) for k, r in refs]}
    if deco == 'class_plain':
        c['classdeco'] = 'plain'
    x = {'src': src, 'deco': deco, 'edit': edit, 'in_domain': True, 'members': xmembers}
    if role:
        x['role'] = role
    if base:
        x['base'] = base
    if apply != 'syntax':
        x['apply'] = apply
    return {'m': 'docstring', 'c': c, 'x': x}


PROP_TYPES = ['float', 'List[int]', 'Optional[int]', 'My', 'int', 'Dict[str, int]']
SUBSETS = [s for n in (1, 2, 3) for s in itertools.combinations(PARTS, n)]
M_OTHER = {'kind': 'fn', 'role': 'method', 'sig': {'name': 'other', 'params': [('count', 'int')], 'ret': 'int'},
           'idoc': {'params': [('count', 'int')], 'returns': ('typed', 'int')}}
M_SIGS = [
    {'name': 'build', 'params': [('value', 'int'), ('label', 'str')], 'ret': 'My'},
    {'name': 'reset', 'params': [], 'ret': 'None'},
    {'name': 'collect', 'params': [('items', 'List[My]'), ('*args', 'int')], 'ret': 'Optional[int]'},
]


def member_cases(rng, tier):
    """EVERY function a class holds is docstring-checked when the class is decorated: for every non-empty subset of {getter, setter,
    deleter} of a property (7) x the way the property is written (`@property` / `@x.setter` / `@x.deleter`; `x = property(fget=…)`
    of functions deleted from the class body afterwards; the same without the `del`) x every accessor of the subset: that accessor
    carries the consistent docstring, every single edit of it, no docstring, an empty one, a summary only — the other accessors are
    consistent —, under pedantic_class_require_docstring and pedantic_class, alone or next to a consistent method (before / after);
    the same for static methods and class methods.  A few classes disabled, derived from a decorated base, decorated by a call."""
    out = []
    quick = tier == 'quick'
    k = 0
    for subset in SUBSETS:
        for syntax in ('deco', 'call', 'call_keep'):
            if syntax == 'call_keep' and quick and len(subset) != 3:
                continue
            for part in subset:
                types_ = [PROP_TYPES[(k + j) % len(PROP_TYPES)] for j in range(1 if quick else 6)]
                for t in types_:
                    k += 1
                    sigs = accessor_sigs(t, setter_ret=('None' if k % 4 else None), deleter_ret=('None' if k % 5 else None))
                    cdocs = {p: consistent_doc(sigs[p], rng, canonical=(k % 2 == 0)) for p in subset}
                    cdocs = {p: (d if d['params'] or d['returns'] else ' Summary. ') for p, d in cdocs.items()}
                    cd = consistent_doc(sigs[part], rng, canonical=True)
                    variants = [('consistent:members', cdocs[part])] \
                        + edits_of(sigs[part], cd, rng, 1 if quick else 2, near=not quick, near_name_count=(1 if quick else 3)) \
                        + [('missing-docstring', None), ('empty-docstring', ''), ('summary-only', ' Summary. ')]
                    for v, (label, idoc) in enumerate(variants):
                        if label == 'summary-only' and not (cd['params'] or cd['returns']):
                            continue          # that IS the consistent docstring of `def x(self) -> None`
                        parts = {p: (sigs[p], idoc if p == part else cdocs[p]) for p in subset}
                        prop = {'kind': 'prop', 'name': 'level', 'syntax': syntax, 'parts': parts}
                        for deco in ('class', 'class_plain'):
                            members = [[prop], [prop, M_OTHER], [M_OTHER, prop]][(k + v) % 3]
                            out.append(mk_members_case(deco, members, label, role=part))
                    if k % 6 == 0:
                        prop = {'kind': 'prop', 'name': 'level', 'syntax': syntax, 'parts': {p: (sigs[p], None if p == part else cdocs[p]) for p in subset}}
                        out.append(mk_members_case('class', [prop], 'missing-docstring', enabled=False, role=part))
                        out.append(mk_members_case('class', [M_OTHER, prop], 'missing-docstring', base='pedantic_class', role=part))
                        out.append(mk_members_case('class', [prop, M_OTHER], 'missing-docstring', apply='call', role=part))
    # two properties, static / class methods and methods side by side: everything consistent, and each member in turn without a docstring
    t = 'float'
    sigs = accessor_sigs(t)
    full = {p: (sigs[p], consistent_doc(sigs[p], rng, canonical=True)) for p in PARTS}
    full['fdel'] = (sigs['fdel'], ' Summary. ')
    for role in ('static', 'classm', 'method'):
        for sig in M_SIGS:
            cd = consistent_doc(sig, rng, canonical=True)
            cdoc = cd if cd['params'] or cd['returns'] else ' Summary. '
            variants = [('consistent:members', cdoc)] + edits_of(sig, cd, rng, 1 if quick else 2, near=not quick, near_name_count=(1 if quick else 3)) \
                + [('missing-docstring', None), ('empty-docstring', '')]
            for v, (label, idoc) in enumerate(variants):
                me = {'kind': 'fn', 'role': role, 'sig': sig, 'idoc': idoc}
                prop = {'kind': 'prop', 'name': 'level', 'syntax': 'deco', 'parts': full}
                for deco in ('class', 'class_plain'):
                    members = [[me], [me, M_OTHER], [prop, me], [M_OTHER, me, prop]][v % 4]
                    out.append(mk_members_case(deco, members, label, role=role))
    return out


# ------------------------------------------------------------------------------------------------ the same `def` executed again

# (what the varying annotation is in the consistent execution, an equal spelling of it, a different type)
SEQ_PARAM = [('int', 'int', 'str'), ('Optional[int]', 'Union[None, int]', 'int'), ('List[int]', 'List[int]', 'list[int]'), ('My', 'My', 'Other')]
SEQ_RET = [('int', 'int', 'str'), ('Optional[My]', 'My | None', 'My'), ('int', 'int', 'None')]
SEQ_ROUNDS = ['AB', 'BA', 'AE', 'AAB', 'ABA', 'EA', 'AA']
SEQ_SHAPES = [('factory', 'pedantic'), ('factory', 'require'), ('factory', 'require_kw'), ('loop', 'pedantic'), ('loop', 'require'),
              ('loop', 'require_kw'), ('reload', 'pedantic'), ('reload', 'require'), ('reload', 'require_kw'),
              ('class-factory', 'class'), ('class-factory', 'class_plain')]


def mk_seq_case(shape, deco, slot, triple, rounds, edit, enabled=True):
    """ONE `def` whose annotation in `slot` ('param' / 'return') is a variable, executed len(rounds) times with the values rounds
    names (A: the annotation the docstring documents, E: an equal one spelled differently, B: another type); the docstring — a
    constant of the code object — is consistent with A."""
    a, e, b = triple
    vals = [{'A': a, 'E': e, 'B': b}[r] for r in rounds]
    if slot == 'param':
        sig_of = lambda v: {'params': [('p0', v), ('p1', 'str')], 'ret': 'None'}
        idoc = {'params': [('p0', a), ('p1', 'str')], 'returns': None}
        vsig = {'params': [('p0', 'tp'), ('p1', 'str')], 'ret': 'None'}
    else:
        sig_of = lambda v: {'params': [('p0', 'str')], 'ret': v}
        idoc = {'params': [('p0', 'str')], 'returns': ('typed', a)}
        vsig = {'params': [('p0', 'str')], 'ret': 'tp'}
    doctext = render_doc(idoc)
    n = len(vals)
    if shape == 'factory':
        src = HEAD_SRC + 'def make(tp):\n' + render_fn('f', vsig, doctext, '    ', DECO_SRC[deco], False) + '    return f\n\n' \
            + ''.join(f'r{k} = make({v})\n' for k, v in enumerate(vals)) + f'PROBE = r{n - 1}\n'
    elif shape == 'loop':
        src = HEAD_SRC + f"for tp in [{', '.join(vals)}]:\n" + render_fn('f', vsig, doctext, '    ', DECO_SRC[deco], False) + 'PROBE = f\n'
    elif shape == 'reload':        # run_impl reloads the module n - 1 times: the source is compiled again, the code objects are equal
        src = HEAD_SRC + "_ROUND = globals().get('_ROUND', -1) + 1\n" + f"tp = [{', '.join(vals)}][_ROUND]\n" \
            + render_fn('f', vsig, doctext, '', DECO_SRC[deco], False) + 'PROBE = f\n'
    else:
        assert shape == 'class-factory'
        src = HEAD_SRC + 'def make(tp):\n    ' + CLASS_DECO[deco] + '\n    class C:\n' + render_fn('m0', vsig, doctext, '        ', None, True) \
            + '    return C\n\n' + ''.join(f'r{k} = make({v})\n' for k, v in enumerate(vals)) + f"PROBE = r{n - 1}.__dict__['m0']\n"
    fns = [x for x in ast.walk(ast.parse(src)) if isinstance(x, (ast.FunctionDef, ast.AsyncFunctionDef)) and x.name in ('f', 'm0')]
    assert len(fns) == 1
    doc = ast.get_docstring(fns[0], clean=False)
    udeco = {'class': 'require', 'class_plain': 'pedantic'}.get(deco, deco)       # one method per class: the class decorators are these
    c = {'env': {'enabled': enabled, 'parser': True}, 'kind': 'seq', 'units': [abstract_unit(sig_of(v), idoc, doc, udeco) for v in vals]}
    x = {'src': src, 'deco': deco, 'edit': edit, 'in_domain': True, 'shape': shape, 'history': True}
    if shape == 'reload':
        x['reloads'] = n - 1
    return {'m': 'docstring', 'c': c, 'x': x}


def repeated_def_cases(rng, tier):
    """the same `def` executed several times in one interpreter — an inner function of a factory, the body of a loop, a class defined in
    a factory, a module that is reloaded — with an annotation that is a variable: every execution is a decoration of its own.  The
    docstring fits the value A; the executions take the values AB / BA / AE / AAB / ABA / EA / AA (E: an equal annotation spelled
    differently, B: another type) in a parameter or in the return annotation."""
    out = []
    slots = [('param', t) for t in SEQ_PARAM] + [('return', t) for t in SEQ_RET]
    k = 0
    for shape, deco in SEQ_SHAPES:
        for rounds in SEQ_ROUNDS:
            k += 1
            chosen = slots if tier != 'quick' else [slots[(k + j * 3) % len(slots)] for j in range(2)]
            for slot, triple in chosen:
                label = 'repeated-def:first-annotation-differs' if rounds[0] == 'B' else \
                    ('repeated-def:later-annotation-differs' if 'B' in rounds else 'consistent:repeated-def')
                out.append(mk_seq_case(shape, deco, slot, triple, rounds, label))
    out.append(mk_seq_case('factory', 'require', 'param', SEQ_PARAM[0], 'AB', 'repeated-def:later-annotation-differs', enabled=False))
    return out


def consistent_doc(sig, rng, canonical=False):
    ps = []
    for nm, ann in sig['params']:
        if ann is None:
            continue
        alts = dict(POOL)[ann]
        ps.append((base(nm), alts[0] if canonical else rng.choice(alts)))
    if sig['ret'] in (None, 'None'):
        r = None
    else:
        alts = dict(POOL)[sig['ret']]
        r = ('typed', alts[0] if canonical else rng.choice(alts))
    return {'params': ps, 'returns': r}


def edits_of(sig, cdoc, rng, per_node, near=True, near_name_count=None):
    """(label, intended docstring) for every single edit of the consistent docstring `cdoc`
       near_name_count: how many of the near-name renames per parameter (None: all)"""
    out = []
    ps, r = cdoc['params'], cdoc['returns']
    ann_of = {base(n): a for n, a in sig['params']}

    def with_params(new): return {'params': new, 'returns': r}

    def with_ret(new): return {'params': ps, 'returns': new}
    for i, (nm, ty) in enumerate(ps):
        pre, post = ps[:i], ps[i + 1:]
        out.append(('drop-param', with_params(pre + post)))
        out.append(('rename-param', with_params(pre + [(nm + 'x', ty)] + post)))
        nn = [x for x in near_names(nm) if x[1] not in ann_of]
        if near_name_count is not None and len(nn) > near_name_count:
            nn = rng.sample(nn, near_name_count)
        for kind, new in nn:
            out.append(('rename-near:' + kind, with_params(pre + [(new, ty)] + post)))
        out.append(('dup-param-adjacent', with_params(pre + [(nm, ty), (nm, ty)] + post)))
        if post:      # the next parameter's entry replaced by a copy of this one: the count stays right
            out.append(('dup-param-replacing-next', with_params(pre + [(nm, ty), (nm, ty)] + post[1:])))
        out.append(('drop-type', with_params(pre + [(nm, None)] + post)))
        out.append(('typing-prefix', with_params(pre + [(nm, 'typing.' + ty)] + post)))
        out.append(('unparsable-type', with_params(pre + [(nm, rng.choice(UNPARSABLE))] + post)))
        out.append(('ill-typed-type', with_params(pre + [(nm, rng.choice(ILL_TYPED))] + post)))
        for lab, new in node_edits(ty, rng, per_node):
            out.append(('change-type@' + lab.split(':')[1], with_params(pre + [(nm, new)] + post)))
        for lab, new in (near_misses(ann_of[nm], ty) if near else []):
            out.append((lab, with_params(pre + [(nm, new)] + post)))
    out.append(('add-param', with_params(ps + [('zz', 'int')])))
    out.append(('add-param-front', with_params([('zz', rng.choice(['int', 'My', 'Foo']))] + ps)))
    unann = [base(nm) for nm, ann in sig['params'] if ann is None]
    if unann:
        out.append(('document-unannotated', with_params(ps + [(unann[0], 'int')])))
    if len(ps) >= 2:
        q = list(ps); rng.shuffle(q)
        if q == ps: q.reverse()
        out.append(('reorder-params', with_params(q)))
        (n0, t0), (n1, t1) = ps[0], ps[1]
        out.append(('swap-types', with_params([(n0, t1), (n1, t0)] + ps[2:])))
    if r is not None:
        out.append(('drop-returns', with_ret(None)))
        out.append(('untyped-returns', with_ret(('untyped',))))
        out.append(('free-text-returns', with_ret(('untyped', rng.choice(FREE_TEXT)))))
        out.append(('empty-returns', with_ret(('empty',))))
        out.append(('blank-returns', with_ret(('blank',))))
        out.append(('typing-prefix-returns', with_ret(('typed', 'typing.' + r[1]))))
        out.append(('unparsable-returns', with_ret(('typed', rng.choice(UNPARSABLE)))))
        out.append(('ill-typed-returns', with_ret(('typed', rng.choice(ILL_TYPED)))))
        for lab, new in node_edits(r[1], rng, per_node):
            out.append(('change-returns@' + lab.split(':')[1], with_ret(('typed', new))))
        for lab, new in (near_misses(sig['ret'], r[1]) if near else []):
            out.append((lab + '-returns', with_ret(('typed', new))))
    else:
        out.append(('add-returns', with_ret(('typed', rng.choice(['int', 'None', 'My'])))))
        out.append(('add-untyped-returns', with_ret(('untyped',))))
        out.append(('add-free-text-returns', with_ret(('untyped', rng.choice(FREE_TEXT)))))
        out.append(('add-empty-returns', with_ret(('empty',))))
        out.append(('add-blank-returns', with_ret(('blank',))))
    return out


def gen_sig(rng, pool):
    n = rng.choice([0, 1, 1, 2, 2, 3])
    params = []
    for i in range(n):
        params.append((f'p{i}', None if rng.random() < 0.08 else rng.choice(pool)[0]))
    ret = rng.choice(pool + RET_EXTRA + RET_EXTRA)[0]
    sig = {'params': params, 'ret': ret}
    # variadic parameters (their NAME is `args` / `kwargs`, the stars belong to the signature syntax) and coroutine functions
    if rng.random() < 0.15:
        params.append((rng.choice(['*args', '*rest']), None if rng.random() < 0.08 else rng.choice(pool)[0]))
    if rng.random() < 0.15:
        params.append((rng.choice(['**kwargs', '**options']), None if rng.random() < 0.08 else rng.choice(pool)[0]))
    if rng.random() < 0.2:
        sig['async'] = True
    return sig


def grid_cases():
    """finite grid: trigger x raw docstring kind x number of documented parameters (0..2) x signature size (0..2)"""
    out = []
    for deco in ('pedantic', 'require', 'require_kw', 'class'):
        for enabled in (True, False):
            for nsig in range(3):
                sig = {'params': [(f'p{i}', 'int') for i in range(nsig)], 'ret': 'None'}
                for rawkind, idoc in (('none', None), ('empty', ''), ('blank', ' '), ('summary', ' Summary. ')):
                    out.append(mk_case(deco, [(sig, idoc)], f'grid:{rawkind}', enabled))
                for ndoc in range(3):
                    idoc = {'params': [(f'p{i}', 'int') for i in range(ndoc)], 'returns': None}
                    out.append(mk_case(deco, [(sig, idoc)], f'grid:doc{ndoc}/sig{nsig}', enabled))
    # a documented "type" whose evaluation raises a BaseException that is no Exception: outside the property's vocabulary,
    # kept to exercise the branch of the model (the handlers around eval name NameError and Exception)
    for deco in ('pedantic', 'require'):
        out.append(mk_case(deco, [({'params': [('p0', 'int')], 'ret': 'None'}, {'params': [('p0', 'exit()')], 'returns': None})],
                           'out-of-domain:exit()', in_domain=False))
        out.append(mk_case(deco, [({'params': [('p0', 'int')], 'ret': 'int'}, {'params': [('p0', 'int')], 'returns': ('typed', 'exit()')})],
                           'out-of-domain:exit()', in_domain=False))
    return out


# signatures with realistic names for the near-name family: ordinary parameters, variadic parameters, both
NEAR_SIGS = [
    {'params': [('values', 'List[int]'), ('factor', 'float')], 'ret': 'List[int]'},
    {'params': [('template', 'str'), ('options', 'Dict[str, int]')], 'ret': 'str'},
    {'params': [('p0', 'int'), ('*args', 'int'), ('**kwargs', 'str')], 'ret': 'None'},
    {'params': [('*args', 'My')], 'ret': 'bool'},
    {'params': [('**kwargs', 'Optional[int]')], 'ret': None},
    {'params': [('recipients', 'List[My]'), ('body', 'str')], 'ret': 'int'},
    {'params': [('x', 'int')], 'ret': 'None'},
]


def near_name_cases():
    """ONE documented parameter renamed to a name near the real one (everything else consistent: count of entries, types, Returns) — for
    functions, coroutine functions and methods of a pedantic_class_require_docstring class, under every trigger path; plus the consistent
    docstring itself.  A variadic parameter `*args: T` is documented consistently as `args (T)` (its name); `*args (T)` names no parameter."""
    out = []
    other_sig = {'params': [('count', 'int')], 'ret': 'int'}
    other = (other_sig, {'params': [('count', 'int')], 'returns': ('typed', 'int')})
    for sig0 in NEAR_SIGS:
        for is_async in (False, True):
            sig = dict(sig0, **({'async': True} if is_async else {}))
            cdoc = {'params': [(base(n), dict(POOL)[a][0]) for n, a in sig['params']],
                    'returns': None if sig['ret'] in (None, 'None') else ('typed', dict(POOL)[sig['ret']][0])}
            names = {base(n) for n, _ in sig['params']}
            variants = [('consistent:near-name-family', cdoc)]
            for i, (nm, ty) in enumerate(cdoc['params']):
                for kind, new in near_names(nm):
                    if new not in names:
                        variants.append(('rename-near:' + kind, {'params': cdoc['params'][:i] + [(new, ty)] + cdoc['params'][i + 1:], 'returns': cdoc['returns']}))
            for k, (label, idoc) in enumerate(variants):
                for deco in ('pedantic', 'require', 'require_kw'):
                    out.append(mk_case(deco, [(sig, idoc)], label))
                units = [[(sig, idoc)], [(sig, idoc), other], [other, (sig, idoc)]][k % 3]
                out.append(mk_case('class', units, label))
    return out


def none_returning_cases():
    """functions that return nothing (`-> None`, no return annotation, `__init__`) with a Returns section ADDED to the consistent
    docstring: typed, free text without a `type:` prefix (several texts, one- and two-line), empty, white space only — 0-2 parameters,
    def / async def, every trigger path incl. `__init__` and ordinary methods of both kinds of decorated classes.  Plus the other
    direction: a value-returning function whose Returns entry has no type / is empty.  (With plain @pedantic and no documented parameter
    checking does not apply and the docstring is accepted.)"""
    out = []
    rets = [('add-untyped-returns', ('untyped',))] + [('add-free-text-returns', ('untyped', t)) for t in FREE_TEXT] \
        + [('add-empty-returns', ('empty',)), ('add-blank-returns', ('blank',)), ('add-returns', ('typed', 'bool')), ('add-returns', ('typed', 'None'))]
    for nparams in (0, 1, 2):
        for ret in ('None', None):
            for is_async in (False, True):
                params = [('key', 'str'), ('value', 'int')][:nparams]
                sig = {'params': params, 'ret': ret, **({'async': True} if is_async else {})}
                docp = [(n, a) for n, a in params]
                for label, r in [('consistent:none-returning', None)] + rets:
                    idoc = {'params': docp, 'returns': r}
                    if nparams == 0 and r is None:
                        idoc = ' Summary. '
                    for deco in ('pedantic', 'require', 'require_kw', 'class', 'class_plain'):
                        out.append(mk_case(deco, [(sig, idoc)], label))
                    if not is_async and ret == 'None':
                        init = dict(sig, name='__init__')
                        for deco in ('class', 'class_plain'):
                            out.append(mk_case(deco, [(init, idoc)], label + ':__init__'))
                            out.append(mk_case(deco, [(init, idoc), ({'params': [('count', 'int')], 'ret': 'int'},
                                                                     {'params': [('count', 'int')], 'returns': ('typed', 'int')})], label + ':__init__'))
    sig = {'params': [('key', 'str')], 'ret': 'int'}
    for label, r in [('untyped-returns', ('untyped',)), ('empty-returns', ('empty',)), ('blank-returns', ('blank',))] \
            + [('free-text-returns', ('untyped', t)) for t in FREE_TEXT]:
        for deco in ('pedantic', 'require', 'class', 'class_plain'):
            out.append(mk_case(deco, [(sig, {'params': [('key', 'str')], 'returns': r})], label))
    return out


H_SIGS = [
    {'name': 'scale', 'params': [('value', 'int')], 'ret': 'int'},
    {'name': 'keep', 'params': [('v', 'int')], 'ret': 'int'},                       # overrides a method of the base class
    {'name': '__init__', 'params': [('factor', 'int'), ('offset', 'float')], 'ret': 'None'},
    {'name': 'collect', 'params': [('items', 'List[My]'), ('*args', 'int')], 'ret': None, 'async': True},
]


def hierarchy_cases(rng, tier):
    """class hierarchies: the class of the case derives from a class that was decorated before (with every class decorator built on
    for_all_methods, directly and one level up; also an undecorated base and no base) and is decorated itself with
    pedantic_class_require_docstring / pedantic_class; the methods IT defines (new ones, an override, __init__, a coroutine) carry the
    consistent docstring or one edit of it / no docstring.  What has to happen does not depend on the base."""
    out = []
    other = ({'name': 'other', 'params': [('count', 'int')], 'ret': 'int'}, {'params': [('count', 'int')], 'returns': ('typed', 'int')})
    for sig in H_SIGS:
        cdoc = consistent_doc(sig, rng, canonical=True)
        variants = [('consistent:hierarchy', cdoc)] + edits_of(sig, cdoc, rng, 1, near=False, near_name_count=(1 if tier == 'quick' else 4)) \
            + [('missing-docstring', None), ('empty-docstring', ''), ('summary-only', ' Summary. ')]
        for k, (label, idoc) in enumerate(variants):
            for b, base in enumerate([None] + list(BASES)):
                for deco in ('class', 'class_plain'):
                    units = [[(sig, idoc)], [(sig, idoc), other], [other, (sig, idoc)]][(k + b) % 3]
                    # every second class is defined first and decorated by a call afterwards (it is then bound in its module)
                    out.append(mk_case(deco, units, label, base=base, apply=('call' if (k + b) % 2 else 'syntax')))
    # an overriding method WITHOUT a docstring (or with an empty one) does not borrow the docstring of the method it overrides: the
    # class is defined first and decorated by a call (`C = pedantic_class_require_docstring(C)`), so that it can be found in its
    # module under its qualified name; the overridden methods of the base are documented consistently with the same signature
    over = [{'name': 'keep', 'params': [('v', 'int')], 'ret': 'int'}, {'name': '__init__', 'params': [('factor', 'int')], 'ret': 'None'}]
    for sig in over:
        for label, idoc in (('missing-docstring', None), ('empty-docstring', ''), ('consistent:hierarchy', consistent_doc(sig, rng, canonical=True))):
            for b, base in enumerate(list(BASES)):
                for deco in ('class', 'class_plain'):
                    for apply in ('call', 'syntax'):
                        units = [[(sig, idoc)], [(sig, idoc), other], [other, (sig, idoc)]][b % 3]
                        out.append(mk_case(deco, units, label + ':override', base=base, apply=apply))
    return out


def cases(rng, tier):
    out = grid_cases()
    nsig = 110 if tier == 'quick' else 1500
    per_node = 1 if tier == 'quick' else 3
    pool_core, pool_all = POOL[:N_CORE], POOL
    # every pool annotation once as parameter and once as return, canonical and every alternative spelling
    for ann, alts in POOL:
        for alt in alts:
            for deco in ('pedantic', 'require'):
                out.append(mk_case(deco, [({'params': [('p0', ann)], 'ret': 'None'}, {'params': [('p0', alt)], 'returns': None})], 'consistent:param-spelling'))
                out.append(mk_case(deco, [({'params': [('p0', 'int')], 'ret': ann}, {'params': [('p0', 'int')], 'returns': ('typed', alt)})], 'consistent:return-spelling'))
    for k in range(nsig):
        sig = gen_sig(rng, pool_core if k % 3 else pool_all)
        deco = rng.choice(['pedantic', 'pedantic', 'require', 'require_kw', 'class'])
        cdoc = consistent_doc(sig, rng)
        titles = (rng.choice(['Args', 'Args', 'Arguments', 'Parameters']), 'Returns')
        # the near misses that merely name the annotation are enumerated below for every pool annotation; inside the seeded
        # signatures (several parameters, mixed contexts) the quick tier adds them to every third one
        variants = [('consistent', cdoc)] + edits_of(sig, cdoc, rng, per_node, near=(tier != 'quick' or k % 3 == 0),
                                                      near_name_count=(3 if tier == 'quick' else None))
        if deco != 'pedantic':
            variants += [('missing-docstring', None), ('empty-docstring', ''), ('summary-only', ' Summary. ')]
        for label, idoc in variants:
            if deco == 'class':
                other_sig = gen_sig(rng, pool_core)
                other = (other_sig, consistent_doc(other_sig, rng))
                units = [(sig, idoc), other] if rng.random() < 0.5 else [other, (sig, idoc)]
                if rng.random() < 0.3:
                    units = [(sig, idoc)]
                out.append(mk_case('class', units, label, titles=titles))
            else:
                out.append(mk_case(deco, [(sig, idoc)], label, titles=titles, apply=('call' if k % 4 == 1 else 'syntax')))
        if k % 10 == 0:
            out.append(mk_case(deco, [(sig, cdoc)], 'consistent', enabled=False))
    out += near_name_cases()
    out += none_returning_cases()
    out += hierarchy_cases(rng, tier)
    out += member_cases(rng, tier)
    out += repeated_def_cases(rng, tier)
    out += alias_cases(rng, tier)
    # (after the seeded part: a failure that depends on an earlier case is bisected over everything that ran before it)
    # every pool annotation in every equal spelling x every near miss that merely names it, as a parameter, as the Returns
    # entry, next to a correctly documented neighbour, and under every trigger path
    for ann, alts in POOL:
        for alt in alts:
            for lab, text in near_misses(ann, alt):
                for deco in ('pedantic', 'require', 'require_kw', 'class'):
                    out.append(mk_case(deco, [({'params': [('p0', ann)], 'ret': 'None'}, {'params': [('p0', text)], 'returns': None})], lab))
                    out.append(mk_case(deco, [({'params': [('p0', 'int')], 'ret': ann}, {'params': [('p0', 'int')], 'returns': ('typed', text)})], lab + '-returns'))
                out.append(mk_case('pedantic', [({'params': [('p0', 'str'), ('p1', ann)], 'ret': ann},
                                                 {'params': [('p0', 'str'), ('p1', text)], 'returns': ('typed', alt)})], lab))
                out.append(mk_case('pedantic', [({'params': [('p0', ann), ('p1', 'My')], 'ret': ann},
                                                 {'params': [('p0', alt), ('p1', 'My')], 'returns': ('typed', text)})], lab + '-returns'))
    return out


def search(rng, tier, near):
    out = []
    for k in range(60):
        sig = gen_sig(rng, POOL)
        deco = rng.choice(['pedantic', 'require', 'class'])
        cdoc = consistent_doc(sig, rng)
        for label, idoc in [('consistent', cdoc)] + edits_of(sig, cdoc, rng, 1):
            out.append(mk_case(deco, [(sig, idoc)], label))
    return out + near_name_cases() + none_returning_cases() + hierarchy_cases(rng, tier) + member_cases(rng, tier) + repeated_def_cases(rng, tier) + alias_cases(rng, tier)


# ------------------------------------------------------------------------------------------------ implementation side

def wrapped_status(cls, members):
    """were the functions the class holds replaced by wrappers: all ('ok'), none ('original'), some ('partial')"""
    flags = []
    for m in members:
        v = cls.__dict__[m[0]]
        if m[1] == 'fn':
            if isinstance(v, (staticmethod, classmethod)):
                v = v.__func__
            flags.append(hasattr(v, '__wrapped__'))
        else:
            for part in m[2]:
                acc = getattr(v, part, None)
                flags.append(acc is not None and hasattr(acc, '__wrapped__'))
    return 'ok' if all(flags) else ('partial' if any(flags) else 'original')


def run_chunk(cases, tag=''):
    """one interpreter, the cases one after the other (whatever the library keeps between decorations stays)"""
    d = tempfile.mkdtemp(prefix='pedverif_c19_')
    out = []
    saved = os.environ.get('ENABLE_PEDANTIC')
    sys.path.insert(0, d)              # importlib.reload finds a module again through sys.path
    try:
        for k, case in enumerate(cases):
            name = f'c19_mod_{tag}{k}'
            path = os.path.join(d, name + '.py')
            if case['c']['env']['enabled']:
                os.environ.pop('ENABLE_PEDANTIC', None)
            else:
                os.environ['ENABLE_PEDANTIC'] = '0'
            if case['x'].get('prime_src'):
                # primed twin (amplified run): a decoy with the same module name, file name and qualified names but another docstring
                # is imported (decorated) first; whatever it does is ignored
                with open(path, 'w') as f:
                    f.write(case['x']['prime_src'])
                try:
                    dspec = importlib.util.spec_from_file_location(name, path)
                    dspec.loader.exec_module(importlib.util.module_from_spec(dspec))
                except BaseException:
                    pass
                importlib.invalidate_caches()
            with open(path, 'w') as f:
                f.write(case['x']['src'])
            spec = importlib.util.spec_from_file_location(name, path)
            mod = importlib.util.module_from_spec(spec)
            sys.modules[name] = mod        # as an import does: the module is registered while its body runs
            try:
                spec.loader.exec_module(mod)
                for _ in range(case['x'].get('reloads', 0)):
                    importlib.reload(mod)
                if case['c']['kind'] == 'seq':
                    res = 'ok' if hasattr(mod.PROBE, '__wrapped__') else 'original'
                elif case['c']['kind'] == 'class' and 'members' in case['x']:
                    res = wrapped_status(mod.C, case['x']['members'])
                else:
                    target = mod.C.__dict__[case['x'].get('probe', 'm0')] if case['c']['kind'] == 'class' else mod.f
                    res = 'ok' if hasattr(target, '__wrapped__') else 'original'
            except BaseException as e:
                res = type(e).__name__
            finally:
                sys.modules.pop(name, None)
            out.append({'out': res})
            os.remove(path)
    finally:
        if d in sys.path:
            sys.path.remove(d)
        if saved is None:
            os.environ.pop('ENABLE_PEDANTIC', None)
        else:
            os.environ['ENABLE_PEDANTIC'] = saved
        shutil.rmtree(d, ignore_errors=True)
    return out


_CHUNKS = None


def _run_chunk_no(n):
    return run_chunk(_CHUNKS[n], tag=f'{n}_')


def run_impl(cases):
    """a large run is split into a few contiguous chunks, each executed in a forked worker (every case is a module of its own; the cases
    that are ABOUT state between decorations — kind `seq` — carry their whole history inside one module); small runs and replays
    (a failing case with the cases that ran before it) stay in this process, in order"""
    global _CHUNKS
    workers = int(os.environ.get('VERIF_C19_WORKERS', '4'))
    if len(cases) < 3000 or workers <= 1:
        return run_chunk(cases)
    import multiprocessing as mp
    size = (len(cases) + workers - 1) // workers
    _CHUNKS = [cases[i:i + size] for i in range(0, len(cases), size)]
    try:
        with mp.get_context('fork').Pool(len(_CHUNKS)) as pool:
            parts = pool.map(_run_chunk_no, range(len(_CHUNKS)))
    finally:
        _CHUNKS = None
    return [r for part in parts for r in part]


def norm(o):
    if isinstance(o, str):
        return o
    return o[1]


F_PARSER = 'C19-returns-type-with-blank-not-recognised'


# edits that make the docstring inconsistent whatever the signature is (a cross-check of the specification pipeline itself)
INCONSISTENT = {'drop-param', 'rename-param', 'dup-param-adjacent', 'dup-param-replacing-next', 'drop-type', 'typing-prefix',
                'unparsable-type', 'ill-typed-type', 'add-param', 'add-param-front', 'document-unannotated', 'drop-returns',
                'untyped-returns', 'typing-prefix-returns', 'unparsable-returns', 'ill-typed-returns', 'add-returns',
                'add-untyped-returns', 'missing-docstring', 'empty-docstring',
                'free-text-returns', 'empty-returns', 'blank-returns', 'add-free-text-returns', 'add-empty-returns', 'add-blank-returns',
                'bare-origin', 'bare-origin-other-spelling', 'bare-origin-returns', 'bare-origin-other-spelling-returns',
                'alias-wrong', 'alias-wrong-returns'}


def judge(case, impl, model):
    m = norm(model['model'])
    label = case['x']['edit'].split('@')[0]
    if ((label in INCONSISTENT or label.startswith('rename-near:')) and model['spec']['consistent']) \
            or (label.startswith('consistent') and not model['spec']['consistent']):
        raise RuntimeError('specification pipeline disagrees with the construction of the case: ' + json.dumps(case['x']))
    got = impl['out']
    why = []
    if m == 'UNMODELLED':
        why.append('the model left its fragment of Python (the generator or the code went outside what is modelled)')
    if m != got:
        why.append(f'model says {m}, implementation says {got}')
    if not model['den_agree']:
        why.append('Lean evaluator (module namespace) disagrees with the real eval on a documented type')
    for (a, b, e1, e2), (m1, m2) in zip(itertools.chain.from_iterable(u['eqs'] for u in case['c']['units']), model['eqs']):
        if e1 != m1 or e2 != m2:
            why.append(f'annEq {a} {b}: real ==: {e1}/{e2}, model: {m1}/{m2}')
    corr = not why
    enabled = case['c']['env']['enabled']
    pfail = None
    if not case['x'].get('in_domain', True):
        pass          # a documented "type" outside the property's vocabulary (a call): only the correspondence is checked
    elif enabled:
        exp = norm(model['spec']['expected'])
        if exp != got:
            if exp == 'ok' and got == 'original':
                pfail = 'pedantic is enabled but the function came back undecorated: nothing was checked (consistent docstring)'
            elif exp == 'ok' and got == 'partial':
                pfail = 'pedantic is enabled but some function of the class came back undecorated: its docstring was never looked at'
            elif exp == 'ok':
                pfail = f'the docstring is consistent with the signature but decoration raised {got}'
            elif got in ('ok', 'original', 'partial'):
                pfail = 'an inconsistent / missing docstring was accepted although docstring checking applies'
            else:
                pfail = f'the inconsistent docstring was rejected with {got} instead of PedanticDocstringException'
    elif got != 'original':
        pfail = f'pedantic is disabled but decoration gave {got}'
    finding = None
    if pfail and m == got:
        # the one recorded region: docstring_parser did not return the Returns entry as written, the docstring as
        # written is consistent, and the library rejects what the parser handed it with PedanticDocstringException
        if not model['parser_faithful'] and model['spec']['consistent'] and got == 'PedanticDocstringException':
            finding = F_PARSER
    xx = case['x']
    tag = (f"{xx['deco']}{'<' + xx['base'] if xx.get('base') else ''}{'(call)' if xx.get('apply') == 'call' else ''}"
           f"{':' + xx['role'] if xx.get('role') else ''}{':' + xx['shape'] if xx.get('shape') else ''}/{xx['edit'].split('@')[0]}/{got}")
    return {'corr': corr, 'pfail': pfail, 'finding': finding, 'nontrivial': bool(model['spec']['applies']) and enabled,
            'tag': tag, 'why': '; '.join(why)}


def extra_coverage(results):
    edits, outs, dts, nodes = {}, {}, {}, {}
    for (c, i, m, j) in results:
        e = c['x']['edit'].split('@')
        edits[e[0]] = edits.get(e[0], 0) + 1
        if len(e) > 1:
            nodes[e[1]] = nodes.get(e[1], 0) + 1
        outs[i['out']] = outs.get(i['out'], 0) + 1
        for u in m['dts']:
            for t in u['params'] + ([u['returns'][1]] if u['returns'] else []):
                dts[t] = dts.get(t, 0) + 1
    return {'edit_histogram': edits, 'outcome_histogram': outs, 'documented_type_outcome_classes': dts,
            'edited_syntax_node_kinds': nodes}


# ------------------------------------------------------------------ twins for the amplified run (core.amplified_run, props/_twins.py)

_DECOY_DOC = 'Summary.\n\n    Args:\n        zz_nope (int): text\n    '


def _decoy_src(src, how):
    """the module of a case with other docstrings: `nodoc` = no docstring at all and decorators that do not demand one (decoration
    succeeds), `baddoc` = every docstring documents a parameter that does not exist (decoration of a checked function fails)"""
    tree = ast.parse(src)
    changed = False
    for node in ast.walk(tree):
        if isinstance(node, (ast.FunctionDef, ast.AsyncFunctionDef)):
            has = bool(node.body) and isinstance(node.body[0], ast.Expr) and isinstance(node.body[0].value, ast.Constant) \
                and isinstance(node.body[0].value.value, str)
            if how == 'nodoc' and has:
                node.body = node.body[1:] or [ast.Pass()]
                changed = True
            elif how == 'baddoc' and has:
                node.body[0].value = ast.Constant(_DECOY_DOC)
                changed = True
        if how == 'nodoc' and isinstance(node, (ast.FunctionDef, ast.AsyncFunctionDef, ast.ClassDef)):
            for i, dn in enumerate(node.decorator_list):
                t = ast.unparse(dn)
                if t in ('pedantic_require_docstring', 'pedantic(require_docstring=True)'):
                    node.decorator_list[i] = ast.Name('pedantic', ast.Load()); changed = True
                elif t == 'pedantic_class_require_docstring':
                    node.decorator_list[i] = ast.Name('pedantic_class', ast.Load()); changed = True
    if not changed:
        return None
    return ast.unparse(ast.fix_missing_locations(tree)) + '\n'


def twins(case):
    """primed twins: the module of the case is imported after a decoy that has the SAME module name, file and qualified names (same
    signatures) but no docstring / an inconsistent docstring; the expected outcome is the one of the case itself"""
    if case.get('x', {}).get('prime_src'):
        return []
    out = []
    for how in ('nodoc', 'baddoc'):
        try:
            d = _decoy_src(case['x']['src'], how)
        except Exception:
            d = None
        if d is not None and d != case['x']['src']:
            out.append(dict(case, x=dict(case['x'], prime_src=d, prime=how)))
    return out
