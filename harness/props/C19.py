"""C19 — docstring checking: generated real modules (signature x Google-style docstring x single edit x trigger path) run
through the library at import time, against the Lean model `Docstring` (pedantic.decorator trigger, _check_docstring,
_assert_docstring_is_complete, _parse_documented_type, _update_context, typing construction/equality) and the Lean spec."""
import ast, os, sys, json, tempfile, shutil, importlib.util, itertools, types, typing

RULE = ('signatures with 0-3 parameters (annotated from a pool of 27 annotations: the 19 of the property + nested/PEP 604/builtin '
        'extras, some parameters unannotated) and return annotation (pool / None / absent) x the consistent Google-style '
        'docstring rendered from the signature in a random equal spelling (Optional/Union/| permutations, Literal order, section '
        'title synonyms, documentation order; variadic parameters *args / **kwargs, whose NAMES are args / kwargs; def and async def) x every single '
        'edit (drop / add / rename / duplicate / reorder a parameter; rename to a NEAR name: 1-3 leading `*`, trailing `*`, `*x*`, leading / trailing / '
        'inner `_`, `__x__`, upper case, capitalised, a blank inside, proper prefix / suffix, last letter doubled, backticks, `self.x`, trailing hyphen — '
        'enumerated for 7 signatures with realistic names incl. variadic ones x every parameter x def / async def x every trigger path incl. methods of a '
        'pedantic_class_require_docstring class, sampled inside the seeded signatures; change '
        'the documented type to something that merely NAMES the annotation — the bare origin of a parametrised type at the top and at every inner '
        'subscript in the typing and the builtin spelling, the outer type with one argument dropped, every string the annotation object or its '
        'origin reports as __name__ / __qualname__ / _name — for every pool annotation x spelling x {parameter, Returns, next to a correct '
        'neighbour} x trigger path (enumerated), change '
        'the documented type at every node of its syntax tree, drop the type, typing. prefix, undefined name, class outside the '
        'context, unparsable text, wrong arity, drop / add / alter / untype Returns — also a Returns section with free text without a `type:` prefix '
        '(8 texts, one- and two-line), with nothing in it, with white space only: added to functions returning None (`-> None`, no annotation, `__init__`; '
        '0-2 parameters; def / async def) and replacing the typed entry of value-returning ones —, missing / empty / summary-only docstring) x '
        'trigger paths (@pedantic, @pedantic_require_docstring, @pedantic(require_docstring=True), pedantic_class_require_docstring '
        'on a class with 1-2 methods, pedantic_class (methods are @pedantic functions), ENABLE_PEDANTIC=0); CLASS HIERARCHIES: the decorated class '
        'derives from a class decorated before with pedantic_class / pedantic_class_require_docstring / trace_class / timer_class / '
        'for_all_methods(pedantic), directly or one level up (also an undecorated base, no base), and defines a new method / an override / __init__ / a '
        'coroutine with the consistent docstring, every single edit of it or none; the finite grid trigger x raw docstring kind x number of documented '
        'parameters is enumerated.  Each case is a real .py module imported from a temp dir; outcome = exception class raised '
        'by the import (or none) and whether a wrapper was returned.  non-trivial = docstring checking applies')
EXHAUSTIVE = {'quick': False, 'thorough': False}
ASSUMPTIONS = [
    'docstring_parser is installed (without it `decorated_func.docstring` is None and nothing is ever checked, also not with require_docstring)',
    'pedantic is enabled unless the case says otherwise (ENABLE_PEDANTIC unset / "0" set by the harness around the import)',
    'annotations are evaluated eagerly (no `from __future__ import annotations`); parameter names are distinct (Python syntax)',
    'the NAME of a parameter is its key in __annotations__ / inspect: `args` for `*args: T`, `kwargs` for `**kwargs: T`.  By the letter of the property '
    '("documents exactly the annotated parameters") `args (T)` documents the variadic parameter and `*args (T)` — the spelling the Google style guide uses — '
    'names no parameter: specification, model and library agree on this (the library rejects `*args (T)`); whether the starred spelling should be '
    'admitted for real variadic parameters is a design question for the integrator, not decided here',
    'documented types use only identifiers the model knows (builtin classes, the typing names of the fragment, the module\'s '
    'own names My/Other/T, undefined names); the generator checks this for every case',
]
TRUSTED = [
    'docstring_parser 0.16 `parse` (style AUTO): the harness abstracts the generated docstring by calling it, exactly as '
    'DecoratedFunction does; where its result differs from the docstring as written (a Returns type with a blank that does not '
    'end in `]`) the case is reported as the parser-limitation region',
    'the meaning of a documented type for the *specification* is computed by the harness with the real interpreter: eval of the '
    'text in a clean namespace (typing names, builtins, the module\'s My/Other/T), abstracted by `to_val` (introspection of '
    '__origin__/__args__/type()); the Lean evaluator `evalD` and typing-object equality `annEq` are environment models, compared '
    'with the real eval / real `==` on every case (fields den_agree / eqs)',
    'Python `ast.parse(text, mode="eval")` gives the syntax tree that `eval(text, ...)` evaluates',
]

# ------------------------------------------------------------------------------------------------ typing side of the harness

class My: pass
class Other: pass
T = typing.TypeVar('T')
NSMOD = {k: getattr(typing, k) for k in typing.__all__}
NSMOD.update({'My': My, 'Other': Other, 'T': T})
NS_JSON = [['My', ['cls', 'My']], ['Other', ['cls', 'Other']], ['T', ['tvar', 'T']]]
KNOWN = {'int', 'str', 'float', 'bool', 'list', 'dict', 'tuple', 'set', 'bytes',
         'List', 'Dict', 'Tuple', 'Set', 'Type', 'Optional', 'Union', 'Callable', 'Literal', 'Any'}
USER = {'My', 'Other', 'T', 'Foo', 'NoneType'}          # Foo is defined nowhere; NoneType only ever through the context
HEADS = {list: 'List', dict: 'Dict', tuple: 'Tuple', set: 'Set', type: 'Type', typing.Literal: 'Literal'}


class OutsideFragment(Exception):
    pass


def to_val(o):
    """abstraction of a real typing object"""
    import collections.abc
    if isinstance(o, str): return ['str', o]
    if o is None: return ['none']
    if o is Ellipsis: return ['ellipsis']
    if isinstance(o, bool): return ['bool', o]
    if isinstance(o, int): return ['int', o]
    if isinstance(o, typing.TypeVar): return ['tvar', o.__name__]
    if isinstance(o, typing.ForwardRef): return ['fref', o.__forward_arg__]
    if isinstance(o, list): return ['pylist', [to_val(x) for x in o]]
    if isinstance(o, types.UnionType): return ['union', False, [to_val(a) for a in o.__args__]]
    if isinstance(o, types.GenericAlias): return ['balias', o.__origin__.__name__, [to_val(a) for a in o.__args__]]
    if o is typing.Any: return ['special', 'Any']
    org = typing.get_origin(o)
    if org is typing.Union: return ['union', True, [to_val(a) for a in o.__args__]]
    if org is collections.abc.Callable and hasattr(o, '__args__'): return ['talias', 'Callable', [to_val(a) for a in o.__args__]]
    if org in HEADS and hasattr(o, '__args__'): return ['talias', HEADS[org], [to_val(a) for a in o.__args__]]
    if isinstance(o, type): return ['cls', o.__name__]
    name = getattr(o, '_name', None)
    if name in KNOWN and str(o) == 'typing.' + name: return ['special', name]
    raise OutsideFragment(repr(o))


def to_expr(text):
    """syntax tree of a documented type (None: not an expression)"""
    try:
        tree = ast.parse(text, mode='eval').body
    except SyntaxError:
        return None

    def go(n):
        if isinstance(n, ast.Name):
            if n.id not in KNOWN and n.id not in USER:
                raise OutsideFragment('identifier ' + n.id)
            return ['name', n.id]
        if isinstance(n, ast.Attribute): return ['name', ast.unparse(n)]          # dotted names are bound nowhere
        if isinstance(n, ast.Constant):
            v = n.value
            if v is None: return ['none']
            if v is Ellipsis: return ['ellipsis']
            if isinstance(v, bool): return ['bool', v]
            if isinstance(v, int): return ['int', v]
            if isinstance(v, str): return ['str', v]
        if isinstance(n, ast.Subscript):
            args = n.slice.elts if isinstance(n.slice, ast.Tuple) else [n.slice]
            return ['sub', go(n.value), [go(a) for a in args]]
        if isinstance(n, ast.BinOp) and isinstance(n.op, ast.BitOr): return ['bor', go(n.left), go(n.right)]
        if isinstance(n, ast.List): return ['list', [go(a) for a in n.elts]]
        if isinstance(n, ast.Call) and ast.unparse(n) == 'exit()': return ['exit']     # raises SystemExit (no Exception)
        raise OutsideFragment(ast.dump(n))
    return go(tree)


def tt(text):
    return None if text is None else {'text': text, 'expr': to_expr(text)}


def meaning(text):
    """what the text denotes in the module's namespace, by the real interpreter (None: nothing)"""
    if text is None:
        return None, None
    try:
        o = eval(text, dict(NSMOD))
    except BaseException:
        return None, None
    return o, to_val(o)


# ------------------------------------------------------------------------------------------------ generator

# (annotation source, equal spellings for the docstring)
POOL = [
    ('int', ['int']), ('str', ['str']), ('List[int]', ['List[int]']), ('Dict[str, int]', ['Dict[str, int]']),
    ('Optional[int]', ['Optional[int]', 'Union[int, None]', 'Union[None, int]', 'int | None', 'None | int']),
    ('Union[int, str]', ['Union[int, str]', 'Union[str, int]', 'int | str', 'Union[int, str, int]']),
    ('My', ['My']), ('List[My]', ['List[My]']), ('Tuple[int, ...]', ['Tuple[int, ...]']),
    ('Callable[[int], str]', ['Callable[[int], str]']), ('list[int]', ['list[int]']),
    ('int | None', ['int | None', 'Optional[int]', 'Union[None, int]']), ('Any', ['Any']),
    ('Literal[1, 2]', ['Literal[1, 2]', 'Literal[2, 1]']), ('T', ['T']), ("'My'", ['My']), ('Type[My]', ['Type[My]']),
    ('float', ['float']), ('bool', ['bool']),
    # beyond the 19 of the property text: nesting, PEP 604 with a user class, builtin generics, Callable shapes
    ('Dict[str, List[Optional[My]]]', ['Dict[str, List[Optional[My]]]', 'Dict[str, List[Union[None, My]]]']),
    ('Optional[List[My]]', ['Optional[List[My]]', 'Union[List[My], None]', 'List[My] | None']),
    ('My | None', ['My | None', 'Optional[My]']), ('dict[str, list[int]]', ['dict[str, list[int]]']),
    ('Callable[..., Any]', ['Callable[..., Any]']), ('Tuple[int, str]', ['Tuple[int, str]']),
    ('Union[int, List[str], None]', ['Union[int, List[str], None]', 'Optional[Union[List[str], int]]']),
    ('Set[T]', ['Set[T]']),
]
N_CORE = 19
RET_EXTRA = [('None', None), (None, None)]       # `-> None`, no return annotation
ATOMS = ['int', 'str', 'float', 'None', 'My', 'Other', 'Foo', 'T', 'Any']
HEAD_SWAP = {'List': ['list', 'Set'], 'list': ['List', 'set'], 'Dict': ['dict'], 'dict': ['Dict'], 'Tuple': ['tuple', 'Union'],
             'Set': ['List'], 'Type': ['List'], 'Optional': ['List'], 'Union': ['Tuple'], 'Callable': [], 'Literal': []}
# Returns entries without a `type:` prefix (no colon anywhere: docstring_parser takes what precedes the first colon for the type)
FREE_TEXT = ['whether the value was stored', 'nothing of interest', 'the stored value, always', 'a new store', 'None',
             'the value that was stored\nand a second line of prose', 'int', 'bool - True on success']
UNPARSABLE = ['List[int', 'int str', 'List[int]]', '?']                      # SyntaxError out of eval
ILL_TYPED = ['List[int, str]', 'Dict[str]', 'int[str]', 'Optional[int, str]', 'Any[int]', 'Callable[[int]]', 'None | None']   # TypeError


def node_edits(text, rng, per_node):
    """every node of the syntax tree of `text`, replaced (in up to per_node ways) by something else"""
    tree = ast.parse(text, mode='eval')
    out = []
    nodes = [n for n in ast.walk(tree.body)]
    for idx, n in enumerate(nodes):
        if isinstance(n, (ast.Tuple, ast.expr_context, ast.operator)):
            continue
        here = ast.unparse(n)
        is_head = any(isinstance(p, ast.Subscript) and p.value is n for p in nodes)
        in_list = isinstance(n, ast.List)
        if is_head:
            cands = list(HEAD_SWAP.get(here, []))
        elif in_list:
            cands = ['[str]', '[int, int]', '...', '[]']
        elif isinstance(n, ast.Constant) and isinstance(n.value, int) and not isinstance(n.value, bool):
            cands = ['3', 'True', str(n.value + 1)]
        else:
            cands = ATOMS + [f'List[{here}]', f'Optional[{here}]']
            if isinstance(n, ast.Subscript):
                a = n.slice.elts[0] if isinstance(n.slice, ast.Tuple) and n.slice.elts else n.slice
                if not isinstance(a, ast.Tuple):
                    cands.append(ast.unparse(a))            # unwrap
            if isinstance(n, ast.BinOp):
                cands += [ast.unparse(n.left), ast.unparse(n.right)]
            if isinstance(n, ast.Constant) and n.value is Ellipsis:
                cands = ['str', 'int']
        cands = [c for c in cands if c != here]
        rng.shuffle(cands)
        for c in cands[:per_node]:
            # substitute by position on a fresh tree
            fresh = ast.parse(text, mode='eval')
            fnodes = [m for m in ast.walk(fresh.body)]
            target = fnodes[idx]

            class S(ast.NodeTransformer):
                def visit(self, node):
                    if node is target:
                        return ast.parse(c, mode='eval').body
                    return self.generic_visit(node)
            new = ast.unparse(ast.fix_missing_locations(S().visit(fresh)))
            if new != text:
                out.append((f'node{idx}:{type(n).__name__}', new))
    return out


OTHER_SPELLING = {'List': 'list', 'list': 'List', 'Dict': 'dict', 'dict': 'Dict', 'Tuple': 'tuple', 'tuple': 'Tuple', 'Set': 'set', 'set': 'Set'}


def in_fragment(text):
    try:
        return to_expr(text) is not None
    except OutsideFragment:
        return False


def near_misses(ann, ty):
    """documented types that merely *name* the annotation `ann` (source text) whose consistent spelling is `ty`:
       the bare origin of a parametrised type (at the top and at every inner subscript, in the typing and in the builtin
       spelling), the outer type with one argument dropped, and every string the annotation object (or its origin) reports as
       its own name (`__name__`, `__qualname__`, `_name`).  Deterministic; every result differs from `ty` as text."""
    out = []

    def add(label, text):
        if text != ty and in_fragment(text) and all(t != text for _, t in out):      # the first label of a text wins
            out.append((label, text))
    tree = ast.parse(ty, mode='eval')
    nodes = list(ast.walk(tree.body))
    for idx, n in enumerate(nodes):
        if not isinstance(n, ast.Subscript):
            continue
        top = n is tree.body
        head = ast.unparse(n.value)
        elts = list(n.slice.elts) if isinstance(n.slice, ast.Tuple) else [n.slice]
        repl = [('bare-origin' if top else 'bare-origin-inner', head)]
        if head in OTHER_SPELLING:
            repl.append(('bare-origin-other-spelling' if top else 'bare-origin-inner', OTHER_SPELLING[head]))
        if len(elts) >= 2:
            for k in range(len(elts)):
                rest = elts[:k] + elts[k + 1:]
                repl.append(('drop-arg', f"{head}[{', '.join(ast.unparse(e) for e in rest)}]"))
        for label, c in repl:
            fresh = ast.parse(ty, mode='eval')
            target = list(ast.walk(fresh.body))[idx]

            class S(ast.NodeTransformer):
                def visit(self, node):
                    if node is target:
                        return ast.parse(c, mode='eval').body
                    return self.generic_visit(node)
            add(label, ast.unparse(ast.fix_missing_locations(S().visit(fresh))))
    # what the annotation object calls itself
    try:
        o = eval(ann, dict(NSMOD))
    except Exception:
        o = None
    o = NSMOD.get(o, o) if isinstance(o, str) else o
    objs = [('', o)] + ([('origin', typing.get_origin(o))] if typing.get_origin(o) is not None else [])
    for who, obj in objs:
        for attr in ('__name__', '__qualname__', '_name'):
            v = getattr(obj, attr, None)
            if isinstance(v, str) and v:
                add(f'name-like:{who}{attr}', v)
                if v in OTHER_SPELLING:
                    add(f'name-like:{who}{attr}-other-spelling', OTHER_SPELLING[v])
    return out


def base(nm):
    """the NAME of a parameter written `*args` / `**kwargs` in the signature is `args` / `kwargs` (inspect, `__annotations__`)"""
    return nm.lstrip('*')


_ROUNDTRIP = {}


def roundtrips(name):
    """docstring_parser hands the documented name back as written (it strips blanks around a name, so a variant that differs only
    there is the same name and is not generated)"""
    if name not in _ROUNDTRIP:
        import docstring_parser
        d = docstring_parser.parse(render_doc({'params': [(name, 'int')], 'returns': None}))
        _ROUNDTRIP[name] = [(q.arg_name, q.type_name) for q in d.params] == [(name, 'int')]
    return _ROUNDTRIP[name]


def near_names(nm):
    """(kind, name) — names that are NOT the parameter's name but close to it: leading / trailing / surrounding `*` and `_`, another
    case, a blank inside, a proper prefix / suffix, the name extended, decorated spellings (`self.x`, backticks).  For a parameter
    written `*args` in the signature the name is `args`; `*args`, `**args` … are near names like for every other parameter."""
    b = base(nm)
    out = [('star1-prefix', '*' + b), ('star2-prefix', '**' + b), ('star3-prefix', '***' + b), ('star-suffix', b + '*'),
           ('star-around', '*' + b + '*'), ('underscore-prefix', '_' + b), ('underscore-suffix', b + '_'),
           ('dunder', '__' + b + '__'), ('upper', b.upper()), ('capitalized', b[:1].upper() + b[1:]), ('lower', b.lower()),
           ('extended', b + b[-1:]), ('backticks', '`' + b + '`'), ('dotted', 'self.' + b), ('hyphen-suffix', b + '-')]
    if len(b) >= 2:
        k = len(b) // 2
        out += [('inner-blank', b[:k] + ' ' + b[k:]), ('prefix', b[:-1]), ('suffix', b[1:]), ('inner-underscore', b[:k] + '_' + b[k:])]
    seen, res = {b}, []
    for kind, n in out:
        if n not in seen and roundtrips(n):
            seen.add(n)
            res.append((kind, n))
    return res


def render_doc(idoc, title_args='Args', title_ret='Returns'):
    """the docstring text (without quotes) for an intended docstring"""
    if isinstance(idoc, str):
        return idoc
    lines = [' Summary.', '']
    if idoc['params']:
        lines.append(f'    {title_args}:')
        for nm, ty in idoc['params']:
            lines.append(f'        {nm} ({ty}): text' if ty is not None else f'        {nm}: text')
        lines.append('')
    r = idoc['returns']
    if r is not None:
        lines.append(f'    {title_ret}:')
        if r[0] == 'typed':
            lines.append(f'        {r[1]}: text')
        elif r[0] == 'untyped':             # a Returns entry without a `type:` prefix: free text (r[1], when given; no colon in it)
            lines += ['        ' + ln for ln in (r[1] if len(r) > 1 else 'text without a type').split('\n')]
        elif r[0] == 'blank':               # a Returns section with nothing but white space in it
            lines.append('        \t ')
        else:
            assert r[0] == 'empty'          # a Returns section with nothing in it
        lines.append('')
    return '\n'.join(lines) + '    '


HEAD_SRC = ('from typing import *\nfrom pedantic import pedantic, pedantic_require_docstring, pedantic_class_require_docstring\n'
            'from pedantic import pedantic_class, trace_class, timer_class, for_all_methods\n'
            'class My: pass\nclass Other: pass\nT = TypeVar("T")\n')
DECO_SRC = {'pedantic': '@pedantic', 'require': '@pedantic_require_docstring', 'require_kw': '@pedantic(require_docstring=True)'}


def render_fn(name, sig, doctext, indent, deco_line, selfarg):
    ps = (['self'] if selfarg else []) + [nm if ann is None else f'{nm}: {ann}' for nm, ann in sig['params']]
    ret = '' if sig['ret'] is None else f" -> {sig['ret']}"
    lines = []
    if deco_line:
        lines.append(indent + deco_line)
    lines.append(f"{indent}{'async ' if sig.get('async') else ''}def {name}({', '.join(ps)}){ret}:")
    if doctext is not None:
        body = doctext.replace('\n    ', '\n' + indent + '    ') if indent else doctext
        lines.append(f'{indent}    """{body}"""')
    lines.append(f'{indent}    pass')
    return '\n'.join(lines) + '\n'


def abstract_unit(sig, idoc, doctext, deco):
    """the abstract case of one decorated function.  `doctext` is func.__doc__ (None: no docstring)."""
    import docstring_parser
    anns = []
    ann_objs = {}
    for nm, ann in sig['params']:
        nm = base(nm)
        if ann is not None:
            o = eval(ann, dict(NSMOD)); ann_objs[nm] = o
            anns.append([nm, to_val(o)])
    if sig['ret'] is None: ret = ['absent']; ret_obj = None
    elif sig['ret'] == 'None': ret = ['none']; ret_obj = None
    else:
        ret_obj = eval(sig['ret'], dict(NSMOD)); ret = ['val', to_val(ret_obj)]
    raw = 'none' if doctext is None else ('empty' if doctext == '' else 'text')
    parsed = docstring_parser.parse(doctext)
    doc = {'params': [[p.arg_name, tt(p.type_name)] for p in parsed.params],
           'returns': None if parsed.returns is None else
           [len(parsed.returns.args), tt(parsed.returns.args[1]) if len(parsed.returns.args) > 1 else None]}
    if isinstance(idoc, dict):
        ip, ir = idoc['params'], idoc['returns']
    else:
        ip, ir = [], None
    eqs = []

    def res(o):          # a string annotation means the module's object of that name
        return NSMOD.get(o, o) if isinstance(o, str) else o
    den_params = []
    for nm, ty in ip:
        o, v = meaning(ty)
        den_params.append([nm, v])
        if v is not None and nm in ann_objs:
            a = res(ann_objs[nm])
            eqs.append([to_val(a), v, bool(a == o), bool(o == a)])
    intended = {'params': [[nm, tt(ty)] for nm, ty in ip],
                'returns': None if ir is None else (['typed', tt(ir[1])] if ir[0] == 'typed' else ['untyped'])}
    if ir is None: den_ret = None
    elif ir[0] == 'typed':
        o, v = meaning(ir[1]); den_ret = ['typed', v]
        if v is not None and ret_obj is not None:
            a = res(ret_obj)
            eqs.append([to_val(a), v, bool(a == o), bool(o == a)])
    else: den_ret = ['untyped']
    return {'req': deco != 'pedantic', 'deco': deco, 'sig': {'anns': anns, 'ret': ret, 'raw': raw}, 'doc': doc, 'intended': intended,
            'den': {'params': den_params, 'returns': den_ret}, 'ns': NS_JSON, 'eqs': eqs}


BASE_DOC = ('        """ Summary.\n\n        Args:\n            {p} (int): text\n{r}        """\n')
BASE_BODY = ('    def __init__(self, factor: int) -> None:\n' + BASE_DOC.format(p='factor', r='') + '        self.factor = factor\n\n'
             '    def keep(self, v: int) -> int:\n' + BASE_DOC.format(p='v', r='\n        Returns:\n            int: text\n') + '        return v\n\n')
# a base class that has been decorated BEFORE the class of the case is: with each class decorator built on for_all_methods, directly
# and one level further up (every method of the base is documented consistently, so each of the decorators accepts it)
BASES = {
    'pedantic_class': '@pedantic_class\nclass B:\n' + BASE_BODY,
    'pedantic_class_require_docstring': '@pedantic_class_require_docstring\nclass B:\n' + BASE_BODY,
    'trace_class': '@trace_class\nclass B:\n' + BASE_BODY,
    'timer_class': '@timer_class\nclass B:\n' + BASE_BODY,
    'for_all_methods': '@for_all_methods(decorator=pedantic)\nclass B:\n' + BASE_BODY,
    'grandparent': '@pedantic_class_require_docstring\nclass A:\n' + BASE_BODY + 'class B(A):\n    pass\n\n',
    'undecorated': 'class B:\n' + BASE_BODY,
}
CLASS_DECO = {'class': '@pedantic_class_require_docstring', 'class_plain': '@pedantic_class'}


def mk_case(deco, units, edit, enabled=True, titles=('Args', 'Returns'), in_domain=True, base=None):
    """units: list of (sig, idoc) — one for a function, one per method for the class paths (deco 'class': the class is decorated with
       pedantic_class_require_docstring, 'class_plain': with pedantic_class; a method is called sig['name'] or m<k>).
       idoc: None (no docstring) | str (literal docstring text without documented entries) | dict (intended docstring)
       base: None | key of BASES — the class of the case derives from a class decorated earlier in the module"""
    is_cls = deco in CLASS_DECO
    srcs, names = [], []
    for k, (sig, idoc) in enumerate(units):
        doctext = None if idoc is None else render_doc(idoc, *titles)
        if is_cls:
            names.append(sig.get('name') or f'm{k}')
            srcs.append(render_fn(names[-1], sig, doctext, '    ', None, True))
        else:
            srcs.append(render_fn('f', sig, doctext, '', DECO_SRC[deco], False))
    if is_cls:
        assert len(set(names)) == len(names)
        src = HEAD_SRC + (BASES[base] if base else '') + CLASS_DECO[deco] + f"\nclass C{'(B)' if base else ''}:\n" + '\n'.join(srcs)
    else:
        src = HEAD_SRC + srcs[0]
    # func.__doc__ exactly as the compiler stores it (3.12: the raw constant)
    tree = ast.parse(src)
    if is_cls:
        cdef = [n for n in tree.body if isinstance(n, ast.ClassDef) and n.name == 'C'][0]
        fns = [n for n in cdef.body if isinstance(n, (ast.FunctionDef, ast.AsyncFunctionDef))]
    else:
        fns = [n for n in ast.walk(tree) if isinstance(n, (ast.FunctionDef, ast.AsyncFunctionDef))]
    assert len(fns) == len(units)
    udeco = {'class': 'class', 'class_plain': 'pedantic'}.get(deco, deco)       # what every method is decorated with
    aus = [abstract_unit(sig, idoc, ast.get_docstring(fn, clean=False), udeco) for (sig, idoc), fn in zip(units, fns)]
    c = {'env': {'enabled': enabled, 'parser': True}, 'kind': 'class' if is_cls else 'func', 'units': aus}
    x = {'src': src, 'deco': deco, 'edit': edit, 'in_domain': in_domain}
    if deco == 'class_plain':
        c['classdeco'] = 'plain'
    if is_cls:
        x['probe'] = names[0]
    if base:
        x['base'] = base
    return {'m': 'docstring', 'c': c, 'x': x}


def consistent_doc(sig, rng, canonical=False):
    ps = []
    for nm, ann in sig['params']:
        if ann is None:
            continue
        alts = dict(POOL)[ann]
        ps.append((base(nm), alts[0] if canonical else rng.choice(alts)))
    if sig['ret'] in (None, 'None'):
        r = None
    else:
        alts = dict(POOL)[sig['ret']]
        r = ('typed', alts[0] if canonical else rng.choice(alts))
    return {'params': ps, 'returns': r}


def edits_of(sig, cdoc, rng, per_node, near=True, near_name_count=None):
    """(label, intended docstring) for every single edit of the consistent docstring `cdoc`
       near_name_count: how many of the near-name renames per parameter (None: all)"""
    out = []
    ps, r = cdoc['params'], cdoc['returns']
    ann_of = {base(n): a for n, a in sig['params']}

    def with_params(new): return {'params': new, 'returns': r}

    def with_ret(new): return {'params': ps, 'returns': new}
    for i, (nm, ty) in enumerate(ps):
        pre, post = ps[:i], ps[i + 1:]
        out.append(('drop-param', with_params(pre + post)))
        out.append(('rename-param', with_params(pre + [(nm + 'x', ty)] + post)))
        nn = [x for x in near_names(nm) if x[1] not in ann_of]
        if near_name_count is not None and len(nn) > near_name_count:
            nn = rng.sample(nn, near_name_count)
        for kind, new in nn:
            out.append(('rename-near:' + kind, with_params(pre + [(new, ty)] + post)))
        out.append(('dup-param-adjacent', with_params(pre + [(nm, ty), (nm, ty)] + post)))
        if post:      # the next parameter's entry replaced by a copy of this one: the count stays right
            out.append(('dup-param-replacing-next', with_params(pre + [(nm, ty), (nm, ty)] + post[1:])))
        out.append(('drop-type', with_params(pre + [(nm, None)] + post)))
        out.append(('typing-prefix', with_params(pre + [(nm, 'typing.' + ty)] + post)))
        out.append(('unparsable-type', with_params(pre + [(nm, rng.choice(UNPARSABLE))] + post)))
        out.append(('ill-typed-type', with_params(pre + [(nm, rng.choice(ILL_TYPED))] + post)))
        for lab, new in node_edits(ty, rng, per_node):
            out.append(('change-type@' + lab.split(':')[1], with_params(pre + [(nm, new)] + post)))
        for lab, new in (near_misses(ann_of[nm], ty) if near else []):
            out.append((lab, with_params(pre + [(nm, new)] + post)))
    out.append(('add-param', with_params(ps + [('zz', 'int')])))
    out.append(('add-param-front', with_params([('zz', rng.choice(['int', 'My', 'Foo']))] + ps)))
    unann = [base(nm) for nm, ann in sig['params'] if ann is None]
    if unann:
        out.append(('document-unannotated', with_params(ps + [(unann[0], 'int')])))
    if len(ps) >= 2:
        q = list(ps); rng.shuffle(q)
        if q == ps: q.reverse()
        out.append(('reorder-params', with_params(q)))
        (n0, t0), (n1, t1) = ps[0], ps[1]
        out.append(('swap-types', with_params([(n0, t1), (n1, t0)] + ps[2:])))
    if r is not None:
        out.append(('drop-returns', with_ret(None)))
        out.append(('untyped-returns', with_ret(('untyped',))))
        out.append(('free-text-returns', with_ret(('untyped', rng.choice(FREE_TEXT)))))
        out.append(('empty-returns', with_ret(('empty',))))
        out.append(('blank-returns', with_ret(('blank',))))
        out.append(('typing-prefix-returns', with_ret(('typed', 'typing.' + r[1]))))
        out.append(('unparsable-returns', with_ret(('typed', rng.choice(UNPARSABLE)))))
        out.append(('ill-typed-returns', with_ret(('typed', rng.choice(ILL_TYPED)))))
        for lab, new in node_edits(r[1], rng, per_node):
            out.append(('change-returns@' + lab.split(':')[1], with_ret(('typed', new))))
        for lab, new in (near_misses(sig['ret'], r[1]) if near else []):
            out.append((lab + '-returns', with_ret(('typed', new))))
    else:
        out.append(('add-returns', with_ret(('typed', rng.choice(['int', 'None', 'My'])))))
        out.append(('add-untyped-returns', with_ret(('untyped',))))
        out.append(('add-free-text-returns', with_ret(('untyped', rng.choice(FREE_TEXT)))))
        out.append(('add-empty-returns', with_ret(('empty',))))
        out.append(('add-blank-returns', with_ret(('blank',))))
    return out


def gen_sig(rng, pool):
    n = rng.choice([0, 1, 1, 2, 2, 3])
    params = []
    for i in range(n):
        params.append((f'p{i}', None if rng.random() < 0.08 else rng.choice(pool)[0]))
    ret = rng.choice(pool + RET_EXTRA + RET_EXTRA)[0]
    sig = {'params': params, 'ret': ret}
    # variadic parameters (their NAME is `args` / `kwargs`, the stars belong to the signature syntax) and coroutine functions
    if rng.random() < 0.15:
        params.append((rng.choice(['*args', '*rest']), None if rng.random() < 0.08 else rng.choice(pool)[0]))
    if rng.random() < 0.15:
        params.append((rng.choice(['**kwargs', '**options']), None if rng.random() < 0.08 else rng.choice(pool)[0]))
    if rng.random() < 0.2:
        sig['async'] = True
    return sig


def grid_cases():
    """finite grid: trigger x raw docstring kind x number of documented parameters (0..2) x signature size (0..2)"""
    out = []
    for deco in ('pedantic', 'require', 'require_kw', 'class'):
        for enabled in (True, False):
            for nsig in range(3):
                sig = {'params': [(f'p{i}', 'int') for i in range(nsig)], 'ret': 'None'}
                for rawkind, idoc in (('none', None), ('empty', ''), ('blank', ' '), ('summary', ' Summary. ')):
                    out.append(mk_case(deco, [(sig, idoc)], f'grid:{rawkind}', enabled))
                for ndoc in range(3):
                    idoc = {'params': [(f'p{i}', 'int') for i in range(ndoc)], 'returns': None}
                    out.append(mk_case(deco, [(sig, idoc)], f'grid:doc{ndoc}/sig{nsig}', enabled))
    # a documented "type" whose evaluation raises a BaseException that is no Exception: outside the property's vocabulary,
    # kept to exercise the branch of the model (the handlers around eval name NameError and Exception)
    for deco in ('pedantic', 'require'):
        out.append(mk_case(deco, [({'params': [('p0', 'int')], 'ret': 'None'}, {'params': [('p0', 'exit()')], 'returns': None})],
                           'out-of-domain:exit()', in_domain=False))
        out.append(mk_case(deco, [({'params': [('p0', 'int')], 'ret': 'int'}, {'params': [('p0', 'int')], 'returns': ('typed', 'exit()')})],
                           'out-of-domain:exit()', in_domain=False))
    return out


# signatures with realistic names for the near-name family: ordinary parameters, variadic parameters, both
NEAR_SIGS = [
    {'params': [('values', 'List[int]'), ('factor', 'float')], 'ret': 'List[int]'},
    {'params': [('template', 'str'), ('options', 'Dict[str, int]')], 'ret': 'str'},
    {'params': [('p0', 'int'), ('*args', 'int'), ('**kwargs', 'str')], 'ret': 'None'},
    {'params': [('*args', 'My')], 'ret': 'bool'},
    {'params': [('**kwargs', 'Optional[int]')], 'ret': None},
    {'params': [('recipients', 'List[My]'), ('body', 'str')], 'ret': 'int'},
    {'params': [('x', 'int')], 'ret': 'None'},
]


def near_name_cases():
    """ONE documented parameter renamed to a name near the real one (everything else consistent: count of entries, types, Returns) — for
    functions, coroutine functions and methods of a pedantic_class_require_docstring class, under every trigger path; plus the consistent
    docstring itself.  A variadic parameter `*args: T` is documented consistently as `args (T)` (its name); `*args (T)` names no parameter."""
    out = []
    other_sig = {'params': [('count', 'int')], 'ret': 'int'}
    other = (other_sig, {'params': [('count', 'int')], 'returns': ('typed', 'int')})
    for sig0 in NEAR_SIGS:
        for is_async in (False, True):
            sig = dict(sig0, **({'async': True} if is_async else {}))
            cdoc = {'params': [(base(n), dict(POOL)[a][0]) for n, a in sig['params']],
                    'returns': None if sig['ret'] in (None, 'None') else ('typed', dict(POOL)[sig['ret']][0])}
            names = {base(n) for n, _ in sig['params']}
            variants = [('consistent:near-name-family', cdoc)]
            for i, (nm, ty) in enumerate(cdoc['params']):
                for kind, new in near_names(nm):
                    if new not in names:
                        variants.append(('rename-near:' + kind, {'params': cdoc['params'][:i] + [(new, ty)] + cdoc['params'][i + 1:], 'returns': cdoc['returns']}))
            for k, (label, idoc) in enumerate(variants):
                for deco in ('pedantic', 'require', 'require_kw'):
                    out.append(mk_case(deco, [(sig, idoc)], label))
                units = [[(sig, idoc)], [(sig, idoc), other], [other, (sig, idoc)]][k % 3]
                out.append(mk_case('class', units, label))
    return out


def none_returning_cases():
    """functions that return nothing (`-> None`, no return annotation, `__init__`) with a Returns section ADDED to the consistent
    docstring: typed, free text without a `type:` prefix (several texts, one- and two-line), empty, white space only — 0-2 parameters,
    def / async def, every trigger path incl. `__init__` and ordinary methods of both kinds of decorated classes.  Plus the other
    direction: a value-returning function whose Returns entry has no type / is empty.  (With plain @pedantic and no documented parameter
    checking does not apply and the docstring is accepted.)"""
    out = []
    rets = [('add-untyped-returns', ('untyped',))] + [('add-free-text-returns', ('untyped', t)) for t in FREE_TEXT] \
        + [('add-empty-returns', ('empty',)), ('add-blank-returns', ('blank',)), ('add-returns', ('typed', 'bool')), ('add-returns', ('typed', 'None'))]
    for nparams in (0, 1, 2):
        for ret in ('None', None):
            for is_async in (False, True):
                params = [('key', 'str'), ('value', 'int')][:nparams]
                sig = {'params': params, 'ret': ret, **({'async': True} if is_async else {})}
                docp = [(n, a) for n, a in params]
                for label, r in [('consistent:none-returning', None)] + rets:
                    idoc = {'params': docp, 'returns': r}
                    if nparams == 0 and r is None:
                        idoc = ' Summary. '
                    for deco in ('pedantic', 'require', 'require_kw', 'class', 'class_plain'):
                        out.append(mk_case(deco, [(sig, idoc)], label))
                    if not is_async and ret == 'None':
                        init = dict(sig, name='__init__')
                        for deco in ('class', 'class_plain'):
                            out.append(mk_case(deco, [(init, idoc)], label + ':__init__'))
                            out.append(mk_case(deco, [(init, idoc), ({'params': [('count', 'int')], 'ret': 'int'},
                                                                     {'params': [('count', 'int')], 'returns': ('typed', 'int')})], label + ':__init__'))
    sig = {'params': [('key', 'str')], 'ret': 'int'}
    for label, r in [('untyped-returns', ('untyped',)), ('empty-returns', ('empty',)), ('blank-returns', ('blank',))] \
            + [('free-text-returns', ('untyped', t)) for t in FREE_TEXT]:
        for deco in ('pedantic', 'require', 'class', 'class_plain'):
            out.append(mk_case(deco, [(sig, {'params': [('key', 'str')], 'returns': r})], label))
    return out


H_SIGS = [
    {'name': 'scale', 'params': [('value', 'int')], 'ret': 'int'},
    {'name': 'keep', 'params': [('v', 'int')], 'ret': 'int'},                       # overrides a method of the base class
    {'name': '__init__', 'params': [('factor', 'int'), ('offset', 'float')], 'ret': 'None'},
    {'name': 'collect', 'params': [('items', 'List[My]'), ('*args', 'int')], 'ret': None, 'async': True},
]


def hierarchy_cases(rng, tier):
    """class hierarchies: the class of the case derives from a class that was decorated before (with every class decorator built on
    for_all_methods, directly and one level up; also an undecorated base and no base) and is decorated itself with
    pedantic_class_require_docstring / pedantic_class; the methods IT defines (new ones, an override, __init__, a coroutine) carry the
    consistent docstring or one edit of it / no docstring.  What has to happen does not depend on the base."""
    out = []
    other = ({'name': 'other', 'params': [('count', 'int')], 'ret': 'int'}, {'params': [('count', 'int')], 'returns': ('typed', 'int')})
    for sig in H_SIGS:
        cdoc = consistent_doc(sig, rng, canonical=True)
        variants = [('consistent:hierarchy', cdoc)] + edits_of(sig, cdoc, rng, 1, near=False, near_name_count=(1 if tier == 'quick' else 4)) \
            + [('missing-docstring', None), ('empty-docstring', ''), ('summary-only', ' Summary. ')]
        for k, (label, idoc) in enumerate(variants):
            for b, base in enumerate([None] + list(BASES)):
                for deco in ('class', 'class_plain'):
                    units = [[(sig, idoc)], [(sig, idoc), other], [other, (sig, idoc)]][(k + b) % 3]
                    out.append(mk_case(deco, units, label, base=base))
    return out


def cases(rng, tier):
    out = grid_cases()
    nsig = 110 if tier == 'quick' else 1500
    per_node = 1 if tier == 'quick' else 3
    pool_core, pool_all = POOL[:N_CORE], POOL
    # every pool annotation once as parameter and once as return, canonical and every alternative spelling
    for ann, alts in POOL:
        for alt in alts:
            for deco in ('pedantic', 'require'):
                out.append(mk_case(deco, [({'params': [('p0', ann)], 'ret': 'None'}, {'params': [('p0', alt)], 'returns': None})], 'consistent:param-spelling'))
                out.append(mk_case(deco, [({'params': [('p0', 'int')], 'ret': ann}, {'params': [('p0', 'int')], 'returns': ('typed', alt)})], 'consistent:return-spelling'))
    for k in range(nsig):
        sig = gen_sig(rng, pool_core if k % 3 else pool_all)
        deco = rng.choice(['pedantic', 'pedantic', 'require', 'require_kw', 'class'])
        cdoc = consistent_doc(sig, rng)
        titles = (rng.choice(['Args', 'Args', 'Arguments', 'Parameters']), 'Returns')
        # the near misses that merely name the annotation are enumerated below for every pool annotation; inside the seeded
        # signatures (several parameters, mixed contexts) the quick tier adds them to every third one
        variants = [('consistent', cdoc)] + edits_of(sig, cdoc, rng, per_node, near=(tier != 'quick' or k % 3 == 0),
                                                      near_name_count=(3 if tier == 'quick' else None))
        if deco != 'pedantic':
            variants += [('missing-docstring', None), ('empty-docstring', ''), ('summary-only', ' Summary. ')]
        for label, idoc in variants:
            if deco == 'class':
                other_sig = gen_sig(rng, pool_core)
                other = (other_sig, consistent_doc(other_sig, rng))
                units = [(sig, idoc), other] if rng.random() < 0.5 else [other, (sig, idoc)]
                if rng.random() < 0.3:
                    units = [(sig, idoc)]
                out.append(mk_case('class', units, label, titles=titles))
            else:
                out.append(mk_case(deco, [(sig, idoc)], label, titles=titles))
        if k % 10 == 0:
            out.append(mk_case(deco, [(sig, cdoc)], 'consistent', enabled=False))
    out += near_name_cases()
    out += none_returning_cases()
    out += hierarchy_cases(rng, tier)
    # (after the seeded part: a failure that depends on an earlier case is bisected over everything that ran before it)
    # every pool annotation in every equal spelling x every near miss that merely names it, as a parameter, as the Returns
    # entry, next to a correctly documented neighbour, and under every trigger path
    for ann, alts in POOL:
        for alt in alts:
            for lab, text in near_misses(ann, alt):
                for deco in ('pedantic', 'require', 'require_kw', 'class'):
                    out.append(mk_case(deco, [({'params': [('p0', ann)], 'ret': 'None'}, {'params': [('p0', text)], 'returns': None})], lab))
                    out.append(mk_case(deco, [({'params': [('p0', 'int')], 'ret': ann}, {'params': [('p0', 'int')], 'returns': ('typed', text)})], lab + '-returns'))
                out.append(mk_case('pedantic', [({'params': [('p0', 'str'), ('p1', ann)], 'ret': ann},
                                                 {'params': [('p0', 'str'), ('p1', text)], 'returns': ('typed', alt)})], lab))
                out.append(mk_case('pedantic', [({'params': [('p0', ann), ('p1', 'My')], 'ret': ann},
                                                 {'params': [('p0', alt), ('p1', 'My')], 'returns': ('typed', text)})], lab + '-returns'))
    return out


def search(rng, tier, near):
    out = []
    for k in range(60):
        sig = gen_sig(rng, POOL)
        deco = rng.choice(['pedantic', 'require', 'class'])
        cdoc = consistent_doc(sig, rng)
        for label, idoc in [('consistent', cdoc)] + edits_of(sig, cdoc, rng, 1):
            out.append(mk_case(deco, [(sig, idoc)], label))
    return out + near_name_cases() + none_returning_cases() + hierarchy_cases(rng, tier)


# ------------------------------------------------------------------------------------------------ implementation side

def run_impl(cases):
    d = tempfile.mkdtemp(prefix='pedverif_c19_')
    out = []
    saved = os.environ.get('ENABLE_PEDANTIC')
    try:
        for k, case in enumerate(cases):
            path = os.path.join(d, f'c19_mod_{k}.py')
            with open(path, 'w') as f:
                f.write(case['x']['src'])
            if case['c']['env']['enabled']:
                os.environ.pop('ENABLE_PEDANTIC', None)
            else:
                os.environ['ENABLE_PEDANTIC'] = '0'
            spec = importlib.util.spec_from_file_location(f'c19_mod_{k}', path)
            mod = importlib.util.module_from_spec(spec)
            try:
                spec.loader.exec_module(mod)
                target = mod.C.__dict__[case['x'].get('probe', 'm0')] if case['c']['kind'] == 'class' else mod.f
                res = 'ok' if hasattr(target, '__wrapped__') else 'original'
            except BaseException as e:
                res = type(e).__name__
            out.append({'out': res})
            os.remove(path)
    finally:
        if saved is None:
            os.environ.pop('ENABLE_PEDANTIC', None)
        else:
            os.environ['ENABLE_PEDANTIC'] = saved
        shutil.rmtree(d, ignore_errors=True)
    return out


def norm(o):
    if isinstance(o, str):
        return o
    return o[1]


F_PARSER = 'C19-returns-type-with-blank-not-recognised'


# edits that make the docstring inconsistent whatever the signature is (a cross-check of the specification pipeline itself)
INCONSISTENT = {'drop-param', 'rename-param', 'dup-param-adjacent', 'dup-param-replacing-next', 'drop-type', 'typing-prefix',
                'unparsable-type', 'ill-typed-type', 'add-param', 'add-param-front', 'document-unannotated', 'drop-returns',
                'untyped-returns', 'typing-prefix-returns', 'unparsable-returns', 'ill-typed-returns', 'add-returns',
                'add-untyped-returns', 'missing-docstring', 'empty-docstring',
                'free-text-returns', 'empty-returns', 'blank-returns', 'add-free-text-returns', 'add-empty-returns', 'add-blank-returns',
                'bare-origin', 'bare-origin-other-spelling', 'bare-origin-returns', 'bare-origin-other-spelling-returns'}


def judge(case, impl, model):
    m = norm(model['model'])
    label = case['x']['edit'].split('@')[0]
    if ((label in INCONSISTENT or label.startswith('rename-near:')) and model['spec']['consistent']) \
            or (label.startswith('consistent') and not model['spec']['consistent']):
        raise RuntimeError('specification pipeline disagrees with the construction of the case: ' + json.dumps(case['x']))
    got = impl['out']
    why = []
    if m == 'UNMODELLED':
        why.append('the model left its fragment of Python (the generator or the code went outside what is modelled)')
    if m != got:
        why.append(f'model says {m}, implementation says {got}')
    if not model['den_agree']:
        why.append('Lean evaluator (module namespace) disagrees with the real eval on a documented type')
    for (a, b, e1, e2), (m1, m2) in zip(itertools.chain.from_iterable(u['eqs'] for u in case['c']['units']), model['eqs']):
        if e1 != m1 or e2 != m2:
            why.append(f'annEq {a} {b}: real ==: {e1}/{e2}, model: {m1}/{m2}')
    corr = not why
    enabled = case['c']['env']['enabled']
    pfail = None
    if not case['x'].get('in_domain', True):
        pass          # a documented "type" outside the property's vocabulary (a call): only the correspondence is checked
    elif enabled:
        exp = norm(model['spec']['expected'])
        if exp != got:
            if exp == 'ok' and got == 'original':
                pfail = 'pedantic is enabled but the function came back undecorated: nothing was checked (consistent docstring)'
            elif exp == 'ok':
                pfail = f'the docstring is consistent with the signature but decoration raised {got}'
            elif got in ('ok', 'original'):
                pfail = 'an inconsistent / missing docstring was accepted although docstring checking applies'
            else:
                pfail = f'the inconsistent docstring was rejected with {got} instead of PedanticDocstringException'
    elif got != 'original':
        pfail = f'pedantic is disabled but decoration gave {got}'
    finding = None
    if pfail and m == got:
        # the one recorded region: docstring_parser did not return the Returns entry as written, the docstring as
        # written is consistent, and the library rejects what the parser handed it with PedanticDocstringException
        if not model['parser_faithful'] and model['spec']['consistent'] and got == 'PedanticDocstringException':
            finding = F_PARSER
    tag = f"{case['x']['deco']}{'<' + case['x']['base'] if case['x'].get('base') else ''}/{case['x']['edit'].split('@')[0]}/{got}"
    return {'corr': corr, 'pfail': pfail, 'finding': finding, 'nontrivial': bool(model['spec']['applies']) and enabled,
            'tag': tag, 'why': '; '.join(why)}


def extra_coverage(results):
    edits, outs, dts, nodes = {}, {}, {}, {}
    for (c, i, m, j) in results:
        e = c['x']['edit'].split('@')
        edits[e[0]] = edits.get(e[0], 0) + 1
        if len(e) > 1:
            nodes[e[1]] = nodes.get(e[1], 0) + 1
        outs[i['out']] = outs.get(i['out'], 0) + 1
        for u in m['dts']:
            for t in u['params'] + ([u['returns'][1]] if u['returns'] else []):
                dts[t] = dts.get(t, 0) + 1
    return {'edit_histogram': edits, 'outcome_histogram': outs, 'documented_type_outcome_classes': dts,
            'edited_syntax_node_kinds': nodes}
