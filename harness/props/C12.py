"""C12 — @validate is a gate: differential correspondence of the real decorator with the Lean model + the gate predicate."""
from props import _validate_common as V

RULE = ('enumerated: a rejection / crash / nothing at every position of every chain (conversion, validator 0..2) x the ways a value arrives '
        '(positional, keyword in both orders, mixed, external source, *args zip) x 3 modes; WHICH Parameter a rejection names: 2-3 Parameters, the '
        'rejecting validator at every position of a chain of 1-2 raising a ValidatorException that ALREADY carries a parameter_name - set by the '
        'validator itself, by Validator.validate_param(value, parameter_name=...) of one delegating (composite) validator around it, of two nested ones, '
        'or both - equal to ANOTHER declared Parameter of the same function, to its own Parameter, to an undeclared name or to \'\' x arrival route x mode; '
        'the NAME of a parameter: def f(a, <name>) / def f(<name>, a) for ~50 names (single letters, every proper substring of self, superstrings of it, '
        'substrings / superstrings of cls / args / kwargs, the library\'s own keywords and locals: value, key, name, validators, default, required, parameter, '
        'result, k, v, func, strict, ...) x a Parameter declared for it or not x arrival route (positional, keyword, mixed, positional in a *args function with a '
        'surplus positional) x strict x mode; the required / None / default cascade of one '
        'parameter in every combination (required x Parameter default x signature default x call x external source x mode x strict); surplus '
        'arguments (unknown keyword, extra positional, undeclared signature parameter, Parameter outside the signature) x strict x mode x '
        'method x async; the RECEIVER (recognised by the signature: first parameter called self): plain functions def f(a=D) / def f(x=D, a=D) / '
        'def f(a, b=D) called with a keyword self whose value the chain of a rejects, next to None / a value / nothing for a (the former failing input '
        'of the repaired finding selfKeywordBypassesGate and its neighbours), an ordinary parameter called self in second position (declared or not, '
        'with or without default, positional / keyword / mixed / omitted), real methods def f(self, a, b=D) called on the instance or on the CLASS with '
        'the receiver by keyword (first / last keyword), a second value for self, a Parameter declared for self or not - each x strict x mode x sync / async.  Plus seeded structured programs: 1-4 named parameters (+-self as real methods, sync/async, +-defaults, keyword-only, '
        '*args; in 40 % of the programs some parameters carry a name of that pool), shuffled declarations (plain / EnvironmentVariableParameter set or unset / harness-defined ExternalParameter; default NoValue, '
        'value, None, falsy; required or not; value_type in None,int,float,bool,str,list,dict (values incl. byte strings, valid and invalid UTF-8); chains of 0-3 recording validators that map, '
        'return None, return a falsy constant, reject or crash, ~30 % of them with a pre-set / delegated foreign parameter_name on their exception; '
        'duplicate and out-of-signature declarations as near misses), strict, '
        'ignore_input, calls with every prefix length, shuffled keywords, omissions, None, falsy values, surplus, a name passed twice, the '
        'same object twice, a keyword called self (plain functions and methods), 8 % of the method calls made on the class with the receiver passed by keyword; ordinary parameters called args, kwargs, cls, and self in a non-first position; a VAR_POSITIONAL '
        'parameter spelled *args or *rest, the string \'*args\' as a default value (enumerated: x a Parameter declared for that name or not x spare Parameter x 0-2 surplus positionals x strict x mode).  '
        'Plus HISTORIES (scenarios): 2-4 sequential calls on ONE decorated function object (state kept between calls), sometimes a second function '
        'object sharing the Parameter objects, with RE-ENTRANT validators: a recording validator, on a chosen invocation, calls the same (or the other) '
        'decorated function with other arguments before it answers (nesting depth up to 3); enumerated: outer / inner call omitting a required or '
        'defaulted parameter in every combination x which validator re-enters x same / second function x call styles x mode x strict, followed by a '
        'sequential repetition of the outer call; every call of a history is judged by the same gate oracle as a single call.  Plus Flask sources (FlaskJson/Form/Get/Header/PathParameter under app.test_request_context: JSON body, form, query string, headers; the strict all-JSON surplus-key rule).  non-trivial = the call carries an argument or a Parameter is declared')
EXHAUSTIVE = {'quick': False, 'thorough': False}
ASSUMPTIONS = ['validators raise ValidatorException to reject (any other exception propagates unchanged: modelled as `crash`); the exception may carry ANY parameter_name',
               'a Parameter\'s name is a non-empty string (invariant `nameNonEmpty` of the model; Parameter(name=\'\') names no parameter of any function - '
               'for it the naming clause is false, `rejection_naming_full_fails` - and is not generated)',
               'convert_value is an abstract step here: its results on the literals used are a static table in the harness (its own contract is C14)',
               'overlapping calls are exercised as re-entrant (nested) calls on one thread, not with threads',
               'Flask is installed (the trailing strict block of _wrapper_content touches the request proxy when every Parameter is a FlaskJsonParameter, also when there is none)']
TRUSTED = ['Python call binding (positional / keyword / defaults / *args) is modelled (`bindCall`) and exercised on every case, not verified',
           'inspect.signature(...).bind_partial is modelled (`bindPartial`) and exercised, not verified']


def cases(rng, tier):
    out = V.gate_enum(rng) + V.naming_enum(rng) + V.names_enum(rng) + V.one_param_cascade(rng) + V.surplus_enum(rng) + V.varpos_enum(rng) + V.reentrant_enum(rng)
    out += V.receiver_enum(rng) + V.varpos_surplus_enum(rng)
    out += V.random_cases(rng, 44000 if tier == 'quick' else 240000, allow_varargs=True)
    out += V.scenario_cases(rng, 3000 if tier == 'quick' else 20000, allow_varargs=True)
    out += V.flask_cases(rng, 4000 if tier == 'quick' else 30000)
    return out


def search(rng, tier, near):
    return V.random_cases(rng, 24000, allow_varargs=True, origin='search') + V.scenario_cases(rng, 3000, allow_varargs=True, origin='search')


run_impl = V.run_impl
extra_coverage = V.extra_coverage


def judge(case, impl, model):
    if 'calls' in case['c']:
        return V.judge_scenario(case, impl, model, judge)        # every call of the history is judged like a single call
    corr, why = V.correspondence(case, impl, model)
    pf, finding = V.pfail_gate(case, impl, model), None
    if isinstance(pf, tuple):
        # inside a region the Lean side names (complement of the guard of a `_partial` theorem, computed by the driver); a finding only
        # where the model reproduces the implementation.  (The former finding `selfKeywordBypassesGate` has no region any more.)
        pf, finding = pf[1], (pf[0].split(':', 1)[1] if corr else None)
    return {'corr': corr, 'why': why, 'pfail': pf, 'finding': finding,
            'nontrivial': V.nontrivial(case, impl), 'tag': V.tag_of(case, impl)}


twins = V.twins      # amplified run: the call preceded by the same call with number twins (0 / False / 0.0 ...)
