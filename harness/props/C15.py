"""C15 — retry: exhaustive correspondence between retry_func/@retry and the Lean model + spec."""
import itertools, logging, functools
from datetime import timedelta

RULE = ('exhaustive: attempts in -1..6 x every outcome sequence up to the tier length over {return, listed, subclass of listed, '
        'foreign Exception, BaseException; less common: returned exception instances, TypeError, None, ExceptionGroups of listed / mixed leaves} x exceptions spec {class, tuple, tuple(base, sub)} x {retry_func, @retry}; plus seeded long '
        'scripts (length <= 40, attempts <= 45); listed / foreign exceptions that cannot be formatted (__str__ returns None, __repr__ raises); overlapping calls (invocation i of a call makes another call of the same decorated function - same wrapper object - with its own script: both are judged against the contract; exhaustive for short scripts); kinds of callable (function, lambda, bound method, functools.partial, instance with __call__), logger configurations (none + logging disabled, own logger at WARNING / ERROR level), sleep_time 0 / 1.5 s (durations recorded).  non-trivial = at least one invocation raised')
EXHAUSTIVE = {'quick': True, 'thorough': True}
ASSUMPTIONS = ['time.sleep and the logger are patched in the harness process', 'outcomes of the retried function are scripted; the function is deterministic per invocation index']
TRUSTED = ['Python `except <classes>` semantics (isinstance against a class or tuple) is taken from the interpreter: the harness classifies each raised object as listed/foreign with the same isinstance test']

KINDS = ['ret', 'listed', 'listedsub', 'foreign', 'base']
# less common outcomes (seeded part + a reduced exhaustive block): the function RETURNS an exception instance (a return is a return,
# whatever is returned), raises TypeError (foreign unless the spec lists it - the error class a wrong call of the machinery itself
# would raise), returns None
KINDS_X = KINDS + ['retexc', 'retforeignexc', 'typeerr', 'retnone', 'group_listed', 'group_mixed', 'basegroup',
                   # listed exceptions that cannot be formatted: __str__ returns None (TypeError in str() / f-strings), __repr__ raises
                   'listed_nostr', 'listedsub_norepr', 'foreign_nostr']
UNPRINTABLE = ('listed_nostr', 'listedsub_norepr', 'foreign_nostr')
FKINDS = ['function', 'lambda', 'method', 'partial', 'instance', 'injecting']
NAMED = {'function': True, 'lambda': True, 'method': True, 'partial': False, 'instance': False, 'injecting': True}
LOGS = ['disabled', 'warn_level', 'error_level']
SPECS = ['class', 'tuple', 'tuple_base_sub']
SPECS_X = SPECS + ['tuple_with_typeerror', 'empty_tuple', 'exception_itself']
ABS = {'ret': 'ret', 'listed': 'listed', 'listedsub': 'listed', 'foreign': 'foreign', 'base': 'foreign',
       'retexc': 'ret', 'retforeignexc': 'ret', 'retnone': 'ret',
       # an ExceptionGroup is not an instance of the listed classes, whatever its leaves are: foreign
       'group_listed': 'foreign', 'group_mixed': 'foreign', 'basegroup': 'foreign',
       'listed_nostr': 'listed', 'listedsub_norepr': 'listed', 'foreign_nostr': 'foreign'}


def abs_kind(k, spec):
    if spec == 'empty_tuple':                   # nothing is listed: every raised object is foreign
        return 'ret' if ABS.get(k) == 'ret' else 'foreign'
    if spec == 'exception_itself':              # `Exception` lists every exception but not BaseException-only classes
        if ABS.get(k) == 'ret': return 'ret'
        return 'foreign' if k in ('base', 'basegroup') else 'listed'
    if k == 'typeerr':
        return 'listed' if spec == 'tuple_with_typeerror' else 'foreign'
    return ABS[k]


def mk(attempts, seq, form, spec, fkind='function', log='disabled', st=0, nest_at=None, inner=False):
    """nest_at = i: while invocation i of this call is in progress the retried function makes the call described by the NEXT case of
    the list (same configuration, hence - for the decorator form - the same wrapper object): overlapping / re-entrant use"""
    return {'m': 'retry', 'c': {'attempts': attempts, 'script': [[abs_kind(k, spec), i] for i, k in enumerate(seq)], 'named': NAMED[fkind],
                                'unprintable': [i for i, k in enumerate(seq) if k in UNPRINTABLE]},
            'x': {'kinds': list(seq), 'form': form, 'spec': spec, 'fkind': fkind, 'log': log, 'st': st, 'nest_at': nest_at, 'inner': inner}}


def mk_nested(attempts, seq, inner_seq, at, form, spec, fkind='function', log='disabled', st=0):
    o, n = mk(attempts, seq, form, spec, fkind, log, st, nest_at=at), mk(attempts, inner_seq, form, spec, fkind, log, st, inner=True)
    # each half carries the other one, so that a replay of one of them alone still executes the overlapping pair
    o['x']['partner'] = {'m': n['m'], 'c': n['c'], 'x': dict(n['x'])}
    n['x']['partner'] = {'m': o['m'], 'c': o['c'], 'x': {k: v for k, v in o['x'].items() if k != 'partner'}}
    return [o, n]


def cases(rng, tier):
    out = []
    maxlen = 4 if tier == 'quick' else 6
    for attempts in range(-1, 7):
        for n in range(0, maxlen + 1):
            for k, seq in enumerate(itertools.product(KINDS, repeat=n)):
                if n <= 3:
                    for form in ('func', 'deco'):
                        for spec in SPECS:
                            out.append(mk(attempts, seq, form, spec))
                else:
                    out.append(mk(attempts, seq, ('func', 'deco')[k % 2], SPECS[(k // 2) % 3]))
    for attempts in range(0, 4):          # the extended alphabet, exhaustively up to length 3
        for n in range(1, 4):
            for k, seq in enumerate(itertools.product(KINDS_X, repeat=n)):
                if any(x not in KINDS for x in seq):
                    for form in ('func', 'deco'):
                        out.append(mk(attempts, seq, form, SPECS_X[k % len(SPECS_X)]))
    for attempts in range(0, 5):          # every kind of callable, logger configuration and sleep time, exhaustively up to length 3
        for n in range(0, 4):
            for k, seq in enumerate(itertools.product(KINDS, repeat=n)):
                for j, fkind in enumerate(FKINDS):
                    out.append(mk(attempts, seq, ('func', 'deco')[(k + j) % 2], SPECS[k % 3], fkind, LOGS[(k + j) % 3], (0, 1.5)[(k // 2 + j) % 2]))
    # overlapping calls of one decorated function (re-entrancy): invocation `at` of the outer call makes an inner call, exhaustively
    # for short scripts; state shared between the calls in progress (a counter kept per decorated function) shows here
    INNER = [()] + [(a,) for a in ('ret', 'listed', 'foreign')] + list(itertools.product(('ret', 'listed', 'foreign'), repeat=2)) \
        + [('listed', 'listed', 'listed'), ('listed', 'listed', 'ret')]
    k = 0
    for attempts in range(0, 5):
        for n in range(1, 4 if tier == 'quick' else 5):
            for seq in itertools.product(KINDS if n <= 2 else ('ret', 'listed', 'foreign'), repeat=n):
                for at in range(n):
                    for inner_seq in INNER:
                        k += 1
                        if n == 3 and tier == 'quick' and k % 3:
                            continue
                        out += mk_nested(attempts, seq, inner_seq, at, ('deco', 'func')[k % 4 == 0], SPECS[k % 3], FKINDS[k % len(FKINDS)] if k % 5 == 0 else 'function')
    for _ in range(300 if tier == 'quick' else 3000):
        n = rng.randint(2, 12); m = rng.randint(0, 8)
        seq = [rng.choice(['listed', 'listedsub'] * 4 + KINDS) for _ in range(n)]
        out += mk_nested(rng.randint(0, 14), seq, [rng.choice(['listed'] * 3 + KINDS) for _ in range(m)], rng.randrange(n),
                         rng.choice(['deco', 'deco', 'func']), rng.choice(SPECS_X), rng.choice(FKINDS), rng.choice(LOGS), rng.choice([0, 1.5]))
    for _ in range(300 if tier == 'quick' else 5000):
        n = rng.randint(5, 40)
        seq = [rng.choice(['listed', 'listedsub'] * 6 + KINDS_X) for _ in range(n)]
        out.append(mk(rng.randint(-3, 45), seq, rng.choice(['func', 'deco']), rng.choice(SPECS_X), rng.choice(FKINDS), rng.choice(LOGS),
                      rng.choice([0, 1.5])))
    return out


def search(rng, tier, near):
    out = []
    for _ in range(3000):
        n = rng.randint(1, 8); m = rng.randint(0, 6)
        out += mk_nested(rng.randint(0, 10), [rng.choice(KINDS_X) for _ in range(n)], [rng.choice(KINDS_X) for _ in range(m)], rng.randrange(n),
                         rng.choice(['deco', 'func']), rng.choice(SPECS_X), rng.choice(FKINDS), rng.choice(LOGS), rng.choice([0, 1.5]))
    for _ in range(4000):
        n = rng.randint(0, 12)
        out.append(mk(rng.randint(-2, 14), [rng.choice(KINDS_X) for _ in range(n)], rng.choice(['func', 'deco']), rng.choice(SPECS_X),
                      rng.choice(FKINDS), rng.choice(LOGS), rng.choice([0, 1.5])))
    return out


def run_impl(cases):
    import pedantic.decorators.fn_deco_retry as R
    logging.disable(logging.CRITICAL)

    class Base1(Exception): pass
    class Sub1(Base1): pass
    class Base2(Exception): pass
    class Other(Exception): pass
    class BE(BaseException): pass
    class NoStr(Base1):                       # cannot be formatted: str(e), f'{e}', '%s' % e raise TypeError
        def __str__(self): return None
    class NoRepr(Sub1):
        def __str__(self): return None
        def __repr__(self): raise TypeError('no repr')
    class OtherNoStr(Other):
        def __str__(self): return None
    specs = {'class': Base1, 'tuple': (Base1, Base2), 'tuple_base_sub': (Base1, Sub1), 'tuple_with_typeerror': (Base1, TypeError),
             'empty_tuple': (), 'exception_itself': Exception}
    stack = []                                # one context per call in progress (innermost last)
    orig_sleep = R.time.sleep

    def fake_sleep(sec):
        stack[-1]['events'].append(['sleep']); stack[-1]['durations'].append(sec)
    R.time.sleep = fake_sleep
    loggers = {'disabled': None}
    for name, lvl in (('warn_level', logging.WARNING), ('error_level', logging.ERROR)):
        lg = logging.Logger('pedverif_' + name, level=lvl)       # not registered: no propagation to the root logger
        lg.addHandler(logging.NullHandler())
        loggers[name] = lg
    # one decorated function per (attempts, exceptions spec, …), reused for every case of that configuration: the contract is
    # per call, so a budget / cache shared between calls of the same decorated function must not show
    sentinel = ('R', 999999)

    def f(*a, **k):
        ctx = stack[-1]
        seq, objs, arglog = ctx['seq'], ctx['objs'], ctx['arglog']
        i = len(arglog)
        ctx['events'].append(['call', i]); arglog.append((a, k))
        if ctx['nest_at'] == i and ctx['inner_case'] is not None:
            inner, ctx['inner_case'] = ctx['inner_case'], None
            ctx['inner_result'] = run_one(inner)           # the overlapping call; whatever it does stays its own business
        if i >= len(seq): return sentinel
        if seq[i] in ('ret', 'retexc', 'retforeignexc', 'retnone'): return objs[i]
        raise objs[i]
    wrappers = {}

    class CallableObj:
        def __call__(self, *a, **k): return f(*a, **k)

    class Holder:
        def m(self, *a, **k): return f(*a, **k)
    def needs_session(session, first, second, *, x):       # what a functools.wraps-based decorator that INJECTS an argument wraps:
        return f(first, second, x=x)                        # its introspected signature is not how the wrapper is called

    @functools.wraps(needs_session)
    def injecting(*a, **k):
        return needs_session('session', *a, **k)
    callables = {'function': f, 'lambda': lambda *a, **k: f(*a, **k), 'method': Holder().m, 'partial': functools.partial(f),
                 'instance': CallableObj(), 'injecting': injecting}

    def run_one(case, inner_case=None):
        x = case['x']; seq = x['kinds']; attempts = case['c']['attempts']
        objs = []
        for i, k in enumerate(seq):
            objs.append({'ret': lambda i=i: ('R', i), 'listed': lambda: Base1(), 'listedsub': lambda: Sub1(),
                         'foreign': lambda: Other(), 'base': lambda: BE(), 'retexc': lambda: Base1(), 'retforeignexc': lambda: Other(),
                         'typeerr': lambda: TypeError('raised by the retried function'), 'retnone': lambda: None,
                         'group_listed': lambda: ExceptionGroup('g', [Base1(), Sub1()]),
                         'group_mixed': lambda: ExceptionGroup('g', [Base1(), Other()]),
                         'basegroup': lambda: BaseExceptionGroup('g', [BE()]),
                         'listed_nostr': lambda: NoStr(), 'listedsub_norepr': lambda: NoRepr(), 'foreign_nostr': lambda: OtherNoStr()}[k]())
        fn = callables[x.get('fkind', 'function')]
        log = x.get('log', 'disabled'); st = x.get('st', 0)
        logging.disable(logging.CRITICAL if log == 'disabled' else logging.NOTSET)
        extra = {}
        if log != 'disabled': extra['logger'] = loggers[log]
        if st: extra['sleep_time'] = timedelta(seconds=st)
        ctx = {'seq': seq, 'objs': objs, 'arglog': [], 'events': [], 'durations': [], 'nest_at': x.get('nest_at'),
               'inner_case': inner_case, 'inner_result': None}
        stack.append(ctx)
        A = (object(), object()); K = {'x': object()}
        try:
            try:
                if x['form'] == 'func':
                    r = R.retry_func(fn, *A, attempts=attempts, exceptions=specs[x['spec']], **extra, **K)
                else:
                    key = (attempts, x['spec'], x.get('fkind', 'function'), log, st)
                    if key not in wrappers:
                        wrappers[key] = R.retry(attempts=attempts, exceptions=specs[x['spec']], **extra)(fn)
                    r = wrappers[key](*A, **K)
                if r is sentinel: res = ['ret', 999999]
                else:
                    # which invocation's result object came back (None is identified by the position of the last invocation)
                    idx = [i for i, o in enumerate(objs) if o is r and (r is not None or i == len(ctx['arglog']) - 1)]
                    res = ['ret', idx[0]] if idx else (['retNone'] if r is None else ['ret', -1])
            except BaseException as e:
                idx = [i for i, o in enumerate(objs) if o is e]
                res = ['exc', idx[0]] if idx else ['exc', -1, type(e).__name__]
        finally:
            stack.pop()
            logging.disable(logging.CRITICAL if not stack else logging.NOTSET if stack[-1] and log != 'disabled' else logging.CRITICAL)
        args_ok = all(len(a) == 2 and a[0] is A[0] and a[1] is A[1] and list(k) == ['x'] and k['x'] is K['x'] for a, k in ctx['arglog'])
        mine = {'trace': [list(e) for e in ctx['events']], 'res': res, 'args_unchanged': args_ok,
                'durations_ok': all(d == st for d in ctx['durations'])}
        return mine, ctx['inner_result']

    out = []
    try:
        i = 0
        while i < len(cases):
            case = cases[i]
            x = case['x']
            if x.get('nest_at') is not None:
                paired = i + 1 < len(cases) and cases[i + 1]['x'].get('inner')
                inner_case = cases[i + 1] if paired else x.get('partner')
                (mine, inner) = run_one(case, inner_case)
                out.append(mine)
                if paired:
                    if inner is None:          # the outer call never reached the invocation that makes the inner call: run it on its own
                        inner = run_one(cases[i + 1])
                    out.append(inner[0])
                    i += 2
                else:
                    i += 1
            elif x.get('inner') and x.get('partner'):      # the inner half on its own (replay): executed inside its outer call
                (_, inner) = run_one(x['partner'], case)
                if inner is None:
                    inner = run_one(case)
                out.append(inner[0])
                i += 1
            else:
                out.append(run_one(case)[0])
                i += 1
    finally:
        R.time.sleep = orig_sleep
        logging.disable(logging.CRITICAL)
    return out


def judge(case, impl, model):
    m, s = model['model'], model['spec']
    corr = impl['trace'] == m['trace'] and impl['res'] == m['res']
    pfail = None
    if impl['trace'] != s['trace']:
        pfail = f"invocation/sleep trace {impl['trace']} differs from the contract {s['trace']}"
    elif impl['res'] != s['res']:
        pfail = f"caller saw {impl['res']} instead of the last invocation's outcome {s['res']}"
    elif not impl['args_unchanged']:
        pfail = 'an invocation did not receive the caller\'s argument objects unchanged'
    elif not impl.get('durations_ok', True):
        pfail = 'a wait between attempts did not last the configured sleep_time'
    kinds = case['x']['kinds']
    return {'corr': corr, 'pfail': pfail, 'nontrivial': any(k != 'ret' for k in kinds[:1]) or len(kinds) == 0,
            'tag': f"calls={min(len(impl['trace']), 9)}/{impl['res'][0]}", 'why': '' if corr else 'trace/result differ from the model'}
