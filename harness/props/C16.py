"""C16 — safe_contextmanager / safe_async_contextmanager: exhaustive correspondence between the real decorators (driven through real
`with` / `async with` statements, asyncio for the async variant) and the Lean model + try/finally spec.  The user generator functions
are real source files (plain `setup; yield; cleanup`, or with try / with blocks of their own around the yield); decoration cases and a
sample of uses also run in child interpreters in optimised mode (-O, -OO, PYTHONOPTIMIZE=1)."""
import itertools, json, inspect

RULE = ('exhaustive in both tiers: setup outcome (ok + 7 exception kinds incl. a StopIteration raised by user code) x yields reached '
        '{0,1,2} x cleanup outcome (ok + 7 kinds + "the body\'s own exception object" + "RuntimeError chained to the body\'s exception") '
        'x body outcome (normal, return, break, 7 exception kinds: Exception, BaseException subclass, GeneratorExit, StopIteration, '
        'StopAsyncIteration, RuntimeError, CancelledError) x {sync, async} x {single, nested x2 (enumerated manager inside / outside, '
        'outer cleanup ok / failing), repeated x2 (enumerated manager first / second)}; decoration: every function kind (generator, '
        'async generator, plain, coroutine; def/lambda/partial/method/builtin/class/callable instance) x both decorators; plus seeded '
        'wrappers as decoration targets (every kind of function carrying functools.wraps of every kind, two layers, partials / callable instances / '
        'hand-set __wrapped__: what counts is the kind of the object handed in); FALSY exception instances (classes defining __len__ -> 0 or '
        '__bool__ -> False, Exception and BaseException subclasses) are part of the outcome alphabet of setup / block / cleanup; '
        'generators that RETURN a value when they finish (`return <object>` after the cleanup: nothing / explicit None / 7 falsy / 7 truthy objects; async: a bare '
        'return) — enumerated against every setup x yields x cleanup x block outcome for the single, nested and self-nested structure, drawn everywhere else; '
        'random programs of depth <= 4 and length <= 4 (managers drawn from a small pool, so that the same decorated manager is nested '
        'in itself and reused).  Same manager nested in itself: depth 2 (enumerated manager inside / outside) and depth 3.  '
        'Argument forwarding: 9 generator signatures (parameters named f, func, fn, args, kwargs, self, gen, iterator, wrapped, cls, '
        'positional-only / keyword-only / defaulted parameters, *rest / **kwargs collectors) x call tuples (positional, by keyword, '
        'mixed, collector receiving such names, near misses that do not bind) x {sync, async}; the generator reports whether it '
        'received exactly what a direct call of the undecorated generator function binds.  Overlapping uses of ONE decorated manager '
        '(histories): every interleaving of the enter / exit events of 2 uses x cleanup outcomes x block outcomes, every interleaving '
        'of 3 uses, seeded random histories of <= 5 live uses; sync uses are generators suspended inside a real `with`, async uses '
        'are asyncio tasks inside a real `async with`, stepped deterministically through events.  Concrete exception classes per kind, '
        'return-vs-break and real event-loop suspension in setup/cleanup are drawn from the rng.  '
        'GENERATORS WITH BLOCKS OF THEIR OWN AROUND THE YIELD (all generator functions are real .py files of a temp dir, so that inspect.getsource works): '
        '22 skeletons (yield inside try/finally, try/except <class> [raise], try/except/else/finally, several handlers, a with block, two nested blocks; handler '
        'classes Exception / BaseException / bare / RuntimeError / StopIteration / GeneratorExit / CancelledError / one that never matches; the yield statement itself '
        'plain or inside for / if / while) x further cleanup statements behind the block {0, 1} x where the cleanup raises (nowhere, right after the yield, '
        'each slot of the exception-free path: rest of a try body, else, finally / __exit__, trailing; an except clause that raises as well) x every block outcome '
        'x {sync, async} x {single, the same manager nested in itself, repeated; thorough: nested in / around another manager}; such generators are also drawn into the '
        'random programs and the random histories.  INTERPRETER MODES: every decoration case (every function kind and wrapper x both decorators) and a sample '
        'of managers in use run again in child interpreters started with -O, with -OO and with PYTHONOPTIMIZE=1 (exhaustive matrix decoration target x mode).  '
        'CANCELLATION DURING AN AWAIT OF THE MANAGER (async): the setup / the statement after the yield asks for its own task to be cancelled and awaits, so that a real '
        'CancelledError arrives while __aenter__ / __aexit__ is suspended in `await anext(iterator)`: every structure x every block outcome, every skeleton of generators with '
        'blocks of their own, every interleaving of two overlapping uses.  non-trivial = something raised or left early')
EXHAUSTIVE = {'quick': True, 'thorough': True}
ASSUMPTIONS = ['async variant: every await is an atomic step of the model; other tasks run only while a use is suspended inside its block (the history machine), '
               'not between two awaits of one __aenter__ / __aexit__; a cancellation that arrives while __aenter__ / __aexit__ is suspended in the setup / cleanup of the '
               'user generator is the environment transition "that section raises a CancelledError" (exercised with real task cancellation); a cancellation delivered at any '
               'other await of contextlib itself is not modelled',
               'the user generator is scripted: setup; yield v; cleanup; [yield v; extra]* with a chosen outcome per section',
               'claims (P_X) only for generators in the documented one-yield form; zero-/multi-yield generators are modelled and compared only',
               "a generator's own blocks around its yield: try statements (handlers, else, finally) and with blocks, any nesting, straight-line clause bodies "
               '(journal a statement / raise an exception object / bare re-raise at the end of a handler); exception classes at kind level; the statements of these blocks '
               'never raise a kind Python converts when it leaves a generator frame (Stop(Async)Iteration); `return` inside such a block is not modelled']
TRUSTED = ['CPython 3.12 contextlib._GeneratorContextManager / _AsyncGeneratorContextManager, PEP 479 and the with statement are transcribed in '
           'Model/CtxMgr.lean and exercised exhaustively against the interpreter, not verified',
           'inspect.isgeneratorfunction / isasyncgenfunction classify the function kinds; the harness labels each test function with the same predicates',
           "Python's semantics of try / except / else / finally and of a with block inside the USER generator (`resume` in Model/CtxMgr.lean) is environment shared by model and "
           'specification ("the code after the yield, run as ordinary code"); it is exercised by the correspondence streams, not verified',
           'optimised interpreter mode is the one fact `opt` (assert statements are compiled away, __debug__ is False); the child interpreters report sys.flags.optimize',

           'Python argument binding of the user generator function is environment: whether a tuple binds (`fits`) is computed by calling a plain function with the same parameter list '
           'and cross-checked against the real call of the generator function; "received unchanged" = the parameters of the generator hold what a direct call f(*pos, **kw) binds (identity-wise, order of **kwargs included)']

FINDING_QUIRK = 'C16-cleanup-runtimeerror-chained-to-body-stop'

KINDS = ['exception', 'baseExc', 'generatorExit', 'stopIteration', 'stopAsyncIteration', 'runtimeError', 'cancelled']
KIND_CLASSES = {
    'exception': ['ValueError', 'KeyError', 'MyExc', 'AssertionError', 'OSError'],
    'baseExc': ['MyBase', 'KeyboardInterrupt', 'SystemExit'],
    'generatorExit': ['GeneratorExit'],
    'stopIteration': ['StopIteration', 'MyStop'],
    'stopAsyncIteration': ['StopAsyncIteration'],
    'runtimeError': ['RuntimeError', 'NotImplementedError', 'RecursionError'],
    'cancelled': ['CancelledError'],
}
# exception objects that are FALSY (a class defining __len__ returning 0 - an empty "error collection" - or __bool__ returning False):
# alphabet entries `<kind>!` are the kind with a class drawn from here; on the wire (and for the Lean model, which never consults the
# truth value of an exception object - nor do contextlib and the translated wrapper shape) they are ordinary objects of that kind
FALSY_CLASSES = {'exception': ['EmptyErrors', 'FalsyExc'], 'baseExc': ['FalsyBase', 'EmptyBaseErrors']}
FALSY = ['exception!', 'baseExc!']
ALPHA = KINDS + FALSY       # the outcome alphabet of setup / block / cleanup


def split_kind(kind):
    """'exception!' -> ('exception', classes to draw from)"""
    if kind.endswith('!'):
        return kind[:-1], FALSY_CLASSES[kind[:-1]]
    return kind, KIND_CLASSES[kind]


VAL0 = 40           # value object of manager `tag` has id VAL0 + tag
ARGS = 5            # id of the caller's argument objects
CONV = 500          # ids >= CONV: objects created by the interpreter (PEP 479 RuntimeError for a user-level Stop*Iteration: CONV + its id)


# interned keyword / parameter names (the Lean side only sees the numbers); 'k' must stay 1 (older corpus files)
NAMES = ['_', 'k', 'a', 'b', 'c', 'd', 'f', 'func', 'fn', 'args', 'kwargs', 'self', 'gen', 'iterator', 'wrapped', 'cls', 'mode', 'x', 'value', 'wrapper', 'it']
NAME_ID = {n: i for i, n in enumerate(NAMES)}
# signatures of the user generator functions
SIGS = {
    'a_k': 'a, k=None',
    'none': '',
    'f_mode': 'f, mode=None, *rest, **options',
    'internals': 'f, func, fn=None, args=None, kwargs=None',
    'internals_kwonly': '*, f, func=None, fn=None, args=None, kwargs=None, self=None, gen=None, iterator=None, wrapped=None, cls=None',
    'self_cls': 'self, cls, gen=None, iterator=None, wrapped=None, it=None, wrapper=None',
    'collector': '**kw',
    'posonly': 'a, f=None, /, b=None, *, d=None, **kw',
    'star': '*args, **kwargs',
}
# call tuples per signature: (number of positional arguments, keyword names in the caller's order); near misses included
CALLS = {
    'a_k': [(1, ['k']), (2, []), (0, ['a', 'k']), (0, ['k', 'a']), (1, []), (0, []), (3, []), (1, ['a']), (1, ['f']), (0, ['a', 'x'])],
    'none': [(0, []), (1, []), (0, ['f']), (0, ['args'])],
    'f_mode': [(1, []), (4, ['x']), (1, ['mode']), (0, ['f']), (0, ['mode', 'f']), (0, ['mode', 'f', 'args', 'kwargs', 'self']), (2, ['func', 'fn', 'gen']),
               (0, ['f', 'iterator', 'wrapped', 'cls']), (1, ['f']), (0, ['mode']), (0, [])],
    'internals': [(0, ['f', 'func']), (0, ['func', 'f', 'fn', 'args', 'kwargs']), (2, ['args', 'kwargs']), (1, ['func', 'kwargs']), (5, []),
                  (0, ['kwargs', 'args', 'fn', 'func', 'f']), (1, ['f']), (0, ['f']), (6, []), (2, ['self'])],
    'internals_kwonly': [(0, ['f']), (0, ['f', 'func', 'fn', 'args', 'kwargs', 'self', 'gen', 'iterator', 'wrapped', 'cls']), (0, ['cls', 'self', 'f']),
                         (0, ['iterator', 'gen', 'f', 'wrapped']), (0, ['args', 'f', 'kwargs']), (1, []), (0, ['func']), (0, ['f', 'x'])],
    'self_cls': [(2, []), (0, ['self', 'cls']), (0, ['cls', 'self', 'gen', 'iterator', 'wrapped']), (1, ['cls', 'it', 'wrapper']), (2, ['iterator']),
                 (0, ['self']), (1, ['self', 'cls']), (8, [])],
    'collector': [(0, []), (0, ['f']), (0, ['f', 'func', 'fn', 'args', 'kwargs', 'self', 'gen', 'iterator', 'wrapped', 'cls']), (0, ['kwargs', 'args']),
                  (0, ['self', 'cls', 'it', 'wrapper']), (1, []), (1, ['f'])],
    'posonly': [(1, []), (2, []), (3, ['d']), (1, ['f', 'a']), (1, ['a', 'b', 'd', 'f', 'self']), (2, ['f', 'args', 'kwargs']), (0, ['a']), (4, []), (1, ['b', 'x']), (2, ['f'])],
    'star': [(0, []), (3, []), (0, ['f', 'args', 'kwargs']), (2, ['self', 'func', 'gen', 'cls']), (5, ['iterator', 'wrapped', 'fn', 'f'])],
}
POS0, KW0 = 60, 80     # ids of the caller's positional / keyword argument objects
_FITS = {}


_PROBES = {}


def probe(sig):
    """a plain function with the signature that returns what Python binds to its parameters (the binding of the interpreter itself;
    inspect.Signature.bind of 3.12 rejects a keyword that names a positional-only parameter even when **kwargs takes it)"""
    if sig not in _PROBES:
        ns = {}
        exec(f'def probe({SIGS[sig]}):\n    return dict(locals())\n', ns)
        _PROBES[sig] = ns['probe']
    return _PROBES[sig]


def fits(sig, npos, kws):
    key = (sig, npos, tuple(kws))
    if key not in _FITS:
        try:
            probe(sig)(*range(npos), **{k: 0 for k in kws})
            _FITS[key] = True
        except TypeError:
            _FITS[key] = False
    return _FITS[key]


def mk_args(sig, npos, kws):
    return {'pos': [POS0 + i for i in range(npos)], 'kw': [[NAME_ID[k], KW0 + i] for i, k in enumerate(kws)], 'fits': fits(sig, npos, kws)}


def norm_args(a):
    """older corpus / replay files: a bare number n is the call cm(<n>, k=<n+1>)"""
    if isinstance(a, int):
        return {'pos': [a], 'kw': [[1, a + 1]], 'fits': True}
    return a


# async only: the section (setup / the statement after the yield) asks for its own task to be cancelled and then awaits: the
# CancelledError - an object asyncio creates - arrives DURING that await, i.e. while `__aenter__` / `__aexit__` of the manager is
# suspended in `await anext(iterator)`.  For the model this is the section raising a CancelledError (kind `cancelled`, an
# interpreter-made object: id >= CONV).
CANCEL_REAL = 'cancel-real'


def converted(mode, kind):
    return kind == 'stopIteration' or (mode == 'async' and kind == 'stopAsyncIteration')


def mk_exc(rng, kind, oid, cause=None, tame=False):
    """tame: no KeyboardInterrupt / SystemExit (for statements that a broken implementation may leave to the garbage collector: inside an
    event loop these two classes are re-raised out of the loop itself)"""
    kind, classes = split_kind(kind)
    # ordinary draws include the falsy classes now and then as well
    if kind in FALSY_CLASSES and classes is KIND_CLASSES[kind] and rng.random() < 0.15:
        classes = FALSY_CLASSES[kind]
    if tame:
        classes = [c for c in classes if c not in ('KeyboardInterrupt', 'SystemExit')]
    return [kind, oid, cause, rng.choice(classes)]


def gen_exc(rng, mode, kind, oid):
    """exception leaving the *user generator*: user code raising Stop(Async)Iteration surfaces as a RuntimeError chained to it"""
    if kind is None:
        return None
    if kind == CANCEL_REAL:
        return ['cancelled', CONV + oid, None, 'real-cancel']
    if converted(mode, split_kind(kind)[0]):
        return ['runtimeError', CONV + oid, oid, 'user:' + rng.choice(KIND_CLASSES[kind])]
    return mk_exc(rng, kind, oid)


# what the user generator RETURNS when it finishes (`return <object>` as its last statement, after the cleanup): wire form
# null (falls off the end) | ["none"] (an explicit `return` / `return None`) | ["falsy", i] | ["truthy", i]; an async generator cannot return a value
TRUTHY_VALUES = [1, 'handled', [0], True, 3.5, (None,), {'n': 0}]
FALSY_VALUES = [0, '', [], False, 0.0, (), {}]
RETURNS = [None, 'none', 'falsy', 'truthy']


def mk_ret(rng, mode, kind):
    if kind is None:
        return None
    if kind == 'none' or mode == 'async':
        return ['none']
    return [kind, rng.randrange(len(TRUTHY_VALUES if kind == 'truthy' else FALSY_VALUES))]


def rand_ret(rng, mode):
    """drawn for the generators of the streams that do not enumerate it"""
    return mk_ret(rng, mode, rng.choice([None, None, 'none', 'falsy', 'truthy', 'truthy']))


def mk_gen(rng, mode, tag, setup, yields, cleanup, base, mgr=None, sig=None, returns='draw', body=None):
    """cleanup: None | kind | ('same', E) | ('chained', E);  mgr: which decorated manager object this use calls (default: one of
    its own, decorated for this use);  sig: signature of that manager's generator function"""
    g = {'tag': tag, 'yields': yields, 'value': VAL0 + tag, 'suspend': rng.random() < 0.5,
         'setup': gen_exc(rng, mode, setup, base + 1)}
    r = rand_ret(rng, mode) if returns == 'draw' else mk_ret(rng, mode, returns)
    if r is not None:
        g['returns'] = r
    if mgr is not None:
        g['mgr'] = mgr
    if sig is not None:
        g['sig'] = sig
    if body is not None:
        g['body'] = body
    if isinstance(cleanup, tuple):
        how, be = cleanup
        g['cleanup'] = list(be) if how == 'same' else ['runtimeError', base + 2, be[1], rng.choice(KIND_CLASSES['runtimeError'])]
    else:
        g['cleanup'] = gen_exc(rng, mode, cleanup, base + 2)
    return g


def ok_gen(rng, mode, tag, cleanup=None, base=0, mgr=None):
    return mk_gen(rng, mode, tag, None, 1, cleanup, base, mgr)


def leaf(rng, n, body, oid):
    if body == 'normal':
        return ['body', n, ['normal']], None
    if body in ('ret', 'brk'):
        return ['body', n, ['early', body]], None
    e = mk_exc(rng, body, oid)
    return ['body', n, ['raises', e]], e


BODIES = ['normal', 'ret', 'brk'] + ALPHA
SETUPS = [None] + ALPHA
CLEANUPS = [None] + ALPHA + ['same', 'chained']
STRUCTS = ['single', 'nest-in', 'nest-in-outerfails', 'nest-out', 'rep-first', 'rep-second',
           # the SAME decorated manager object used twice: nested in itself (enumerated use inside / outside), one after the other
           'self-in', 'self-in-outerfails', 'self-out', 'self-rep-first', 'self-rep-second']


def build(rng, mode, struct, setup, yields, cleanup, body, returns='draw'):
    lf, be = leaf(rng, 0, body, 7)
    if cleanup in ('same', 'chained'):
        if be is None:
            return None
        cleanup = (cleanup, be)
    mgr = 'M' if struct.startswith('self-') else None        # both uses call the same decorated manager object
    shape = struct[5:] if mgr else struct
    g = mk_gen(rng, mode, 1, setup, yields, cleanup, 10, mgr, returns=returns)
    if shape == 'single':
        p = ['with', g, ARGS, lf]
    elif shape in ('nest-in', 'in'):
        p = ['with', ok_gen(rng, mode, 2, mgr=mgr), ARGS, ['with', g, ARGS, lf]]
    elif shape in ('nest-in-outerfails', 'in-outerfails'):
        p = ['with', ok_gen(rng, mode, 2, 'baseExc', 20, mgr=mgr), ARGS, ['with', g, ARGS, lf]]
    elif shape in ('nest-out', 'out'):
        p = ['with', g, ARGS, ['with', ok_gen(rng, mode, 2, mgr=mgr), ARGS, lf]]
    elif shape == 'rep-first':
        p = ['seq', ['with', g, ARGS, lf], ['with', ok_gen(rng, mode, 2, mgr=mgr), ARGS, ['body', 1, ['normal']]]]
    else:
        p = ['seq', ['with', ok_gen(rng, mode, 2, mgr=mgr), ARGS, ['body', 1, ['normal']]], ['with', g, ARGS, lf]]
    branch = ('setupfail' if setup else 'y0' if yields == 0 else 'y2' if yields == 2 else
              ('quirk?' if isinstance(cleanup, tuple) and cleanup[0] == 'chained' else 'same' if isinstance(cleanup, tuple) else
               ('both' if cleanup and body in ALPHA else 'cleanupexc' if cleanup else
                'early' if body in ('ret', 'brk') else 'bodyexc' if body in ALPHA else 'allok')))
    if any(isinstance(z, str) and z.endswith('!') for z in (setup, body, cleanup if not isinstance(cleanup, tuple) else None)):
        branch += '-falsy'
    if returns not in ('draw', None):
        branch += '-returns-' + returns
    return {'m': 'ctxmgr', 'c': {'kind': 'prog', 'mode': mode, 'prog': p},
            'x': {'tag': f'{mode}/{struct}/{branch}', 'trivial': branch == 'allok'}}


# ---- generators that protect (part of) their cleanup themselves: try / with blocks of their own around the yield, statements behind them
#
#   setup; try: yield v; <after>; <rest> except C: <handler> [raise] else: <else> finally: <fin>  (nested, innermost first); <trailing>
#
# A body on the wire: {'syn': what the yield statement sits in, 'frames': [{'kind': 'try'|'with', 'rest': ACTS, 'handlers': [[class, ACTS, reraise]],
# 'else': ACTS|None, 'fin': ACTS|None, 'finExc': ACTS|None}] (innermost first), 'trail': ACTS};  ACTS = [['ev', p] | ['raise', EXC]].
# The exception kinds raised there are never kinds Python converts when they leave a generator frame.
ACT_KINDS = ['exception', 'baseExc', 'runtimeError', 'cancelled', 'generatorExit', 'exception!', 'baseExc!']
CATCH_KINDS = ['exception', 'baseExc', 'runtimeError']      # enumerated where an `except` clause of the generator may see the exception


def FR(kind='try', handlers=(), els=False, fin=False, rest=True):
    return {'kind': kind, 'handlers': [tuple(h) for h in handlers], 'else': els, 'fin': fin, 'rest': rest}


SKELS = [   # (name, frames innermost first)
    ('bare', []),
    ('finally', [FR(fin=True)]),
    ('finally-norest', [FR(fin=True, rest=False)]),
    ('except-Exception', [FR(handlers=[('Exception', False)])]),
    ('except-Exception-reraise', [FR(handlers=[('Exception', True)])]),
    ('except-BaseException', [FR(handlers=[('BaseException', False)])]),
    ('except-bare-reraise', [FR(handlers=[('bare', True)])]),
    ('except-nomatch', [FR(handlers=[('ArithmeticError', False)])]),
    ('except-StopIteration', [FR(handlers=[('StopIteration', False)])]),
    ('except-Exception-finally', [FR(handlers=[('Exception', False)], fin=True)]),
    ('except-Exception-reraise-finally', [FR(handlers=[('Exception', True)], fin=True)]),
    ('except-BaseException-else-finally', [FR(handlers=[('BaseException', False)], els=True, fin=True)]),
    ('except-RuntimeError-Exception-finally', [FR(handlers=[('RuntimeError', False), ('Exception', True)], fin=True)]),
    ('except-GeneratorExit-reraise-finally', [FR(handlers=[('GeneratorExit', True)], fin=True)]),
    ('except-CancelledError-reraise', [FR(handlers=[('CancelledError', True)])]),
    ('with', [FR(kind='with')]),
    ('finally-in-finally', [FR(fin=True), FR(fin=True)]),
    ('finally-in-except', [FR(fin=True), FR(handlers=[('Exception', False)])]),
    ('except-reraise-in-finally', [FR(handlers=[('Exception', True)]), FR(fin=True)]),
    ('with-in-finally', [FR(kind='with'), FR(fin=True)]),
    ('finally-in-with', [FR(fin=True, rest=False), FR(kind='with')]),
    ('except-in-except-finally', [FR(handlers=[('BaseException', False)]), FR(handlers=[('Exception', False)], fin=True)]),
]


def mk_body(rng, frames, ntrail, raises=None, syn=None):
    """raises: {slot: EXC}: the statements of that slot are `piece; raise EXC; piece` (the second piece never runs)"""
    raises = raises or {}

    def acts(slot, p, present=True):
        a = [['ev', p]] if present else []
        if slot in raises:
            a += [['raise', raises[slot]], ['ev', p + 100]]
        return a
    out = []
    for i, f in enumerate(frames):
        fr = {'kind': f['kind'], 'rest': acts(f'r{i}', 10 + i, f['rest']),
              'handlers': [[c, acts(f'h{i}_{j}', 30 + 10 * i + j), rr] for j, (c, rr) in enumerate(f['handlers'])],
              'else': acts(f'e{i}', 50 + i) if f['else'] else None, 'fin': None, 'finExc': None}
        if f['kind'] == 'with':
            fr['fin'], fr['finExc'] = acts(f'f{i}', 70 + i), acts(f'x{i}', 80 + i)
        elif f['fin']:
            fr['fin'] = fr['finExc'] = acts(f'f{i}', 70 + i)       # one finally clause: the same statements with and without a pending exception
        out.append(fr)
    trail = []
    for n in range(ntrail):
        trail += acts(f't{n}', 90 + n)
    return {'syn': syn or rng.choice(SYNS), 'frames': out, 'trail': trail}


def normal_slots(frames, ntrail):
    """the slots that run when the generator is resumed normally and nothing raises (an `except` clause is none of them)"""
    out = []
    for i, f in enumerate(frames):
        out.append(f'r{i}')
        if f['else']:
            out.append(f'e{i}')
        if f['kind'] == 'with' or f['fin']:
            out.append(f'f{i}')
    return out + [f't{n}' for n in range(ntrail)]


def handler_slots(frames):
    return [f'h{i}_{j}' for i, f in enumerate(frames) for j in range(len(f['handlers']))]


def build_shaped(rng, mode, struct, name, frames, ntrail, slot, kind, body, hraise=False):
    """one use of a generator with the given blocks; `slot`: where its cleanup raises (None / 'after' = the statement right after the
    yield / a slot of the blocks), `hraise`: its first except clause raises as well (when it runs)"""
    lf, be = leaf(rng, 0, body, 7)
    syn = rng.choice(SYNS)
    raises = {}
    if slot not in (None, 'after'):
        raises[slot] = mk_exc(rng, kind, 16, tame=True)
    hs = handler_slots(frames)
    if hraise and hs:
        raises[hs[0]] = mk_exc(rng, 'baseExc', 17, tame=True)
    mgr = 'M' if struct.startswith('self-') else None
    shape = struct[5:] if mgr else struct
    g = mk_gen(rng, mode, 1, None, 1, kind if slot == 'after' else None, 10, mgr, body=mk_body(rng, frames, ntrail, raises, syn))

    def other():     # the other use: the same manager object (same source), or a manager of its own with blocks drawn
        if mgr:
            return mk_gen(rng, mode, 2, None, 1, None, 20, mgr, body=mk_body(rng, frames, ntrail, {}, syn))
        return mk_gen(rng, mode, 2, None, 1, None, 20, None, body=rand_body(rng, 26) if rng.random() < 0.7 else None)
    if shape == 'single':
        p = ['with', g, ARGS, lf]
    elif shape in ('nest-in', 'in'):
        p = ['with', other(), ARGS, ['with', g, ARGS, lf]]
    elif shape in ('nest-out', 'out'):
        p = ['with', g, ARGS, ['with', other(), ARGS, lf]]
    else:
        p = ['seq', ['with', g, ARGS, lf], ['with', other(), ARGS, ['body', 1, ['normal']]]]
    where = 'noraise' if slot is None else 'after' if slot == 'after' else slot[0]
    return {'m': 'ctxmgr', 'c': {'kind': 'prog', 'mode': mode, 'prog': p},
            'x': {'tag': f"{mode}/blocks/{struct}/{name}{'+trail' if ntrail else ''}/{where}{'+h' if hraise else ''}", 'trivial': False}}


def rand_body(rng, exc_base, skel=None):
    """blocks drawn: a skeleton, 0-2 trailing statements, up to two raising slots (ids exc_base, exc_base + 1, …)"""
    name, frames, *syn = skel or rng.choice(SKELS)
    ntrail = rng.choice([0, 1, 1, 2])
    slots = normal_slots(frames, ntrail) + handler_slots(frames)
    raises = {}
    for n in range(rng.choice([0, 0, 0, 1, 1, 2])):
        if slots:
            raises[rng.choice(slots)] = mk_exc(rng, rng.choice(ACT_KINDS), exc_base + n, tame=True)
    return mk_body(rng, frames, ntrail, raises, syn[0] if syn else None)


def shape_cases(rng, tier):
    """every skeleton x trailing statements {0, 1} x where the cleanup raises (nowhere / each slot on the exception-free path) x block
    outcome, single use; the same manager nested in itself, nested in another one and used twice over fewer block outcomes"""
    out = []
    few = ['normal', 'brk', 'exception', 'baseExc', 'stopIteration', 'cancelled']
    if tier == 'quick':      # (the falsy exception instances are drawn into the ordinary kinds now and then)
        structs = [('single', [b for b in BODIES if not b.endswith('!')]), ('self-in', ['normal', 'exception', 'baseExc', 'stopIteration']), ('rep-first', ['exception'])]
    else:
        structs = [('single', BODIES), ('self-in', BODIES), ('rep-first', few)]
    if tier == 'thorough':
        structs += [('nest-in', BODIES), ('nest-out', few), ('self-out', few)]
    for mode in ('sync', 'async'):
        for name, frames in SKELS:
            for ntrail in ((1, 2) if not frames else (0, 1)):
                inside = {'after'} | {f'r{i}' for i in range(len(frames))}         # an except clause of the generator may see these
                combos = [(None, None, False)]
                for slot in ['after'] + normal_slots(frames, ntrail):
                    kinds = CATCH_KINDS if slot in inside and handler_slots(frames) else ACT_KINDS if tier == 'thorough' else [rng.choice(ACT_KINDS)]
                    combos += [(slot, k, False) for k in kinds]
                    if slot in inside and handler_slots(frames):
                        combos += [(slot, k, True) for k in (CATCH_KINDS if tier == 'thorough' else ['exception'])]
                for slot, kind, hraise in combos:
                    for struct, bodies in structs:
                        for body in bodies:
                            out.append(build_shaped(rng, mode, struct, name, frames, ntrail, slot, kind, body, hraise))
    return out


def cancel_cases(rng, tier):
    """async: a real cancellation of the running task arrives while `__aenter__` is suspended in the setup / while `__aexit__` is
    suspended in the cleanup (plain generators and generators with try / with blocks of their own), x every block outcome"""
    out = []
    for struct in ('single', 'nest-in', 'nest-in-outerfails', 'nest-out', 'rep-first', 'self-in', 'self-out'):
        for body in BODIES:
            out.append(build(rng, 'async', struct, None, 1, CANCEL_REAL, body))
        for body in ('normal', 'exception'):
            out.append(build(rng, 'async', struct, CANCEL_REAL, 1, None, body))
    for name, frames in SKELS:
        for body in ('normal', 'brk', 'exception', 'cancelled'):
            out.append(build_shaped(rng, 'async', rng.choice(['single', 'self-in']), name, frames, 1, 'after', CANCEL_REAL, body))
    for c in out:
        c['x']['tag'] = c['x']['tag'].replace('/', '/cancel-during-await/', 1)
    # overlapping uses: the task of one use is cancelled inside its cleanup while another use of the same manager is live
    for order in interleavings(2):
        for who in (0, 1):
            for body in ('normal', 'exception', 'cancelled'):
                ga, fa = hist_gen(rng, 'async', who, None, 1, None, body)
                ga['cleanup'] = gen_exc(rng, 'async', CANCEL_REAL, 10 + 10 * who + 2)
                gb, fb = hist_gen(rng, 'async', 1 - who, None, 1, None, rng.choice(['normal', 'exception']))
                gens, fins = ([ga, gb], [fa, fb]) if who == 0 else ([gb, ga], [fb, fa])
                out.append(mk_hist(rng, 'async', order, gens, [ARGS_D, ARGS_D], fins, 'async/hist2-cancel-during-await'))
    return out


def rand_prog(rng, mode, depth, counter):
    """random program; ids are unique per program"""
    def fresh():
        counter[0] += 1
        return counter[0]
    r = rng.random()
    if depth == 0 or r < 0.25:
        n = fresh()
        body = rng.choice(['normal'] * 4 + ['ret', 'brk'] + ALPHA)
        return leaf(rng, n, body, 100 + n)[0]
    if r < 0.45:
        return ['seq', rand_prog(rng, mode, depth - 1, counter), rand_prog(rng, mode, depth - 1, counter)]
    t = fresh()
    if len(counter) == 1:        # per program: the source of the shared managers A and B (blocks of their own around the yield, or none)
        counter.append({k: (lambda sk: sk and (sk[0], sk[1], rng.choice(SYNS)))(rng.choice([None, None] + SKELS)) for k in 'AB'})
    mgr = rng.choice([None, 'A', 'A', 'B'])          # the same decorated manager object nested in itself / reused
    skel = counter[1][mgr] if mgr else rng.choice([None, None] + SKELS)
    if skel is None:
        g = mk_gen(rng, mode, t, rng.choice([None] * 8 + ALPHA), rng.choice([1] * 10 + [0, 2]),
                   rng.choice([None] * 5 + ALPHA), 200 + 3 * t, mgr)
    else:
        g = mk_gen(rng, mode, t, rng.choice([None] * 8 + ALPHA), rng.choice([1] * 10 + [0, 2]),
                   rng.choice([None] * 5 + ACT_KINDS), 200 + 3 * t, mgr, body=rand_body(rng, 300 + 6 * t, skel))
    return ['with', g, ARGS, rand_prog(rng, mode, depth - 1, counter)]


FN_VARIANTS = [  # (label, inspect kind, has __name__)
    ('gen_def', 'generator', True), ('gen_args', 'generator', True), ('gen_lambda', 'generator', True), ('gen_partial', 'generator', False),
    ('gen_method', 'generator', True),
    ('agen_def', 'asyncGenerator', True), ('agen_partial', 'asyncGenerator', False), ('agen_method', 'asyncGenerator', True),
    ('plain_def', 'plain', True), ('plain_lambda', 'plain', True), ('plain_builtin', 'plain', True), ('plain_class', 'plain', True),
    ('plain_partial', 'plain', False), ('plain_instance', 'plain', False), ('plain_method', 'plain', True),
    ('plain_returns_gen', 'plain', True), ('instance_gen_call', 'plain', False),
    ('coro_def', 'coroutine', True), ('coro_partial', 'coroutine', False), ('coro_method', 'coroutine', True),
]


WRAP_KINDS = ['generator', 'asyncGenerator', 'plain', 'coroutine']
# decoration targets that are WRAPPERS: (label, kind of the object handed in, kind of inspect.unwrap(it), has __name__).
# `wrap:<outer>:<inner>`: a function of kind <outer> carrying functools.wraps(<a function of kind inner>); what counts is <outer>.
WRAPPED_VARIANTS = [(f'wrap:{o}:{i}', o, i, True) for o in WRAP_KINDS for i in WRAP_KINDS] + [
    (f'wrap2:{o}:{i}', o, i, True) for o, i in (('plain', 'generator'), ('coroutine', 'asyncGenerator'), ('generator', 'plain'), ('asyncGenerator', 'coroutine'))
] + [(f'partial_wrapped:{i}', 'plain', i, True) for i in WRAP_KINDS] + [(f'instance_wrapped:{i}', 'plain', i, True) for i in WRAP_KINDS] + [
    (f'gen_partial_wrapped:{i}', 'generator', i, True) for i in ('plain', 'asyncGenerator')] + [
    ('attr_only:generator', 'plain', 'generator', True), ('attr_only:asyncGenerator', 'plain', 'asyncGenerator', True)]


# interpreter modes: 0 = this process; 1, 2, 3 = a child interpreter started with -O, with -OO, with PYTHONOPTIMIZE=1 in its environment
# (assert statements are compiled away, `__debug__` is False; -OO also drops docstrings)
OPT_MODES = {1: 'python -O', 2: 'python -OO', 3: 'PYTHONOPTIMIZE=1'}


def deco_cases():
    """every decoration target x both decorators x every interpreter mode"""
    out = []
    for opt in (0, 1, 2, 3):
        o = {'opt': opt} if opt else {}
        for mode in ('sync', 'async'):
            for label, kind, has_name in FN_VARIANTS:
                out.append({'m': 'ctxmgr', 'c': {'kind': 'deco', 'mode': mode, 'fn': kind, 'hasName': has_name, 'variant': label, **o},
                            'x': {'tag': f"{mode}/deco{'-O' + str(opt) if opt else ''}/{kind}", 'trivial': False}})
            for label, kind, ukind, has_name in WRAPPED_VARIANTS:
                out.append({'m': 'ctxmgr', 'c': {'kind': 'deco', 'mode': mode, 'fn': kind, 'unwrapped': ukind, 'hasName': has_name, 'variant': label, **o},
                            'x': {'tag': f"{mode}/deco-wrapper{'-O' + str(opt) if opt else ''}/{kind}-around-{ukind}", 'trivial': False}})
    return out


def opt_prog_cases(rng, tier):
    """a small sample of managers in use inside the optimised interpreters: single use, every block outcome, plain and self-protecting generators"""
    out = []
    for opt in (1, 2, 3):
        for mode in ('sync', 'async'):
            for body in BODIES:
                cs = [build(rng, mode, 'single', None, 1, cl, body) for cl in (None, 'exception')]
                cs += [build(rng, mode, 'single', 'baseExc', 1, None, body)] if body == 'normal' else []
                name, frames = rng.choice(SKELS[1:])
                cs.append(build_shaped(rng, mode, rng.choice(['single', 'self-in']), name, frames, 1, rng.choice([None, 't0']), 'exception', body))
                for c in cs:
                    c['c']['opt'] = opt
                    c['x']['tag'] = c['x']['tag'].replace('/', f'-O{opt}/', 1)
                out += cs
    return out


def args_cases(rng, tier):
    """argument forwarding: every signature x every call tuple x {sync, async}; the block ends normally or raises"""
    out = []
    for mode in ('sync', 'async'):
        for sig, calls in CALLS.items():
            for npos, kws in calls:
                a = mk_args(sig, npos, kws)
                for body in ('normal', 'exception'):
                    lf, _ = leaf(rng, 0, body, 7)
                    g = mk_gen(rng, mode, 1, None, 1, None, 10, sig=sig)
                    out.append({'m': 'ctxmgr', 'c': {'kind': 'prog', 'mode': mode, 'prog': ['with', g, a, lf]},
                                'x': {'tag': f"{mode}/args/{sig}/{'binds' if a['fits'] else 'nofit'}", 'trivial': False}})
                # the same manager object called twice with the tuple (nested in itself), and a failing setup that received it
                g1 = mk_gen(rng, mode, 1, None, 1, None, 10, 'M', sig)
                g2 = mk_gen(rng, mode, 2, rng.choice([None, 'exception']), 1, None, 20, 'M', sig)
                out.append({'m': 'ctxmgr', 'c': {'kind': 'prog', 'mode': mode, 'prog': ['with', g1, a, ['with', g2, a, ['body', 0, ['normal']]]]},
                            'x': {'tag': f"{mode}/args-selfnest/{sig}/{'binds' if a['fits'] else 'nofit'}", 'trivial': False}})
    return out


def rand_args(rng, sig):
    npos, kws = rng.choice(CALLS[sig])
    return mk_args(sig, npos, kws)


def selfnest3_cases(rng, tier):
    """the same manager nested in itself three deep: block outcome x cleanup outcome of each level (quick: one level at a time)"""
    out = []
    cl = [None, 'exception', 'baseExc', 'stopIteration', 'runtimeError']
    for mode in ('sync', 'async'):
        combos = itertools.product(cl, cl, cl) if tier == 'thorough' else \
            [c for c in itertools.product(cl, cl, cl) if sum(x is not None for x in c) <= 1] + [('exception', 'baseExc', 'runtimeError')]
        for c1, c2, c3 in combos:
            for body in BODIES:
                lf, _ = leaf(rng, 0, body, 7)
                p = ['with', mk_gen(rng, mode, 1, None, 1, c1, 10, 'M'), ARGS,
                     ['with', mk_gen(rng, mode, 2, None, 1, c2, 20, 'M'), ARGS,
                      ['with', mk_gen(rng, mode, 3, None, 1, c3, 30, 'M'), ARGS, lf]]]
                out.append({'m': 'ctxmgr', 'c': {'kind': 'prog', 'mode': mode, 'prog': p}, 'x': {'tag': f'{mode}/self-nest3', 'trivial': False}})
        for setup in ALPHA:          # the innermost / the middle use fails to enter
            for where in (2, 3):
                p = ['with', mk_gen(rng, mode, 1, None, 1, None, 10, 'M'), ARGS,
                     ['with', mk_gen(rng, mode, 2, setup if where == 2 else None, 1, None, 20, 'M'), ARGS,
                      ['with', mk_gen(rng, mode, 3, setup if where == 3 else None, 1, None, 30, 'M'), ARGS, ['body', 0, ['normal']]]]]
                out.append({'m': 'ctxmgr', 'c': {'kind': 'prog', 'mode': mode, 'prog': p}, 'x': {'tag': f'{mode}/self-nest3/setupfail', 'trivial': False}})
    return out


# ---- histories: enter / exit events over several live uses of ONE decorated manager

def interleavings(k):
    """all orders of E0..E(k-1), X0..X(k-1) with E0 < E1 < … (uses are numbered by their enter) and Ei < Xi"""
    out = []

    def go(seq, entered, exited):
        if len(seq) == 2 * k:
            out.append(list(seq))
            return
        if entered < k:
            go(seq + [('E', entered)], entered + 1, exited)
        for i in range(entered):
            if i not in exited:
                go(seq + [('X', i)], entered, exited | {i})
    go([], 0, frozenset())
    return out


def enters_ok(g, a):
    return g['setup'] is None and g['yields'] >= 1 and a['fits']


def fin_of(rng, body, oid):
    """block outcome of an exit operation (same wire form as a leaf body's outcome)"""
    return leaf(rng, 0, body, oid)[0][2]


def mk_hist(rng, mode, order, gens, argss, bodies, tag):
    """order: [('E', i) | ('X', i)]; a use whose enter fails is never exited"""
    ops = []
    for kind, i in order:
        if kind == 'E':
            ops.append(['enter', gens[i], argss[i]])
        elif enters_ok(gens[i], argss[i]):
            ops.append(['exit', i, bodies[i]])
    return {'m': 'ctxmgr', 'c': {'kind': 'hist', 'mode': mode, 'ops': ops}, 'x': {'tag': tag, 'trivial': False}}


def hist_gen(rng, mode, i, setup, yields, cleanup, body, sig=None, blocks=None):
    """use i: generator behaviour + block outcome; cleanup may be 'same' / 'chained' (relative to the block's own exception);
    blocks: the skeleton of the manager's generator function (try / with blocks of its own around the yield), statements drawn per use"""
    base = 10 + 10 * i
    fin = fin_of(rng, body, base + 3)
    be = fin[1] if fin[0] == 'raises' else None
    if blocks is not None:
        return mk_gen(rng, mode, i + 1, setup, yields, cleanup if cleanup in ACT_KINDS else None, base, 'M', sig,
                      body=rand_body(rng, base + 5, blocks)), fin
    if cleanup in ('same', 'chained'):
        cleanup = (cleanup, be) if be is not None else None
    return mk_gen(rng, mode, i + 1, setup, yields, cleanup, base, 'M', sig), fin


def hist_cases(rng, tier):
    out = []
    cl2 = [None, 'exception', 'baseExc', 'stopIteration', 'exception!', 'baseExc!'] if tier == 'thorough' else [None, 'exception', 'baseExc', 'exception!']
    bd2 = BODIES if tier == 'thorough' else ['normal', 'ret', 'exception', 'baseExc', 'stopIteration', 'generatorExit', 'cancelled', 'exception!', 'baseExc!']
    for mode in ('sync', 'async'):
        # two uses: every interleaving x cleanup outcomes x block outcomes
        for order in interleavings(2):
            name = ''.join(f'{k}{i}' for k, i in order)
            for c0, c1, b0, b1 in itertools.product(cl2, cl2, bd2, bd2):
                g0, f0 = hist_gen(rng, mode, 0, None, 1, c0, b0)
                g1, f1 = hist_gen(rng, mode, 1, None, 1, c1, b1)
                out.append(mk_hist(rng, mode, order, [g0, g1], [ARGS_D, ARGS_D], [f0, f1], f'{mode}/hist2/{name}'))
            # setup outcomes / undocumented forms / quirk candidates of one use while the other is live
            for who in (0, 1):
                for setup, yields, cleanup, body in ([(k, 1, None, 'normal') for k in ALPHA] + [(None, 0, None, 'normal'), (None, 2, None, 'normal'), (None, 2, 'exception', 'exception')]
                                                     + [(None, 1, c, b) for c in ('same', 'chained') for b in ALPHA]):
                    ga, fa = hist_gen(rng, mode, who, setup, yields, cleanup, body)
                    gb, fb = hist_gen(rng, mode, 1 - who, None, 1, None, rng.choice(bd2))
                    gens, fins = ([ga, gb], [fa, fb]) if who == 0 else ([gb, ga], [fb, fa])
                    out.append(mk_hist(rng, mode, order, gens, [ARGS_D, ARGS_D], fins, f'{mode}/hist2-special/{name}'))
        # three uses: every interleaving, outcomes drawn
        for order in interleavings(3):
            for _ in range(2 if tier == 'quick' else 12):
                gf = [hist_gen(rng, mode, i, None, 1, rng.choice([None, None, 'exception', 'baseExc', 'runtimeError']), rng.choice(BODIES)) for i in range(3)]
                out.append(mk_hist(rng, mode, order, [g for g, _ in gf], [ARGS_D] * 3, [f for _, f in gf], f'{mode}/hist3'))
    out += rand_hists(rng, 400 if tier == 'quick' else 8000, 'hist-random')
    return out


def rand_hists(rng, n, label):
    out = []
    for _ in range(n):
        mode = rng.choice(['sync', 'async'])
        k = rng.randint(2, 5)
        sig = rng.choice(list(SIGS))
        # a random valid interleaving
        order, entered, live = [], 0, []
        while entered < k or live:
            if entered < k and (not live or rng.random() < 0.55):
                order.append(('E', entered)); live.append(entered); entered += 1
            else:
                order.append(('X', live.pop(rng.randrange(len(live)))))
        blocks = rng.choice([None, None] + SKELS)      # one manager: one source
        if blocks is not None:
            blocks = (blocks[0], blocks[1], rng.choice(SYNS))
        gf = [hist_gen(rng, mode, i, rng.choice([None] * 9 + ALPHA), rng.choice([1] * 12 + [0, 2]),
                       rng.choice([None] * 5 + ALPHA + ['same', 'chained']), rng.choice(['normal'] * 3 + ['ret', 'brk'] + ALPHA), sig, blocks) for i in range(k)]
        out.append(mk_hist(rng, mode, order, [g for g, _ in gf], [rand_args(rng, sig) for _ in range(k)], [f for _, f in gf], f'{mode}/{label}'))
    return out


ARGS_D = {'pos': [ARGS], 'kw': [[1, ARGS + 1]], 'fits': True}     # cm(<5>, k=<6>) on the default signature `a, k=None`


def cases(rng, tier):
    out = deco_cases()
    for mode in ('sync', 'async'):
        for struct in STRUCTS:
            for setup, yields, cleanup, body in itertools.product(SETUPS, (0, 1, 2), CLEANUPS, BODIES):
                c = build(rng, mode, struct, setup, yields, cleanup, body)
                if c is not None:
                    out.append(c)
        # what the generator returns after its cleanup, enumerated: every setup x yields x cleanup x block outcome x returned value
        for struct in ('single', 'nest-in', 'self-out'):
            for setup, yields, cleanup, body in itertools.product(SETUPS, (0, 1, 2), CLEANUPS, BODIES):
                for returns in (RETURNS[1:] if mode == 'sync' else ['none']):
                    if struct != 'single' and (setup is not None or yields != 1):
                        continue
                    c = build(rng, mode, struct, setup, yields, cleanup, body, returns)
                    if c is not None:
                        out.append(c)
    out += args_cases(rng, tier) + selfnest3_cases(rng, tier) + hist_cases(rng, tier) + shape_cases(rng, tier) + opt_prog_cases(rng, tier) + cancel_cases(rng, tier)
    if tier == 'thorough':
        # nested, both managers enumerated: outer over everything, inner over every cleanup outcome
        for mode in ('sync', 'async'):
            for setup, yields, cleanup, icleanup, body in itertools.product(SETUPS, (0, 1, 2), [None] + ALPHA, [None] + ALPHA, BODIES):
                lf, _ = leaf(rng, 0, body, 7)
                for mgr in (None, 'M'):
                    p = ['with', mk_gen(rng, mode, 1, setup, yields, cleanup, 10, mgr), ARGS, ['with', ok_gen(rng, mode, 2, icleanup, 20, mgr), ARGS, lf]]
                    out.append({'m': 'ctxmgr', 'c': {'kind': 'prog', 'mode': mode, 'prog': p},
                                'x': {'tag': f"{mode}/{'self-' if mgr else ''}nest-square", 'trivial': False}})
    for _ in range(1500 if tier == 'quick' else 30000):
        mode = rng.choice(['sync', 'async'])
        p = rand_prog(rng, mode, rng.randint(1, 4), [0])
        out.append({'m': 'ctxmgr', 'c': {'kind': 'prog', 'mode': mode, 'prog': p}, 'x': {'tag': f'{mode}/random', 'trivial': False}})
    return out


def search(rng, tier, near):
    out = []
    for _ in range(5000):
        mode = rng.choice(['sync', 'async'])
        out.append({'m': 'ctxmgr', 'c': {'kind': 'prog', 'mode': mode, 'prog': rand_prog(rng, mode, rng.randint(1, 3), [0])},
                    'x': {'tag': f'{mode}/search', 'trivial': False}})
    return out + rand_hists(rng, 1500, 'hist-search')


# ------------------------------------------------------------------------------------------------ implementation side

def _classes():
    import asyncio

    class MyExc(Exception): pass
    class MyBase(BaseException): pass
    class MyStop(StopIteration): pass

    class EmptyErrors(Exception):            # an (empty) collection of errors: falsy through __len__
        def __len__(self): return 0

    class FalsyExc(Exception):
        def __bool__(self): return False

    class FalsyBase(BaseException):
        def __bool__(self): return False

    class EmptyBaseErrors(BaseException):
        def __len__(self): return 0
    d = {c.__name__: c for c in (ValueError, KeyError, AssertionError, OSError, KeyboardInterrupt, SystemExit, GeneratorExit, StopIteration,
                                 StopAsyncIteration, RuntimeError, NotImplementedError, RecursionError)}
    d.update(MyExc=MyExc, MyBase=MyBase, MyStop=MyStop, CancelledError=asyncio.CancelledError, EmptyErrors=EmptyErrors, FalsyExc=FalsyExc,
             FalsyBase=FalsyBase, EmptyBaseErrors=EmptyBaseErrors)
    return d


def body_excs(g):
    """the exception objects the statements of the generator's own blocks raise"""
    b = g.get('body')
    if b is None:
        return []
    lists = [b.get('trail') or []]
    for f in b['frames']:
        lists += [f.get('rest') or [], f.get('else') or [], f.get('fin') or [], f.get('finExc') or []] + [h[1] for h in (f.get('handlers') or [])]
    return [a[1] for l in lists for a in l if a[0] == 'raise']


def kind_of(e):
    import asyncio
    if isinstance(e, StopIteration): return 'stopIteration'
    if isinstance(e, StopAsyncIteration): return 'stopAsyncIteration'
    if isinstance(e, RuntimeError): return 'runtimeError'
    if isinstance(e, asyncio.CancelledError): return 'cancelled'
    if isinstance(e, GeneratorExit): return 'generatorExit'
    if isinstance(e, Exception): return 'exception'
    return 'baseExc'


_TEMPLATES = {}
_SRC_DIR = []

# classes an `except` clause of a generated user generator may name: wire name -> source text (`noMatch` on the Lean side: a class none
# of the exception classes in play derives from)
HANDLER_SRC = {'Exception': 'Exception', 'BaseException': 'BaseException', 'bare': None, 'RuntimeError': 'RuntimeError',
               'StopIteration': 'StopIteration', 'GeneratorExit': 'GeneratorExit', 'CancelledError': '_E_.Cancelled',
               'ArithmeticError': 'ArithmeticError'}
SYNS = ['plain', 'for', 'if', 'while']       # what the yield statement itself sits in (no semantic content)


def skeleton_of(body):
    """the syntactic shape of a user generator with blocks of its own around the yield: everything the SOURCE TEXT depends on (the
    statements themselves are looked up at run time).  None: the plain template `setup; (yield; after)*`"""
    if body is None:
        return None
    return (body.get('syn', 'plain'),
            tuple((f.get('kind', 'try'), tuple((h[0], bool(h[2])) for h in (f.get('handlers') or [])), f.get('else') is not None,
                   f.get('fin') is not None) for f in body['frames']))


def _block(frames, idx, ind, core):
    """source lines of the frames 0..idx (innermost first) around the yield, outermost at indentation `ind`"""
    pad = ' ' * ind
    if idx < 0:
        return core(ind)
    kind, handlers, has_else, has_fin = frames[idx]
    if kind == 'with':
        return [f'{pad}with _E_.inner(_U_, "f{idx}", "x{idx}"):'] + _block(frames, idx - 1, ind + 4, core) + [f'{pad}    _E_.acts(_U_, "r{idx}")']
    if not handlers and not has_fin:
        raise RuntimeError('harness label: a try statement needs a handler or a finally clause')
    lines = [f'{pad}try:'] + _block(frames, idx - 1, ind + 4, core) + [f'{pad}    _E_.acts(_U_, "r{idx}")']
    for j, (cls, reraise) in enumerate(handlers):
        lines.append(f'{pad}except {HANDLER_SRC[cls]}:' if HANDLER_SRC[cls] else f'{pad}except:')
        lines.append(f'{pad}    _E_.acts(_U_, "h{idx}_{j}")')
        if reraise:
            lines.append(f'{pad}    raise')
    if has_else:
        lines += [f'{pad}else:', f'{pad}    _E_.acts(_U_, "e{idx}")']
    if has_fin:
        lines += [f'{pad}finally:', f'{pad}    _E_.acts(_U_, "f{idx}")']
    return lines


def gen_source(sig, mode, skel):
    """source text of `_make_(_E_, _K_)` that defines the user generator function.  Its own names are spelled so that no parameter name
    can clash with them; everything it does is delegated to the environment `_E_`."""
    A = 'async ' if mode == 'async' else ''
    susp = (lambda ind: [' ' * ind + 'if _U_.susp:', ' ' * ind + '    await _E_.sleep0()']) if mode == 'async' else (lambda ind: [])
    after = (lambda i: f'await _E_.after_a(_U_, {i})') if mode == 'async' else (lambda i: f'_E_.after(_U_, {i})')
    L = ['def _make_(_E_, _K_):', f'    {A}def user_gen({SIGS[sig]}):', '        _U_ = _E_.start(_K_, dict(locals()))'] + susp(8) + [('        await _E_.setup_a(_U_)' if mode == 'async' else '        _E_.setup(_U_)')]
    if skel is None:
        L += ['        for _i_ in range(_U_.n):', '            yield _U_.v'] + susp(12) + ['            ' + after('_i_')]
    else:
        syn, frames = skel

        def core(ind):
            pad = ' ' * ind
            if syn == 'plain':
                return [f'{pad}yield _U_.v'] + susp(ind) + [pad + after(0)]
            head = {'for': 'for _j_ in (0,):', 'if': 'if _U_.n:', 'while': 'while True:'}[syn]
            return [pad + head, f'{pad}    yield _U_.v'] + susp(ind + 4) + [pad + '    ' + after(0)] + ([f'{pad}    break'] if syn == 'while' else [])
        L += ['        if _U_.n:'] + _block(frames, len(frames) - 1, 12, core) + ['            _E_.acts(_U_, "t")',
              '            for _i_ in range(1, _U_.n):', '                yield _U_.v'] + susp(16) + ['                ' + after('_i_')]
    L += ['        if _U_.returns:', '            return _U_.retval' if mode == 'sync' else '            return', '    return user_gen']
    return '\n'.join(L) + '\n'


def src_dir():
    """generated generator functions live in real .py files of a short-lived directory (the library may call inspect.getsource)"""
    if not _SRC_DIR:
        import tempfile, atexit, shutil
        d = tempfile.mkdtemp(prefix='pedverif_c16_')
        atexit.register(shutil.rmtree, d, True)
        _SRC_DIR.append(d)
    return _SRC_DIR[0]


def gen_factory(sig, mode, skel=None):
    """the user generator function with the given parameter list (and the given blocks around its yield), one module per
    (signature, mode, skeleton), written to a file and imported from there"""
    key = (sig, mode, skel)
    if key not in _TEMPLATES:
        import importlib.util, os
        path = os.path.join(src_dir(), f'c16gen_{len(_TEMPLATES)}.py')
        with open(path, 'w') as f:
            f.write(gen_source(sig, mode, skel))
        spec = importlib.util.spec_from_file_location(f'c16gen_{len(_TEMPLATES)}', path)
        mod = importlib.util.module_from_spec(spec)
        spec.loader.exec_module(mod)
        _TEMPLATES[key] = mod._make_
    return _TEMPLATES[key]


class _Inner:
    """a with block of the user generator's own around its yield: `__exit__` runs one list of statements when an exception is
    passing through and another when not; it never suppresses"""

    def __init__(self, env, u, ok, exc):
        self.env, self.u, self.ok, self.exc = env, u, ok, exc

    def __enter__(self):
        return self

    def __exit__(self, t, v, tb):
        self.env.acts(self.u, self.exc if t is not None else self.ok)
        return False


class Use:
    """one use of a manager: what its generator does (read by the generator when it starts)"""

    def __init__(self, env, g, a):
        self.tag, self.se, self.ce, self.n, self.susp = g['tag'], g['setup'], g['cleanup'], g['yields'], g.get('suspend')
        self.v = env.val(g['tag'])
        r = g.get('returns')
        self.returns = r is not None          # the generator ends with an explicit return statement
        self.retval = None if r is None or r[0] == 'none' else (TRUTHY_VALUES if r[0] == 'truthy' else FALSY_VALUES)[r[1]]
        self.a = a
        self.recv = None
        self.slots = {}
        b = g.get('body')
        if b is not None:
            for i, f in enumerate(b['frames']):
                self.slots[f'r{i}'] = f.get('rest') or []
                self.slots[f'e{i}'] = f.get('else') or []
                self.slots[f'f{i}'] = f.get('fin') or []
                self.slots[f'x{i}'] = f.get('finExc') or []
                for j, h in enumerate(f.get('handlers') or []):
                    self.slots[f'h{i}_{j}'] = h[1]
            self.slots['t'] = b.get('trail') or []


class Env:
    """one program run: object registry (id <-> object), journal, the decorated managers"""

    def __init__(self, c, classes, deco):
        self.J = []
        self.objs = {}
        self.raise_obj = {}      # spec id -> object the user code raises (differs from objs for user-level Stop*Iteration)
        self.vals = {}
        self.argobjs = {}
        self.mgrs = {}
        self.raws = {}
        self.sigs = {}
        self.mode, self.deco = c['mode'], deco
        self.pending = None
        self.closed = False      # the case is over: whatever a generator left behind does when it is finalised is not part of the outcome
        self.skels = {}
        import asyncio
        self.Cancelled = asyncio.CancelledError
        specs = []
        if c['kind'] == 'hist':
            for op in c['ops']:
                if op[0] == 'enter':
                    specs += [op[1][k] for k in ('setup', 'cleanup') if op[1][k] is not None] + body_excs(op[1])
                elif op[2][0] == 'raises':
                    specs.append(op[2][1])
        else:
            self._collect(c['prog'], specs)
        for e in sorted(specs, key=lambda e: (e[2] is not None, e[1])):
            kind, oid, cause, cls = e
            if cls == 'real-cancel':
                self.raise_obj[oid] = None
                continue
            if cls.startswith('user:'):
                if cause not in self.objs:
                    self.objs[cause] = classes[cls[5:]]()
                self.raise_obj[oid] = self.objs[cause]
            else:
                if oid not in self.objs:
                    self.objs[oid] = classes[cls]()
                    if cause is not None:
                        self.objs[oid].__cause__ = self.objs.get(cause)
                self.raise_obj[oid] = self.objs[oid]
        self.ids = [(o, i) for i, o in self.objs.items()]

    def _collect(self, p, specs):
        if p[0] == 'with':
            for k in ('setup', 'cleanup'):
                if p[1][k] is not None:
                    specs.append(p[1][k])
            specs += body_excs(p[1])
            self._collect(p[3], specs)
        elif p[0] == 'seq':
            self._collect(p[1], specs); self._collect(p[2], specs)
        elif p[2][0] == 'raises':
            specs.append(p[2][1])

    def vid(self, o):
        for obj, i in self.ids:
            if obj is o:
                return i
        return 'rt'

    def canon(self, e):
        c = e.__cause__
        return ['raised', kind_of(e), self.vid(e), None if c is None else self.vid(c)]

    def val(self, tag):
        return self.vals.setdefault(tag, object())

    def argobj(self, i):
        return self.argobjs.setdefault(i, object())

    def argid(self, o):
        for i, obj in self.argobjs.items():
            if obj is o:
                return i
        return None if o is None else -1

    # ---- the decorated managers
    def manager(self, g):
        """the decorated manager object of this use: `mgr` names it (uses with the same `mgr` call the SAME object, decorated once);
        without `mgr` the use gets a manager of its own"""
        key = g.get('mgr') or ('own', g['tag'])
        skel = skeleton_of(g.get('body'))
        if key not in self.mgrs:
            raw = gen_factory(g.get('sig', 'a_k'), self.mode, skel)(self, key)
            self.raws[key] = raw
            self.sigs[key] = g.get('sig', 'a_k')
            self.skels[key] = skel
            self.mgrs[key] = self.deco(raw)
        elif self.skels[key] != skel or self.sigs[key] != g.get('sig', 'a_k'):
            raise RuntimeError(f'harness label: two uses of manager {key} disagree about the source of its generator function')
        return key, self.mgrs[key]

    def prepare(self, g, a):
        """-> (manager, positional objects, keyword objects); the next generator that starts belongs to this use"""
        a = norm_args(a)
        key, cm = self.manager(g)
        pos = [self.argobj(i) for i in a['pos']]
        kw = {NAMES[n]: self.argobj(i) for n, i in a['kw']}
        # the harness label `fits` must agree with the real call of the undecorated generator function
        try:
            it = self.raws[key](*pos, **kw)
            real = True
            if hasattr(it, 'close'):
                it.close()
        except TypeError:
            real = False
        if real != a['fits']:
            raise RuntimeError(f'harness label fits={a["fits"]} of {a} disagrees with the call of the generator function ({g.get("sig", "a_k")})')
        self.pending = Use(self, g, a)
        return cm, pos, kw

    # ---- called by the user generators
    def start(self, key, received):
        u, self.pending = self.pending, None
        received = {k: v for k, v in received.items() if k not in ('_E_', '_K_')}      # closure cells show up in locals()
        if u is None:
            raise RuntimeError('a user generator started that no use of the harness asked for')
        a = u.a
        pos = [self.argobj(i) for i in a['pos']]
        kw = {NAMES[n]: self.argobj(i) for n, i in a['kw']}
        want = probe(self.sigs[key])(*pos, **kw)     # what a direct call of a function with this signature binds

        def same(x, y):
            if isinstance(x, tuple) and isinstance(y, tuple):
                return len(x) == len(y) and all(p is q for p, q in zip(x, y))
            if isinstance(x, dict) and isinstance(y, dict):
                return list(x) == list(y) and all(x[k] is y[k] for k in x)
            return x is y
        if list(want) == list(received) and all(same(want[k], received[k]) for k in want):
            u.recv = [list(a['pos']), [list(p) for p in a['kw']]]
        else:
            def ids(x):
                if isinstance(x, tuple):
                    return [self.argid(p) for p in x]
                if isinstance(x, dict):
                    return [[k, self.argid(p)] for k, p in x.items()]
                return self.argid(x)
            u.recv = ['got', [[k, ids(v)] for k, v in received.items()]]
        return u

    def setup(self, u):
        self.J.append(['setup', u.tag] + u.recv)
        if u.se is not None:
            raise self.raise_obj[u.se[1]]

    async def setup_a(self, u):
        self.J.append(['setup', u.tag] + u.recv)
        if u.se is not None:
            await self.raise_a(u.se)

    async def after_a(self, u, i):
        if self.closed:
            return
        self.J.append(['cleanup', u.tag] if i == 0 else ['extra', u.tag])
        if i == 0 and u.ce is not None:
            await self.raise_a(u.ce)

    async def raise_a(self, spec):
        if spec[3] == 'real-cancel':
            import asyncio
            asyncio.current_task().cancel()
            await asyncio.sleep(0)              # the cancellation is delivered here, inside the section
            raise RuntimeError('harness label: the cancellation was not delivered')
        raise self.raise_obj[spec[1]]

    def after(self, u, i):
        if self.closed:
            return
        self.J.append(['cleanup', u.tag] if i == 0 else ['extra', u.tag])
        if i == 0 and u.ce is not None:
            raise self.raise_obj[u.ce[1]]

    def acts(self, u, slot):
        """the statements of one slot of the generator's own blocks: journal a piece / raise an exception object"""
        if self.closed:
            return
        for a in u.slots.get(slot, ()):
            if a[0] == 'ev':
                self.J.append(['piece', u.tag, a[1]])
            else:
                raise self.raise_obj[a[1][1]]

    def inner(self, u, ok, exc):
        return _Inner(self, u, ok, exc)

    def sleep0(self):
        import asyncio
        return asyncio.sleep(0)


NORMAL, LEFT = 'normal', 'left'


def ex_sync(env, p):
    """interpreter: the control flow below is real Python control flow through real `with` statements"""
    if p[0] == 'body':
        env.J.append(['body', p[1]])
        b = p[2]
        if b[0] == 'raises':
            raise env.raise_obj[b[1][1]]
        return LEFT + ':' + b[1] if b[0] == 'early' else NORMAL
    if p[0] == 'seq':
        r = ex_sync(env, p[1])
        if r != NORMAL:
            return r
        return ex_sync(env, p[2])
    cm, pos, kw = env.prepare(p[1], p[2])
    r = None
    for _ in (0,):
        with cm(*pos, **kw) as v:
            env.J.append(['bind', p[1]['tag'], VAL0 + p[1]['tag'] if v is env.val(p[1]['tag']) else 0])
            r = ex_sync(env, p[3])
            if r == LEFT + ':ret':
                return r                 # a real `return` out of the with block
            if r == LEFT + ':brk':
                break                    # a real `break` out of the with block
    return NORMAL if r is None else r    # r is None: the block raised and the manager swallowed the exception


async def ex_async(env, p):
    """same, but an exception travels between interpreter frames as a value `('exc', e)` and is re-raised (same object) inside the
    enclosing `async with` block: a StopIteration cannot cross a coroutine frame boundary unchanged, and the `async with` under
    test must see the object itself"""
    if p[0] == 'body':
        env.J.append(['body', p[1]])
        b = p[2]
        if b[0] == 'raises':
            return ('exc', env.raise_obj[b[1][1]])
        return LEFT + ':' + b[1] if b[0] == 'early' else NORMAL
    if p[0] == 'seq':
        r = await ex_async(env, p[1])
        if r != NORMAL:
            return r
        return await ex_async(env, p[2])
    r = None
    try:
        cm, pos, kw = env.prepare(p[1], p[2])
        for _ in (0,):
            async with cm(*pos, **kw) as v:
                env.J.append(['bind', p[1]['tag'], VAL0 + p[1]['tag'] if v is env.val(p[1]['tag']) else 0])
                r = await ex_async(env, p[3])
                if isinstance(r, tuple):
                    e, r = r[1], None
                    raise e
                if r == LEFT + ':ret':
                    return r
                if r == LEFT + ':brk':
                    break
    except RuntimeError as e:
        if 'harness label' in str(e) or 'no use of the harness' in str(e):
            raise
        return ('exc', e)
    except BaseException as e:
        import asyncio
        if isinstance(e, asyncio.CancelledError) and asyncio.current_task().cancelling():
            asyncio.current_task().uncancel()        # a real cancellation (CANCEL_REAL) has been delivered and is now an outcome like any other
        return ('exc', e)
    return NORMAL if r is None else r    # r is None: the block raised and the manager swallowed the exception


def finish(env, r, exc):
    if exc is not None:
        fin = env.canon(exc)
    else:
        fin = [NORMAL] if r == NORMAL else [LEFT]
    env.closed = True
    return {'journal': list(env.J), 'final': fin}


def run_prog_sync(c, classes, deco):
    env = Env(c, classes, deco)
    try:
        r = ex_sync(env, c['prog'])
    except RuntimeError as e:
        if 'harness label' in str(e) or 'no use of the harness' in str(e):
            raise
        return finish(env, None, e)
    except BaseException as e:
        return finish(env, None, e)
    return finish(env, r, None)


async def run_prog_async(c, classes, deco):
    env = Env(c, classes, deco)
    r = await ex_async(env, c['prog'])
    if isinstance(r, tuple):
        return finish(env, None, r[1])
    return finish(env, r, None)


# ---- histories: every use runs in a task of its own that sits inside a real `with` / `async with` until the history lets its block end

def block_end(env, fin):
    """what the block of a use does when the history lets it end: ('raise', obj) | 'ret' | 'brk' | 'normal'"""
    if fin[0] == 'raises':
        return ('raise', env.raise_obj[fin[1][1]])
    return fin[1] if fin[0] == 'early' else NORMAL


def out_of(env, r):
    if isinstance(r, tuple):
        return env.canon(r[1])
    return [NORMAL] if r == NORMAL else [LEFT]


def use_task_sync(env, g, a, box):
    """a generator: first step = enter the manager and stop inside the block; second step = let the block end as `box['fin']` says"""
    r = None
    try:
        cm, pos, kw = env.prepare(g, a)
        for _ in (0,):
            with cm(*pos, **kw) as v:
                env.J.append(['bind', g['tag'], VAL0 + g['tag'] if v is env.val(g['tag']) else 0])
                box['inside'] = True
                yield 'inside'
                box['inside'] = False
                b = block_end(env, box['fin'])
                if isinstance(b, tuple):
                    raise b[1]
                if b == 'ret':
                    return LEFT
                if b == 'brk':
                    r = LEFT
                    break
                r = NORMAL
    except RuntimeError as e:
        if 'harness label' in str(e) or 'no use of the harness' in str(e):
            raise
        return ('exc', e)
    except BaseException as e:
        return ('exc', e)
    return NORMAL if r is None else r


def run_hist_sync(c, classes, deco):
    env = Env(c, classes, deco)
    tasks, boxes, outs = [], [], []
    for op in c['ops']:
        mark = len(env.J)
        if op[0] == 'enter':
            box = {'inside': False}
            t = use_task_sync(env, op[1], op[2], box)
            tasks.append(t); boxes.append(box)
            try:
                next(t)
                out = ['entered', env.J[-1][2]] if env.J[mark:] and env.J[-1][0] == 'bind' else ['entered', -1]
            except StopIteration as stop:
                out = out_of(env, stop.value)
        else:
            i = op[1]
            if i >= len(tasks) or not boxes[i]['inside']:
                out = ['ignored']
            else:
                boxes[i]['fin'] = op[2]
                try:
                    next(tasks[i])
                    out = ['still-inside']
                except StopIteration as stop:
                    out = out_of(env, stop.value)
        outs.append({'evs': env.J[mark:], 'out': out})
    env.closed = True
    for t in tasks:
        t.close()
    return {'ops': outs}


async def use_task_async(env, g, a, box):
    r = None
    try:
        try:
            cm, pos, kw = env.prepare(g, a)
            for _ in (0,):
                async with cm(*pos, **kw) as v:
                    env.J.append(['bind', g['tag'], VAL0 + g['tag'] if v is env.val(g['tag']) else 0])
                    box['vid'] = env.J[-1][2]
                    box['inside'] = True
                    box['reached'].set()
                    await box['go'].wait()
                    box['inside'] = False
                    b = block_end(env, box['fin'])
                    if isinstance(b, tuple):
                        raise b[1]
                    if b == 'ret':
                        return LEFT
                    if b == 'brk':
                        r = LEFT
                        break
                    r = NORMAL
        except RuntimeError as e:
            if 'harness label' in str(e) or 'no use of the harness' in str(e):
                box['internal'] = e
            return ('exc', e)
        except BaseException as e:
            return ('exc', e)
        return NORMAL if r is None else r
    finally:
        box['inside'] = False
        box['reached'].set()


async def run_hist_async(c, classes, deco):
    """every use is an asyncio task; the driver lets exactly one task run at a time (all others wait for their own event), so the
    interleaving is the one the history names"""
    import asyncio
    env = Env(c, classes, deco)
    tasks, boxes, outs = [], [], []
    for op in c['ops']:
        mark = len(env.J)
        if op[0] == 'enter':
            box = {'inside': False, 'reached': asyncio.Event(), 'go': asyncio.Event()}
            t = asyncio.ensure_future(use_task_async(env, op[1], op[2], box))
            tasks.append(t); boxes.append(box)
            await box['reached'].wait()
            if box['inside']:
                out = ['entered', box['vid']]
            else:
                out = out_of(env, await t)
        else:
            i = op[1]
            if i >= len(tasks) or not boxes[i]['inside']:
                out = ['ignored']
            else:
                boxes[i]['fin'] = op[2]
                boxes[i]['go'].set()
                out = out_of(env, await tasks[i])
        for b in boxes:
            if 'internal' in b:
                raise b['internal']
        outs.append({'evs': env.J[mark:], 'out': out})
    env.closed = True
    for t, b in zip(tasks, boxes):       # never reached by generated histories: uses that are still inside their block
        if not t.done():
            b['fin'] = ['normal']
            b['go'].set()
            await t
    return {'ops': outs}


def fn_variant(label):
    import functools

    def gen_def():
        yield 1

    def gen_args(a, b=2):
        yield a

    async def agen_def():
        yield 1

    def plain_def():
        return 1

    def plain_returns_gen():
        return gen_def()

    async def coro_def():
        return 1

    class Holder:
        def gen_method(self):
            yield 1

        async def agen_method(self):
            yield 1

        def plain_method(self):
            return 1

        async def coro_method(self):
            return 1

    class CallPlain:
        def __call__(self):
            return 1

    class CallGen:
        def __call__(self):
            yield 1
    h = Holder()
    table = {
        'gen_def': gen_def, 'gen_args': gen_args, 'gen_lambda': (lambda: (yield 1)), 'gen_partial': functools.partial(gen_args, 1),
        'gen_method': h.gen_method, 'agen_def': agen_def, 'agen_partial': functools.partial(agen_def), 'agen_method': h.agen_method,
        'plain_def': plain_def, 'plain_lambda': (lambda: 1), 'plain_builtin': len, 'plain_class': int,
        'plain_partial': functools.partial(plain_def), 'plain_instance': CallPlain(), 'plain_method': h.plain_method,
        'plain_returns_gen': plain_returns_gen, 'instance_gen_call': CallGen(),
        'coro_def': coro_def, 'coro_partial': functools.partial(coro_def), 'coro_method': h.coro_method,
    }
    return table[label]


def wrapped_variant(label):
    """callables that carry `__wrapped__` (functools.wraps / update_wrapper): the kind of the object and the kind of what it wraps"""
    import functools
    form, *rest = label.split(':')

    def of_kind(kind, name):
        ns = {}
        src = {'generator': 'def {n}(*a, **k):\n    yield 1\n', 'asyncGenerator': 'async def {n}(*a, **k):\n    yield 1\n',
               'plain': 'def {n}(*a, **k):\n    return [1]\n', 'coroutine': 'async def {n}(*a, **k):\n    return [1]\n'}[kind]
        exec(src.format(n=name), ns)
        return ns[name]

    class CallPlain:
        def __call__(self, *a, **k):
            return [1]
    if form in ('wrap', 'wrap2'):
        inner = of_kind(rest[1], 'inner_fn')
        if form == 'wrap2':          # two wraps-based layers of the outer kind on top of each other
            inner = functools.wraps(inner)(of_kind(rest[0], 'middle_fn'))
        return functools.wraps(inner)(of_kind(rest[0], 'outer_fn'))
    if form == 'partial_wrapped':
        return functools.update_wrapper(functools.partial(of_kind('plain', 'p_fn')), of_kind(rest[0], 'inner_fn'))
    if form == 'gen_partial_wrapped':
        return functools.update_wrapper(functools.partial(of_kind('generator', 'g_fn')), of_kind(rest[0], 'inner_fn'))
    if form == 'instance_wrapped':
        return functools.update_wrapper(CallPlain(), of_kind(rest[0], 'inner_fn'))
    if form == 'attr_only':          # only the attribute, set by hand
        f = of_kind('plain', 'outer_fn')
        f.__wrapped__ = of_kind(rest[0], 'inner_fn')
        return f
    raise ValueError(label)


def inspect_kind(f):
    import inspect
    return ('asyncGenerator' if inspect.isasyncgenfunction(f) else 'generator' if inspect.isgeneratorfunction(f)
            else 'coroutine' if inspect.iscoroutinefunction(f) else 'plain')


def run_deco(c, decos):
    import contextlib, inspect, warnings
    f = wrapped_variant(c['variant']) if ':' in c['variant'] else fn_variant(c['variant'])
    # the harness labels must agree with inspect (the trusted classifier)
    kind = inspect_kind(f)
    if kind != c['fn'] or hasattr(f, '__name__') != c['hasName']:
        raise RuntimeError(f'harness label of {c["variant"]} disagrees with inspect: {kind}')
    if 'unwrapped' in c and inspect_kind(inspect.unwrap(f)) != c['unwrapped']:
        raise RuntimeError(f'harness label of {c["variant"]} disagrees with inspect.unwrap: {inspect_kind(inspect.unwrap(f))}')
    try:
        cm = decos[c['mode']](f)
    except BaseException as e:
        return {'deco': ['rejected', type(e).__name__]}
    via = 'other'
    try:
        with warnings.catch_warnings():
            warnings.simplefilter('ignore')
            inst = cm(1) if c['variant'] == 'gen_args' else cm()
        if type(inst) is contextlib._GeneratorContextManager:
            via = 'contextmanager'
        elif type(inst) is contextlib._AsyncGeneratorContextManager:
            via = 'asynccontextmanager'
        g = getattr(inst, 'gen', None)
        if g is not None and hasattr(g, 'close'):
            g.close()
    except BaseException:
        via = 'other'
    return {'deco': ['manager', via]}


CHILD_BOOT = ('import sys; sys.path.insert(0, sys.argv[1]); import importlib; '
              'sys.exit(importlib.import_module("props.C16").child_main())')


def child_main():
    """runs in a fresh interpreter (started with -O / -OO / PYTHONOPTIMIZE=1): cases on stdin, outcomes on stdout"""
    import sys, json
    try:        # report the library lines this process executes to the check that started it (core.LineCoverage)
        import core
        lc = core.linecov_child()
    except Exception:
        lc = None
    cases = json.load(sys.stdin)
    out = run_local(cases)
    if lc is not None:
        lc.stop()
    json.dump({'optimize': sys.flags.optimize, 'out': out}, sys.stdout)
    return 0


def run_child(opt, cases):
    import subprocess, sys, os
    env = dict(os.environ)
    env.pop('PYTHONOPTIMIZE', None)
    if opt == 3:
        env['PYTHONOPTIMIZE'] = '1'
    harness = os.path.dirname(os.path.dirname(os.path.abspath(__file__)))
    p = subprocess.run([sys.executable, '-B'] + {1: ['-O'], 2: ['-OO'], 3: []}[opt] + ['-c', CHILD_BOOT, harness],
                       input=json.dumps([{'c': c['c']} for c in cases]), capture_output=True, text=True, env=env, timeout=600)
    if p.returncode != 0:
        raise RuntimeError(f'child interpreter ({OPT_MODES[opt]}) failed: {p.stderr[-1500:]}')
    r = json.loads(p.stdout)
    if r['optimize'] != {1: 1, 2: 2, 3: 1}[opt] or len(r['out']) != len(cases):
        raise RuntimeError(f'child interpreter ({OPT_MODES[opt]}) ran with sys.flags.optimize={r["optimize"]}, answered {len(r["out"])}/{len(cases)} cases')
    return r['out']


def run_impl(cases):
    """cases with c['opt'] in 1..3 run in child interpreters in optimised mode (started first, collected last), the others here"""
    from concurrent.futures import ThreadPoolExecutor
    groups = {}
    for i, case in enumerate(cases):
        groups.setdefault(int(case['c'].get('opt') or 0), []).append(i)
    out = [None] * len(cases)
    kids = sorted(k for k in groups if k)
    with ThreadPoolExecutor(max_workers=max(1, len(kids))) as ex:
        futs = {k: ex.submit(run_child, k, [cases[i] for i in groups[k]]) for k in kids}
        here = groups.get(0, [])
        for i, r in zip(here, run_local([cases[i] for i in here])):
            out[i] = r
        for k in kids:
            for i, r in zip(groups[k], futs[k].result()):
                out[i] = r
    return out


def run_local(cases):
    import asyncio, warnings
    import pedantic.decorators.fn_deco_context_manager as M
    classes = _classes()
    decos = {'sync': M.safe_contextmanager, 'async': M.safe_async_contextmanager}
    out = [None] * len(cases)
    async_idx = []
    for i, case in enumerate(cases):
        c = case['c']
        if c['kind'] == 'deco':
            out[i] = run_deco(c, decos)
        elif c['mode'] == 'sync':
            out[i] = (run_hist_sync if c['kind'] == 'hist' else run_prog_sync)(c, classes, decos['sync'])
        else:
            async_idx.append(i)

    async def main():
        for i in async_idx:
            c = cases[i]['c']
            out[i] = await (run_hist_async if c['kind'] == 'hist' else run_prog_async)(c, classes, decos['async'])
    if async_idx:
        with warnings.catch_warnings():
            warnings.simplefilter('ignore')
            asyncio.run(main())
    return out


# ------------------------------------------------------------------------------------------------ verdict

def canon_final(f):
    f = list(f)
    if f[0] == 'raised':
        f[2] = 'rt' if f[2] >= CONV else f[2]
        f[3] = None if f[3] is None else ('rt' if f[3] >= CONV else f[3])
    return f


def canon_model(o):
    if o is None:
        return None
    return {'journal': o['journal'], 'final': canon_final(o['final'])}


def canon_ops(o):
    if o is None:
        return None
    return [{'evs': r['evs'], 'out': canon_final(r['out'])} for r in o]


def judge_hist(case, impl, model):
    """a history over one manager: compared operation by operation"""
    x = case.get('x', {})
    tag = x.get('tag', 'hist')
    m, s, got = canon_ops(model['model']), canon_ops(model['spec']), impl['ops']
    corr = got == m
    why = ''
    if not corr:
        k = next((i for i, (a, b) in enumerate(zip(got, m)) if a != b), min(len(got), len(m)))
        why = f'operation {k} ({case["c"]["ops"][k][0] if k < len(case["c"]["ops"]) else "?"}): impl {json.dumps(got[k] if k < len(got) else None)} vs model {json.dumps(m[k] if k < len(m) else None)}'
    pfail = finding = None
    if s is not None:
        for k, (a, b) in enumerate(zip(got, s)):
            op = case['c']['ops'][k]
            what = f"enter of use {sum(1 for o in case['c']['ops'][:k] if o[0] == 'enter')}" if op[0] == 'enter' else f'exit of use {op[1]}'
            if a['evs'] != b['evs']:
                pfail = (f"operation {k} ({what}): journal {a['evs']} differs from the try/finally semantics of that use {b['evs']} "
                         f"(each use of a manager runs its own setup / cleanup exactly once, whatever other live uses of the same manager do)")
            elif a['out'] != b['out']:
                pfail = f"operation {k} ({what}): the caller saw {a['out']} instead of {b['out']}"
                if not model['quirkFree'] and corr and a['out'][0] == 'raised' and a['out'][1] in ('stopIteration', 'stopAsyncIteration'):
                    finding = FINDING_QUIRK
            if pfail:
                break
    return {'corr': corr, 'pfail': pfail, 'finding': finding, 'nontrivial': True, 'tag': tag, 'why': why}


def judge(case, impl, model):
    c, x = case['c'], case.get('x', {})
    tag = x.get('tag', c['kind'])
    if c['kind'] == 'deco':
        m, s = model['model'], model['spec']
        corr = impl['deco'] == m
        pfail = None
        if s['mustAccept']:
            if impl['deco'][0] != 'manager':
                pfail = f"decorating a {c['fn']} function ({c['variant']}) with the {c['mode']} decorator was rejected with {impl['deco'][1]}"
        elif impl['deco'][0] != 'rejected':
            pfail = (f"decorating a {c['fn']} function ({c['variant']}) with the {c['mode']} decorator was not rejected at decoration time"
                     + (f" (interpreter started as {OPT_MODES[c['opt']]})" if c.get('opt') else ''))
        return {'corr': corr, 'pfail': pfail, 'nontrivial': True, 'tag': tag, 'why': '' if corr else f'decoration outcome {impl["deco"]} vs model {m}'}
    if c['kind'] == 'hist':
        return judge_hist(case, impl, model)
    m = canon_model(model['model'])
    s = canon_model(model['spec'])
    got = {'journal': impl['journal'], 'final': impl['final']}
    corr = got == m
    pfail = None
    finding = None
    if s is not None:                                   # documented form: the property makes a claim
        if got['journal'] != s['journal']:
            pfail = f"journal {got['journal']} differs from try/finally semantics {s['journal']} (cleanup exactly once, after the body; as = yielded value; arguments forwarded)"
        elif got['final'] != s['final']:
            pfail = f"the caller saw {got['final']} instead of {s['final']}"
        if pfail and not model['quirkFree'] and corr and got['journal'] == s['journal'] \
                and got['final'][0] == 'raised' and got['final'][1] in ('stopIteration', 'stopAsyncIteration'):
            finding = FINDING_QUIRK
    if not model['quirkFree'] and s is not None:
        tag = tag.replace('quirk?', 'quirk')
    else:
        tag = tag.replace('quirk?', 'chained-noquirk')
    return {'corr': corr, 'pfail': pfail, 'finding': finding, 'nontrivial': not x.get('trivial', False), 'tag': tag,
            'why': '' if corr else f'impl {json.dumps(got)} vs model {json.dumps(m)}'}


def extra_coverage(results):
    br = {}
    for (c, i, m, j) in results:
        k = j['tag'].split('/')[-1]
        br[k] = br.get(k, 0) + 1
    return {'branches': br, 'claimed_cases': sum(1 for (c, i, m, j) in results if c['c']['kind'] == 'deco' or m.get('spec') is not None)}
