"""C16 — safe_contextmanager / safe_async_contextmanager: exhaustive correspondence between the real decorators (driven through real
`with` / `async with` statements, asyncio for the async variant) and the Lean model + try/finally spec."""
import itertools, json

RULE = ('exhaustive in both tiers: setup outcome (ok + 7 exception kinds incl. a StopIteration raised by user code) x yields reached '
        '{0,1,2} x cleanup outcome (ok + 7 kinds + "the body\'s own exception object" + "RuntimeError chained to the body\'s exception") '
        'x body outcome (normal, return, break, 7 exception kinds: Exception, BaseException subclass, GeneratorExit, StopIteration, '
        'StopAsyncIteration, RuntimeError, CancelledError) x {sync, async} x {single, nested x2 (enumerated manager inside / outside, '
        'outer cleanup ok / failing), repeated x2 (enumerated manager first / second)}; decoration: every function kind (generator, '
        'async generator, plain, coroutine; def/lambda/partial/method/builtin/class/callable instance) x both decorators; plus seeded '
        'random programs of depth <= 4 and length <= 4.  Concrete exception classes per kind, return-vs-break and real event-loop '
        'suspension in setup/cleanup are drawn from the rng.  non-trivial = something raised or left early')
EXHAUSTIVE = {'quick': True, 'thorough': True}
ASSUMPTIONS = ['async variant: every await is an atomic step of the model; what other tasks do between two awaits (event-loop interleaving) is not modelled',
               'the user generator is scripted: setup; yield v; cleanup; [yield v; extra]* with a chosen outcome per section',
               'claims (P_X) only for generators in the documented one-yield form; zero-/multi-yield generators are modelled and compared only']
TRUSTED = ['CPython 3.12 contextlib._GeneratorContextManager / _AsyncGeneratorContextManager, PEP 479 and the with statement are transcribed in '
           'Model/CtxMgr.lean and exercised exhaustively against the interpreter, not verified',
           'inspect.isgeneratorfunction / isasyncgenfunction classify the function kinds; the harness labels each test function with the same predicates']

FINDING_QUIRK = 'C16-cleanup-runtimeerror-chained-to-body-stop'

KINDS = ['exception', 'baseExc', 'generatorExit', 'stopIteration', 'stopAsyncIteration', 'runtimeError', 'cancelled']
KIND_CLASSES = {
    'exception': ['ValueError', 'KeyError', 'MyExc', 'AssertionError', 'OSError'],
    'baseExc': ['MyBase', 'KeyboardInterrupt', 'SystemExit'],
    'generatorExit': ['GeneratorExit'],
    'stopIteration': ['StopIteration', 'MyStop'],
    'stopAsyncIteration': ['StopAsyncIteration'],
    'runtimeError': ['RuntimeError', 'NotImplementedError', 'RecursionError'],
    'cancelled': ['CancelledError'],
}
VAL0 = 40           # value object of manager `tag` has id VAL0 + tag
ARGS = 5            # id of the caller's argument objects
CONV = 500          # ids >= CONV: objects created by the interpreter (PEP 479 RuntimeError for a user-level Stop*Iteration: CONV + its id)


def converted(mode, kind):
    return kind == 'stopIteration' or (mode == 'async' and kind == 'stopAsyncIteration')


def mk_exc(rng, kind, oid, cause=None):
    return [kind, oid, cause, rng.choice(KIND_CLASSES[kind])]


def gen_exc(rng, mode, kind, oid):
    """exception leaving the *user generator*: user code raising Stop(Async)Iteration surfaces as a RuntimeError chained to it"""
    if kind is None:
        return None
    if converted(mode, kind):
        return ['runtimeError', CONV + oid, oid, 'user:' + rng.choice(KIND_CLASSES[kind])]
    return mk_exc(rng, kind, oid)


def mk_gen(rng, mode, tag, setup, yields, cleanup, base):
    """cleanup: None | kind | ('same', E) | ('chained', E)"""
    g = {'tag': tag, 'yields': yields, 'value': VAL0 + tag, 'suspend': rng.random() < 0.5,
         'setup': gen_exc(rng, mode, setup, base + 1)}
    if isinstance(cleanup, tuple):
        how, be = cleanup
        g['cleanup'] = list(be) if how == 'same' else ['runtimeError', base + 2, be[1], rng.choice(KIND_CLASSES['runtimeError'])]
    else:
        g['cleanup'] = gen_exc(rng, mode, cleanup, base + 2)
    return g


def ok_gen(rng, mode, tag, cleanup=None, base=0):
    return mk_gen(rng, mode, tag, None, 1, cleanup, base)


def leaf(rng, n, body, oid):
    if body == 'normal':
        return ['body', n, ['normal']], None
    if body in ('ret', 'brk'):
        return ['body', n, ['early', body]], None
    e = mk_exc(rng, body, oid)
    return ['body', n, ['raises', e]], e


BODIES = ['normal', 'ret', 'brk'] + KINDS
SETUPS = [None] + KINDS
CLEANUPS = [None] + KINDS + ['same', 'chained']
STRUCTS = ['single', 'nest-in', 'nest-in-outerfails', 'nest-out', 'rep-first', 'rep-second']


def build(rng, mode, struct, setup, yields, cleanup, body):
    lf, be = leaf(rng, 0, body, 7)
    if cleanup in ('same', 'chained'):
        if be is None:
            return None
        cleanup = (cleanup, be)
    g = mk_gen(rng, mode, 1, setup, yields, cleanup, 10)
    if struct == 'single':
        p = ['with', g, ARGS, lf]
    elif struct == 'nest-in':
        p = ['with', ok_gen(rng, mode, 2), ARGS, ['with', g, ARGS, lf]]
    elif struct == 'nest-in-outerfails':
        p = ['with', ok_gen(rng, mode, 2, 'baseExc', 20), ARGS, ['with', g, ARGS, lf]]
    elif struct == 'nest-out':
        p = ['with', g, ARGS, ['with', ok_gen(rng, mode, 2), ARGS, lf]]
    elif struct == 'rep-first':
        p = ['seq', ['with', g, ARGS, lf], ['with', ok_gen(rng, mode, 2), ARGS, ['body', 1, ['normal']]]]
    else:
        p = ['seq', ['with', ok_gen(rng, mode, 2), ARGS, ['body', 1, ['normal']]], ['with', g, ARGS, lf]]
    branch = ('setupfail' if setup else 'y0' if yields == 0 else 'y2' if yields == 2 else
              ('quirk?' if isinstance(cleanup, tuple) and cleanup[0] == 'chained' else 'same' if isinstance(cleanup, tuple) else
               ('both' if cleanup and body in KINDS else 'cleanupexc' if cleanup else
                'early' if body in ('ret', 'brk') else 'bodyexc' if body in KINDS else 'allok')))
    return {'m': 'ctxmgr', 'c': {'kind': 'prog', 'mode': mode, 'prog': p},
            'x': {'tag': f'{mode}/{struct}/{branch}', 'trivial': branch == 'allok'}}


def rand_prog(rng, mode, depth, counter):
    """random program; ids are unique per program"""
    def fresh():
        counter[0] += 1
        return counter[0]
    r = rng.random()
    if depth == 0 or r < 0.25:
        n = fresh()
        body = rng.choice(['normal'] * 4 + ['ret', 'brk'] + KINDS)
        return leaf(rng, n, body, 100 + n)[0]
    if r < 0.45:
        return ['seq', rand_prog(rng, mode, depth - 1, counter), rand_prog(rng, mode, depth - 1, counter)]
    t = fresh()
    g = mk_gen(rng, mode, t, rng.choice([None] * 8 + KINDS), rng.choice([1] * 10 + [0, 2]),
               rng.choice([None] * 5 + KINDS), 200 + 3 * t)
    return ['with', g, ARGS, rand_prog(rng, mode, depth - 1, counter)]


FN_VARIANTS = [  # (label, inspect kind, has __name__)
    ('gen_def', 'generator', True), ('gen_args', 'generator', True), ('gen_lambda', 'generator', True), ('gen_partial', 'generator', False),
    ('gen_method', 'generator', True),
    ('agen_def', 'asyncGenerator', True), ('agen_partial', 'asyncGenerator', False), ('agen_method', 'asyncGenerator', True),
    ('plain_def', 'plain', True), ('plain_lambda', 'plain', True), ('plain_builtin', 'plain', True), ('plain_class', 'plain', True),
    ('plain_partial', 'plain', False), ('plain_instance', 'plain', False), ('plain_method', 'plain', True),
    ('plain_returns_gen', 'plain', True), ('instance_gen_call', 'plain', False),
    ('coro_def', 'coroutine', True), ('coro_partial', 'coroutine', False), ('coro_method', 'coroutine', True),
]


def deco_cases():
    out = []
    for mode in ('sync', 'async'):
        for label, kind, has_name in FN_VARIANTS:
            out.append({'m': 'ctxmgr', 'c': {'kind': 'deco', 'mode': mode, 'fn': kind, 'hasName': has_name, 'variant': label},
                        'x': {'tag': f'{mode}/deco/{kind}', 'trivial': False}})
    return out


def cases(rng, tier):
    out = deco_cases()
    for mode in ('sync', 'async'):
        for struct in STRUCTS:
            for setup, yields, cleanup, body in itertools.product(SETUPS, (0, 1, 2), CLEANUPS, BODIES):
                c = build(rng, mode, struct, setup, yields, cleanup, body)
                if c is not None:
                    out.append(c)
    if tier == 'thorough':
        # nested, both managers enumerated: outer over everything, inner over every cleanup outcome
        for mode in ('sync', 'async'):
            for setup, yields, cleanup, icleanup, body in itertools.product(SETUPS, (0, 1, 2), [None] + KINDS, [None] + KINDS, BODIES):
                lf, _ = leaf(rng, 0, body, 7)
                p = ['with', mk_gen(rng, mode, 1, setup, yields, cleanup, 10), ARGS, ['with', ok_gen(rng, mode, 2, icleanup, 20), ARGS, lf]]
                out.append({'m': 'ctxmgr', 'c': {'kind': 'prog', 'mode': mode, 'prog': p}, 'x': {'tag': f'{mode}/nest-square', 'trivial': False}})
    for _ in range(1500 if tier == 'quick' else 30000):
        mode = rng.choice(['sync', 'async'])
        p = rand_prog(rng, mode, rng.randint(1, 4), [0])
        out.append({'m': 'ctxmgr', 'c': {'kind': 'prog', 'mode': mode, 'prog': p}, 'x': {'tag': f'{mode}/random', 'trivial': False}})
    return out


def search(rng, tier, near):
    out = []
    for _ in range(6000):
        mode = rng.choice(['sync', 'async'])
        out.append({'m': 'ctxmgr', 'c': {'kind': 'prog', 'mode': mode, 'prog': rand_prog(rng, mode, rng.randint(1, 3), [0])},
                    'x': {'tag': f'{mode}/search', 'trivial': False}})
    return out


# ------------------------------------------------------------------------------------------------ implementation side

def _classes():
    import asyncio

    class MyExc(Exception): pass
    class MyBase(BaseException): pass
    class MyStop(StopIteration): pass
    d = {c.__name__: c for c in (ValueError, KeyError, AssertionError, OSError, KeyboardInterrupt, SystemExit, GeneratorExit, StopIteration,
                                 StopAsyncIteration, RuntimeError, NotImplementedError, RecursionError)}
    d.update(MyExc=MyExc, MyBase=MyBase, MyStop=MyStop, CancelledError=asyncio.CancelledError)
    return d


def kind_of(e):
    import asyncio
    if isinstance(e, StopIteration): return 'stopIteration'
    if isinstance(e, StopAsyncIteration): return 'stopAsyncIteration'
    if isinstance(e, RuntimeError): return 'runtimeError'
    if isinstance(e, asyncio.CancelledError): return 'cancelled'
    if isinstance(e, GeneratorExit): return 'generatorExit'
    if isinstance(e, Exception): return 'exception'
    return 'baseExc'


class Env:
    """one program run: object registry (id <-> object), journal"""

    def __init__(self, prog, classes):
        self.J = []
        self.objs = {}
        self.raise_obj = {}      # spec id -> object the user code raises (differs from objs for user-level Stop*Iteration)
        self.A = object()
        self.K = object()
        self.vals = {}
        specs = []
        self._collect(prog, specs)
        for e in sorted(specs, key=lambda e: (e[2] is not None, e[1])):
            kind, oid, cause, cls = e
            if cls.startswith('user:'):
                if cause not in self.objs:
                    self.objs[cause] = classes[cls[5:]]()
                self.raise_obj[oid] = self.objs[cause]
            else:
                if oid not in self.objs:
                    self.objs[oid] = classes[cls]()
                    if cause is not None:
                        self.objs[oid].__cause__ = self.objs.get(cause)
                self.raise_obj[oid] = self.objs[oid]
        self.ids = [(o, i) for i, o in self.objs.items()]

    def _collect(self, p, specs):
        if p[0] == 'with':
            for k in ('setup', 'cleanup'):
                if p[1][k] is not None:
                    specs.append(p[1][k])
            self._collect(p[3], specs)
        elif p[0] == 'seq':
            self._collect(p[1], specs); self._collect(p[2], specs)
        elif p[2][0] == 'raises':
            specs.append(p[2][1])

    def vid(self, o):
        for obj, i in self.ids:
            if obj is o:
                return i
        return 'rt'

    def canon(self, e):
        c = e.__cause__
        return ['raised', kind_of(e), self.vid(e), None if c is None else self.vid(c)]

    def val(self, tag):
        return self.vals.setdefault(tag, object())


NORMAL, LEFT = 'normal', 'left'


def make_sync(env, g, deco):
    tag, se, ce, n = g['tag'], g['setup'], g['cleanup'], g['yields']
    v = env.val(tag)

    def user_gen(a, k=None):
        env.J.append(['setup', tag, ARGS if (a is env.A and k is env.K) else 0])
        if se is not None:
            raise env.raise_obj[se[1]]
        for i in range(n):
            yield v
            env.J.append(['cleanup', tag] if i == 0 else ['extra', tag])
            if i == 0 and ce is not None:
                raise env.raise_obj[ce[1]]
    return deco(user_gen)


def make_async(env, g, deco):
    import asyncio
    tag, se, ce, n, susp = g['tag'], g['setup'], g['cleanup'], g['yields'], g.get('suspend')
    v = env.val(tag)

    async def user_gen(a, k=None):
        if susp:
            await asyncio.sleep(0)
        env.J.append(['setup', tag, ARGS if (a is env.A and k is env.K) else 0])
        if se is not None:
            raise env.raise_obj[se[1]]
        for i in range(n):
            yield v
            if susp:
                await asyncio.sleep(0)
            env.J.append(['cleanup', tag] if i == 0 else ['extra', tag])
            if i == 0 and ce is not None:
                raise env.raise_obj[ce[1]]
    return deco(user_gen)


def ex_sync(env, p, deco):
    """interpreter: the control flow below is real Python control flow through real `with` statements"""
    if p[0] == 'body':
        env.J.append(['body', p[1]])
        b = p[2]
        if b[0] == 'raises':
            raise env.raise_obj[b[1][1]]
        return LEFT + ':' + b[1] if b[0] == 'early' else NORMAL
    if p[0] == 'seq':
        r = ex_sync(env, p[1], deco)
        if r != NORMAL:
            return r
        return ex_sync(env, p[2], deco)
    cm = make_sync(env, p[1], deco)
    r = None
    for _ in (0,):
        with cm(env.A, k=env.K) as v:
            env.J.append(['bind', p[1]['tag'], VAL0 + p[1]['tag'] if v is env.val(p[1]['tag']) else -1])
            r = ex_sync(env, p[3], deco)
            if r == LEFT + ':ret':
                return r                 # a real `return` out of the with block
            if r == LEFT + ':brk':
                break                    # a real `break` out of the with block
    return NORMAL if r is None else r    # r is None: the block raised and the manager swallowed the exception


async def ex_async(env, p, deco):
    """same, but an exception travels between interpreter frames as a value `('exc', e)` and is re-raised (same object) inside the
    enclosing `async with` block: a StopIteration cannot cross a coroutine frame boundary unchanged, and the `async with` under
    test must see the object itself"""
    if p[0] == 'body':
        env.J.append(['body', p[1]])
        b = p[2]
        if b[0] == 'raises':
            return ('exc', env.raise_obj[b[1][1]])
        return LEFT + ':' + b[1] if b[0] == 'early' else NORMAL
    if p[0] == 'seq':
        r = await ex_async(env, p[1], deco)
        if r != NORMAL:
            return r
        return await ex_async(env, p[2], deco)
    cm = make_async(env, p[1], deco)
    r = None
    try:
        for _ in (0,):
            async with cm(env.A, k=env.K) as v:
                env.J.append(['bind', p[1]['tag'], VAL0 + p[1]['tag'] if v is env.val(p[1]['tag']) else -1])
                r = await ex_async(env, p[3], deco)
                if isinstance(r, tuple):
                    e, r = r[1], None
                    raise e
                if r == LEFT + ':ret':
                    return r
                if r == LEFT + ':brk':
                    break
    except BaseException as e:
        return ('exc', e)
    return NORMAL if r is None else r    # r is None: the block raised and the manager swallowed the exception


def finish(env, r, exc):
    if exc is not None:
        fin = env.canon(exc)
    else:
        fin = [NORMAL] if r == NORMAL else [LEFT]
    return {'journal': env.J, 'final': fin}


def run_prog_sync(c, classes, deco):
    env = Env(c['prog'], classes)
    try:
        r = ex_sync(env, c['prog'], deco)
    except BaseException as e:
        return finish(env, None, e)
    return finish(env, r, None)


async def run_prog_async(c, classes, deco):
    env = Env(c['prog'], classes)
    r = await ex_async(env, c['prog'], deco)
    if isinstance(r, tuple):
        return finish(env, None, r[1])
    return finish(env, r, None)


def fn_variant(label):
    import functools

    def gen_def():
        yield 1

    def gen_args(a, b=2):
        yield a

    async def agen_def():
        yield 1

    def plain_def():
        return 1

    def plain_returns_gen():
        return gen_def()

    async def coro_def():
        return 1

    class Holder:
        def gen_method(self):
            yield 1

        async def agen_method(self):
            yield 1

        def plain_method(self):
            return 1

        async def coro_method(self):
            return 1

    class CallPlain:
        def __call__(self):
            return 1

    class CallGen:
        def __call__(self):
            yield 1
    h = Holder()
    table = {
        'gen_def': gen_def, 'gen_args': gen_args, 'gen_lambda': (lambda: (yield 1)), 'gen_partial': functools.partial(gen_args, 1),
        'gen_method': h.gen_method, 'agen_def': agen_def, 'agen_partial': functools.partial(agen_def), 'agen_method': h.agen_method,
        'plain_def': plain_def, 'plain_lambda': (lambda: 1), 'plain_builtin': len, 'plain_class': int,
        'plain_partial': functools.partial(plain_def), 'plain_instance': CallPlain(), 'plain_method': h.plain_method,
        'plain_returns_gen': plain_returns_gen, 'instance_gen_call': CallGen(),
        'coro_def': coro_def, 'coro_partial': functools.partial(coro_def), 'coro_method': h.coro_method,
    }
    return table[label]


def run_deco(c, decos):
    import contextlib, inspect, warnings
    f = fn_variant(c['variant'])
    # the harness labels must agree with inspect (the trusted classifier)
    kind = ('asyncGenerator' if inspect.isasyncgenfunction(f) else 'generator' if inspect.isgeneratorfunction(f)
            else 'coroutine' if inspect.iscoroutinefunction(f) else 'plain')
    if kind != c['fn'] or hasattr(f, '__name__') != c['hasName']:
        raise RuntimeError(f'harness label of {c["variant"]} disagrees with inspect: {kind}')
    try:
        cm = decos[c['mode']](f)
    except BaseException as e:
        return {'deco': ['rejected', type(e).__name__]}
    via = 'other'
    try:
        with warnings.catch_warnings():
            warnings.simplefilter('ignore')
            inst = cm(1) if c['variant'] == 'gen_args' else cm()
        if type(inst) is contextlib._GeneratorContextManager:
            via = 'contextmanager'
        elif type(inst) is contextlib._AsyncGeneratorContextManager:
            via = 'asynccontextmanager'
        g = getattr(inst, 'gen', None)
        if g is not None and hasattr(g, 'close'):
            g.close()
    except BaseException:
        via = 'other'
    return {'deco': ['manager', via]}


def run_impl(cases):
    import asyncio, warnings
    import pedantic.decorators.fn_deco_context_manager as M
    classes = _classes()
    decos = {'sync': M.safe_contextmanager, 'async': M.safe_async_contextmanager}
    out = [None] * len(cases)
    async_idx = []
    for i, case in enumerate(cases):
        c = case['c']
        if c['kind'] == 'deco':
            out[i] = run_deco(c, decos)
        elif c['mode'] == 'sync':
            out[i] = run_prog_sync(c, classes, decos['sync'])
        else:
            async_idx.append(i)

    async def main():
        for i in async_idx:
            out[i] = await run_prog_async(cases[i]['c'], classes, decos['async'])
    if async_idx:
        with warnings.catch_warnings():
            warnings.simplefilter('ignore')
            asyncio.run(main())
    return out


# ------------------------------------------------------------------------------------------------ verdict

def canon_model(o):
    if o is None:
        return None
    f = list(o['final'])
    if f[0] == 'raised':
        f[2] = 'rt' if f[2] >= CONV else f[2]
        f[3] = None if f[3] is None else ('rt' if f[3] >= CONV else f[3])
    return {'journal': o['journal'], 'final': f}


def judge(case, impl, model):
    c, x = case['c'], case.get('x', {})
    tag = x.get('tag', c['kind'])
    if c['kind'] == 'deco':
        m, s = model['model'], model['spec']
        corr = impl['deco'] == m
        pfail = None
        if s['mustAccept']:
            if impl['deco'][0] != 'manager':
                pfail = f"decorating a {c['fn']} function ({c['variant']}) with the {c['mode']} decorator was rejected with {impl['deco'][1]}"
        elif impl['deco'][0] != 'rejected':
            pfail = f"decorating a {c['fn']} function ({c['variant']}) with the {c['mode']} decorator was not rejected at decoration time"
        return {'corr': corr, 'pfail': pfail, 'nontrivial': True, 'tag': tag, 'why': '' if corr else f'decoration outcome {impl["deco"]} vs model {m}'}
    m = canon_model(model['model'])
    s = canon_model(model['spec'])
    got = {'journal': impl['journal'], 'final': impl['final']}
    corr = got == m
    pfail = None
    finding = None
    if s is not None:                                   # documented form: the property makes a claim
        if got['journal'] != s['journal']:
            pfail = f"journal {got['journal']} differs from try/finally semantics {s['journal']} (cleanup exactly once, after the body; as = yielded value; arguments forwarded)"
        elif got['final'] != s['final']:
            pfail = f"the caller saw {got['final']} instead of {s['final']}"
        if pfail and not model['quirkFree'] and corr and got['journal'] == s['journal'] \
                and got['final'][0] == 'raised' and got['final'][1] in ('stopIteration', 'stopAsyncIteration'):
            finding = FINDING_QUIRK
    if not model['quirkFree'] and s is not None:
        tag = tag.replace('quirk?', 'quirk')
    else:
        tag = tag.replace('quirk?', 'chained-noquirk')
    return {'corr': corr, 'pfail': pfail, 'finding': finding, 'nontrivial': not x.get('trivial', False), 'tag': tag,
            'why': '' if corr else f'impl {json.dumps(got)} vs model {json.dumps(m)}'}


def extra_coverage(results):
    br = {}
    for (c, i, m, j) in results:
        k = j['tag'].split('/')[-1]
        br[k] = br.get(k, 0) + 1
    return {'branches': br, 'claimed_cases': sum(1 for (c, i, m, j) in results if c['c']['kind'] == 'deco' or m.get('spec') is not None)}
