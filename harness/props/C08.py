"""C08 — error containment at the checker level: whatever annotation object and value are given, assert_value_matches_type
returns or raises a PedanticException.  Two streams: the annotation/value zoo (objects outside the model vocabulary: the
model answers through the oracle, the theorem covers every oracle) and the generated vocabulary cases of C01."""
import json
import _checker_common as K
import _zoo
import _call_common as C
import _intro_common as T
import _call_reentrant as R
import C07 as TV

RULE = ('exhaustive product of the annotation zoo (every public name of typing and collections.abc, bare and subscripted with 1-3 arguments, '
        'PEP 585 aliases of all standard containers, user Generic / Protocol / TypedDict / Enum classes, TypeVars, ParamSpec, special forms, strings '
        '(identifier, expression, empty, non-ASCII, syntax error), non-types (5, (int, str), [int], ..., a module, a function)) x the value zoo '
        '(builtins, object(), classes, functions, coroutine functions, generators, iterators, NamedTuples, __slots__ / metaclass instances, '
        'callable objects, partials, modules); plus the seeded vocabulary cases of C01. non-trivial = zoo pair or generic annotation')
EXHAUSTIVE = {'quick': True, 'thorough': True}
ASSUMPTIONS = ['values whose own __eq__ / __repr__ / __str__ / __hash__ raise are excluded (the property says so)',
               'BaseException subclasses raised by user code (KeyboardInterrupt, SystemExit) are outside "checking failures"']
TRUSTED = ['for zoo annotations the model is the oracle-parametrised node `special k`: nothing about their behaviour is assumed except that _is_instance raises only Exception subclasses']

_ANN = None
_VAL = None
_FACTS = {}


def message_facts():
    """what the translator reads about the messages of check_types.py (the same facts Gen/CallLayerIR.lean states): do they put the user's
    values through `_describe`"""
    if not _FACTS:
        try:
            import core
            from gen import calllayer_ir
            _FACTS.update(calllayer_ir.message_facts(core.REPO))
        except Exception as e:
            _FACTS.update({'assertMsgSafe': True, 'handlerMsgSafe': True, 'error': repr(e)})
    return _FACTS


def zoo():
    global _ANN, _VAL
    if _ANN is None:
        _ANN = _zoo.annotations(); _VAL = _zoo.values()
    return _ANN, _VAL


def cases(rng, tier):
    anns, vals = zoo()
    out = []
    for i, (la, _) in enumerate(anns):
        for j, (lv, _) in enumerate(vals):
            out.append({'m': 'checker', 'c': {'env': K.env_json(), 'ann': ["special", i], 'val': ["inst", K.IDX[K.U]]},
                        'x': {'zoo': [i, j], 'labels': [la, lv]}})
    out += K.gen_checker_cases(rng, 4500 if tier == 'quick' else 100000)
    out += T.extra_cases(rng, tier)          # exits of the translated checker the generator meets rarely (ir tie)
    # wrapper level: generated programs, keyword calls that Python accepts for the undecorated twin
    n = 750 if tier == 'quick' else 8000
    out += C.build_cases(rng, n, calls_per=3, style='kw', tag='c08a')
    out += C.build_cases(rng, n // 3, calls_per=2, profile='incomplete', style='kw', tag='c08b')
    out += C.scenario_cases(rng, n // 8, tag='c08sc')
    out += R.reentrant_cases(rng, n // 6, tag='c08re')
    out += zoo_call_cases(rng, tier)
    out += C.unprintable_cases(rng, 16 if tier == 'quick' else 64) + C.receiver_cases(rng, 12 if tier == 'quick' else 48)
    # generic @pedantic_class classes of every shape (explicit Generic[T], typing-alias bases, user generic bases, mixins): no raw
    # exception may leave the wrapper (the stream of C07's generator; judged here for the containment clause only)
    out += TV.generic_shape_cases(rng, tier)
    return out


ZOO_HEADER = 'import _zoo as _Z\n_ZA = [a for _, a in _Z.annotations()]\n'
ZOO_POS = {'named': ('p0: _ZA[{i}]', ' -> None'), 'named_dflt': ('p0: _ZA[{i}] = None', ' -> None'), 'star': ('*args: _ZA[{i}]', ' -> None'),
           'dstar': ('**kwargs: _ZA[{i}]', ' -> None'), 'kwonly': ('*, k0: _ZA[{i}]', ' -> None'), 'ret': ('', ' -> _ZA[{i}]'),
           'genret': ('', ' -> _ZA[{i}]')}           # the same annotation on a generator function (checked when the generator object is built)


def zoo_call_cases(rng, tier):
    """every zoo annotation at every position of a real @pedantic function (named / defaulted / *args / **kwargs / keyword-only
    parameter, return annotation), called with keyword calls; functions and a method of a @pedantic_class class"""
    anns, _ = zoo()
    lit = K.lit
    vals = [lit(None), lit(1), lit('a'), ["coll", K.IDX[list], [lit(1)]], ["inst", K.IDX[K.U]]]
    defs, twins, meta = [], [], []
    for i, (label, _) in enumerate(anns):
        for pos, (sig, ret) in ZOO_POS.items():
            if tier == 'quick' and pos in ('named_dflt', 'kwonly', 'genret') and i % 3 and pos != 'genret':
                continue
            d = 'async def' if rng.random() < 0.15 else 'def'
            name = f'z{i}_{pos}'
            if pos == 'genret':
                d = 'def'
                body = f'{d} {name}({sig.format(i=i)}){ret.format(i=i)}:\n    yield _BODY({i}, locals())\n'
            else:
                body = f'{d} {name}({sig.format(i=i)}){ret.format(i=i)}:\n    return _BODY({i}, locals())\n'
            defs.append('@pedantic\n' + body); twins.append(body)
            meta.append((i, label, pos, name, 'coroutine' if d != 'def' else 'sync', '@pedantic\n' + body, body))
    P = C.OneProgram(ZOO_HEADER + ''.join(defs), ZOO_HEADER + ''.join(twins), f'zoo{rng.randrange(10**9)}')
    out = []
    try:
        for (i, label, pos, name, flav, src1, twin1) in meta:
            F = {'flavour': flav, 'kind': 'plain'}
            acc = ('mod', name)
            raw, mode = P.raw_of(F, acc)
            try:
                desc = C.describe(raw, mode)
            except Exception:
                continue
            calls = []
            v = rng.choice(vals)
            if pos in ('named', 'named_dflt'): calls = [([], [[K.nid('p0'), v]])] + ([([], [])] if pos == 'named_dflt' else [])
            elif pos == 'star': calls = [([], [])]
            elif pos == 'dstar': calls = [([], []), ([], [[K.nid('x0'), v]])]
            elif pos == 'kwonly': calls = [([], [[K.nid('k0'), v]])]
            else: calls = [([], [])]
            for (pa, kw) in calls:
                body = ['ret', v if pos == 'ret' else lit(None)]
                impl = C.execute(P, F, acc, pa, kw, body)
                truth = {'realStatic': False, 'realSetter': False, 'realPedantic': True, 'implicit': 0}
                out.append({'m': 'calllayer', 'c': {'env': K.env_json(), 'fn': desc, 'truth': truth, 'args': pa, 'kw': kw, 'body': body},
                            'x': {'src': ZOO_HEADER + src1, 'twin': ZOO_HEADER + twin1, 'access': list(acc), 'kind': 'plain', 'flavour': flav,
                                  'pos': pa, 'kwv': kw, 'body': body, 'implicit': 0, 'needle': None, 'zoo_call': [i, label, pos], '_impl': impl}})
    finally:
        P.close()
    return out


def search(rng, tier, near):
    return K.gen_checker_cases(rng, 30000)


def run_impl(cases):
    anns, vals = zoo()
    T.prepare(cases)
    out = []
    tv = TV.run_impl([c for c in cases if c['m'] == 'typevars'])          # one generated module for the whole stream
    for c in cases:
        if c['m'] == 'typevars':
            out.append(tv.pop(0)); continue
        if c['m'] == 'calllayer':
            out.extend(R.run_impl([c])); continue
        z = c['x'].get('zoo')
        if z is not None:
            if z[0] >= len(anns) or z[1] >= len(vals):
                out.append({'out': 'unbuildable:zoo-index'}); continue
            v = vals[z[1]][1]
            if vals[z[1]][0] in ('gen', 'iter'):      # one-shot: rebuild
                v = _zoo._genf() if vals[z[1]][0] == 'gen' else iter([1])
            o, tr = T.run_assert_traced(anns[z[0]][1], v)      # observed only (which statements real-world annotation objects leave from)
            out.append({'out': o, 'trace': tr} if tr is not None else {'out': o})
        else:
            out.extend(T.run_impl_checker([c]))
    return out


extra_coverage = C.T.with_trace_coverage()      # observed branch traces of the call layer (_calltrace_common)


def judge_call(case, impl, model):
    corr, why = C.correspondence(case, impl, model)
    if case['x'].get('zoo_call'):
        # the annotation is outside the model vocabulary (node `special`, answered by an arbitrary oracle; the theorem holds for every
        # oracle): R_C08 here is "the implementation lets an exception escape only where the model does"
        corr = not C.norm_out(impl['out']).startswith(('ESC', 'BIND')) or C.norm_out(C.model_class(model)).startswith(('ESC', 'BIND'))
        why = '' if corr else f"implementation {impl['out']} vs model {model['caller']} (zoo annotation {case['x']['zoo_call'][1]} at {case['x']['zoo_call'][2]})"
    s = model['spec']
    out = C.norm_out(impl['out'])
    pfail = None
    claimed = s['keywordCall'] and C.twin_accepts(impl)
    if claimed and (out.startswith('ESC') or out.startswith('BIND') or out == 'RET:other'):
        pfail = f'{impl["out"]} reached the caller of a keyword call that Python accepts for the undecorated function - {C.describe_case(case)}'
    finding = C.shared_finding(model) if pfail and corr else None       # unprintableValueEscapes / receiverByKeywordIndexError
    # (former region bodyMentionsStaticmethodEscapes: repaired by e6a11f4)
    return {'corr': corr, 'pfail': pfail, 'finding': finding, 'nontrivial': bool(claimed),
            'tag': f"call/{case['x']['kind']}/{case['x']['flavour']}/{out}", 'why': why}


def judge(case, impl, model):
    if case['m'] == 'typevars':
        return TV.judge_c08(case, impl, model)
    if case['m'] == 'calllayer':
        return judge_call(case, impl, model)
    io = impl['out']
    if io.startswith('unbuildable'):
        return {'corr': True, 'pfail': None, 'nontrivial': False, 'tag': 'unbuildable'}
    ic, mc = K.verdict_class(io), K.verdict_class(model['out'])
    zoo_case = case['x'].get('zoo') is not None
    # R_C08: impl escapes -> model escapes (for vocabulary cases the full verdict class is compared as well)
    corr = (ic != 'escape' or mc == 'escape') and (zoo_case or ic == mc)
    pfail = None
    finding = None
    if ic == 'escape':
        what = case['x'].get('labels') or [json.dumps(case['c']['ann']), json.dumps(case['c']['val'])]
        pfail = f'{io.split(":", 1)[1]} escaped from assert_value_matches_type (annotation {what[0]}, value {what[1]})'
        f = message_facts()
        if zoo_case and str(what[1]).startswith('unp-') and not (f['assertMsgSafe'] and f['handlerMsgSafe']):
            # a value that cannot be formatted and does not match (or makes the check raise): the message about it is built with the value
            # itself (generated facts assertMsgSafe / handlerMsgSafe = false) - the open finding unprintableValueEscapes
            corr, finding = True, 'unprintableValueEscapes'
    return {'corr': corr, 'pfail': pfail, 'finding': finding, 'nontrivial': True,
            'tag': ('zoo/' if zoo_case else 'vocab/') + io.split(':')[0], 'why': '' if corr else f'implementation {io} vs model {model["out"]}'}
    j = {'corr': corr, 'pfail': pfail, 'finding': None, 'nontrivial': True,
         'tag': ('zoo/' if zoo_case else 'vocab/') + io.split(':')[0], 'why': '' if corr else f'implementation {io} vs model {model["out"]}'}
    return T.apply(j, case, impl, model)      # vocabulary cases: + introspection record, `if` tests, statement trace of the interpreted translation


def extra_coverage(results):
    return T.coverage(results)


def twins(case):
    """amplified run: P <-> Pdup, 1 <-> True <-> 1.0, Literal members (see _checker_common.twins); call-level cases: primed twins"""
    return K.twins(case) + C.twins(case)


export_state, import_state = K.export_state, K.import_state      # the name table travels with replays / amplified runs


same_outcome = C.same_outcome      # amplified run: `trace` / `world` are diagnostics of sampled executions
