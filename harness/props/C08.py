"""C08 — error containment at the checker level: whatever annotation object and value are given, assert_value_matches_type
returns or raises a PedanticException.  Two streams: the annotation/value zoo (objects outside the model vocabulary: the
model answers through the oracle, the theorem covers every oracle) and the generated vocabulary cases of C01."""
import json
import _checker_common as K
import _zoo
import _call_common as C

RULE = ('exhaustive product of the annotation zoo (every public name of typing and collections.abc, bare and subscripted with 1-3 arguments, '
        'PEP 585 aliases of all standard containers, user Generic / Protocol / TypedDict / Enum classes, TypeVars, ParamSpec, special forms, strings '
        '(identifier, expression, empty, non-ASCII, syntax error), non-types (5, (int, str), [int], ..., a module, a function)) x the value zoo '
        '(builtins, object(), classes, functions, coroutine functions, generators, iterators, NamedTuples, __slots__ / metaclass instances, '
        'callable objects, partials, modules); plus the seeded vocabulary cases of C01. non-trivial = zoo pair or generic annotation')
EXHAUSTIVE = {'quick': True, 'thorough': True}
ASSUMPTIONS = ['values whose own __eq__ / __repr__ / __str__ / __hash__ raise are excluded (the property says so)',
               'BaseException subclasses raised by user code (KeyboardInterrupt, SystemExit) are outside "checking failures"']
TRUSTED = ['for zoo annotations the model is the oracle-parametrised node `special k`: nothing about their behaviour is assumed except that _is_instance raises only Exception subclasses']

_ANN = None
_VAL = None


def zoo():
    global _ANN, _VAL
    if _ANN is None:
        _ANN = _zoo.annotations(); _VAL = _zoo.values()
    return _ANN, _VAL


def cases(rng, tier):
    anns, vals = zoo()
    out = []
    for i, (la, _) in enumerate(anns):
        for j, (lv, _) in enumerate(vals):
            out.append({'m': 'checker', 'c': {'env': K.env_json(), 'ann': ["special", i], 'val': ["inst", K.IDX[K.U]]},
                        'x': {'zoo': [i, j], 'labels': [la, lv]}})
    out += K.gen_checker_cases(rng, 6000 if tier == 'quick' else 100000)
    # wrapper level: generated programs, keyword calls that Python accepts for the undecorated twin
    n = 900 if tier == 'quick' else 8000
    out += C.build_cases(rng, n, calls_per=3, style='kw', tag='c08a')
    out += C.build_cases(rng, n // 3, calls_per=2, profile='incomplete', style='kw', tag='c08b')
    return out


def search(rng, tier, near):
    return K.gen_checker_cases(rng, 30000)


def run_impl(cases):
    anns, vals = zoo()
    out = []
    for c in cases:
        if c['m'] == 'calllayer':
            out.extend(C.run_impl_calls([c])); continue
        z = c['x'].get('zoo')
        if z is not None:
            if z[0] >= len(anns) or z[1] >= len(vals):
                out.append({'out': 'unbuildable:zoo-index'}); continue
            v = vals[z[1]][1]
            if vals[z[1]][0] in ('gen', 'iter'):      # one-shot: rebuild
                v = _zoo._genf() if vals[z[1]][0] == 'gen' else iter([1])
            out.append({'out': K.run_assert(anns[z[0]][1], v)})
        else:
            out.extend(K.run_impl_checker([c]))
    return out


def judge_call(case, impl, model):
    corr, why = C.correspondence(case, impl, model)
    s = model['spec']
    out = C.norm_out(impl['out'])
    pfail = None
    claimed = s['keywordCall'] and C.twin_accepts(impl)
    if claimed and (out.startswith('ESC') or out.startswith('BIND') or out == 'RET:other'):
        pfail = f'{impl["out"]} reached the caller of a keyword call that Python accepts for the undecorated function - {C.describe_case(case)}'
    finding = None
    if pfail and corr and ('untruthful' in model['regions'] or 'clazzFails' in model['regions']):
        finding = 'bodyMentionsStaticmethodEscapes'
    return {'corr': corr, 'pfail': pfail, 'finding': finding, 'nontrivial': bool(claimed),
            'tag': f"call/{case['x']['kind']}/{case['x']['flavour']}/{out}", 'why': why}


def judge(case, impl, model):
    if case['m'] == 'calllayer':
        return judge_call(case, impl, model)
    io = impl['out']
    if io.startswith('unbuildable'):
        return {'corr': True, 'pfail': None, 'nontrivial': False, 'tag': 'unbuildable'}
    ic, mc = K.verdict_class(io), K.verdict_class(model['out'])
    zoo_case = case['x'].get('zoo') is not None
    # R_C08: impl escapes -> model escapes (for vocabulary cases the full verdict class is compared as well)
    corr = (ic != 'escape' or mc == 'escape') and (zoo_case or ic == mc)
    pfail = None
    if ic == 'escape':
        what = case['x'].get('labels') or [json.dumps(case['c']['ann']), json.dumps(case['c']['val'])]
        pfail = f'{io.split(":", 1)[1]} escaped from assert_value_matches_type (annotation {what[0]}, value {what[1]})'
    return {'corr': corr, 'pfail': pfail, 'finding': None, 'nontrivial': True,
            'tag': ('zoo/' if zoo_case else 'vocab/') + io.split(':')[0], 'why': '' if corr else f'implementation {io} vs model {model["out"]}'}
