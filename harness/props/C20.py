"""C20 — mixins: GenericMixin.type_vars/type_var and WithDecoratedMethods.get_decorated_functions against the Lean
model (`Model/Mixins.lean`) and the independent spec (`Spec/Mixins.lean`).

A case is a class table (bases as written + namespaces); the driver gets exactly the JSON from which `run_impl`
builds the real classes with `types.new_class`, so the abstract case *is* the program."""
import enum as enum_mod, itertools, json, types as _types, typing, functools, inspect
from abc import ABC

RULE = ('class tables built with types.new_class.  GenericMixin: every shape family (direct Generic[T1..Tn] with the mixin '
        'before/after and 0-2 extra plain mixins at every position; fully binding subclass with extra bases first/last/both; '
        'plain subclass chains of both; binding subclass of a plain subclass; non-generic users; unparametrised instances; '
        'direct Generic[T1..Tn] with 1-2 extra PARAMETRISED mixin bases that know nothing about GenericMixin (an ordinary generic '
        'class Labelled(Generic[L]) with L a variable of its own or one of T1..Tn, a two-parameter one, a subscriptable class without '
        '__orig_bases__ like list) at every position before / after Generic[...] and GenericMixin, arguments from the vocabulary or from '
        'T1..Tn, instantiated with and without type arguments, with binding subclasses (extra plain mixin first / last) and plain subclasses '
        'of them; binding subclasses with 1-2 FURTHER SUBSCRIPTED BASES that have nothing to do with GenericMixin (ordinary generic classes with one '
        'or two parameters, a types.GenericAlias class like list, a class subscribed like typing.Sequence) before / after / on both sides of the '
        'binding base, with a plain mixin anywhere, over direct classes with either base order or with a parametrised mixin of their own, and '
        'plain subclasses of them; classes that add GenericMixin themselves (directly or through a plain class M(GenericMixin), at every position) '
        'and bind an ordinary generic class with one or two parameters, with 0-2 further subscripted bases whose origin has no __orig_bases__ '
        'before / after it, and plain subclasses; reported only: two subscripted GenericMixin bases, two subscripted generic-class bases none of '
        'which is a GenericMixin class; '
        'unrelated plain mixins with CLASS-CREATION HOOKS (`__init_subclass__` that does not call super() — a sub class registry —, the cooperative '
        'version, `__class_getitem__`) at every position around Generic[...] / GenericMixin of a direct class and around the binding base of a binding '
        'subclass, one or two of them, with binding / plain subclasses; '
        'HISTORIES of queries (kind "history"): a family Money(Generic[T1..Tn], GenericMixin) / Euro(Money[..]) / Dollar(Marker, Money[..]) / '
        'Plain(GenericMixin) / Other(GenericMixin, Generic[T1]) / Sub(Euro) whose instances have identity semantics, are value objects '
        '(__eq__ / __hash__ by a shared value: instances of different classes are equal), are unhashable (__eq__ without __hash__) or are '
        '@dataclass instances — declared by the root classes, by every class, or by the sub classes only —, eight instances created first '
        '(parametrised, unparametrised, binding, non-generic) and then queried: every instance alone, every ordered pair (i, j, i), seeded longer '
        'sequences; random tables carry the same flags now and then; '
        'HIERARCHIES OF DEPTH >= 3 (fam "hier-*"): a binding subclass is subclassed AGAIN and the sub class declares Generic[...] of its own — '
        'Repo(Generic[T1..Tn], GenericMixin) / UserRepo(Repo[..]) / Cached(UserRepo, Generic[K..]) with K a variable of its own, T1 again, or two '
        'variables / PlainUser(UserRepo) / Cached2(PlainUser, Generic[K..]) / Twice(Cached[..]) / Again(Twice, Generic[M]) / Final(Again[..]) / '
        'PlainCached(Cached) / OtherRepo(Marker, Repo[..]) / Cached3(OtherRepo, Generic[K..]) with a second marker at every position, both orders of '
        'the root\'s bases, n = 1, 2 — 17 instances (parametrised twice with different arguments, unparametrised, binding, plain) created first and '
        'then queried: every instance alone, every ordered pair of instances as (i, j, i) — parent first / child first / siblings — (all pairs for own '
        'type variables, a seeded half otherwise; all in the thorough tier), seeded longer sequences; plus seeded hierarchies grown class by class from '
        'one root (bind / bind partially / subclass plainly / declare Generic[...] again over a class whose parameters are all bound, 3-9 classes) with '
        'seeded histories of 2-9 queries; single queries on re-declared classes in the random tables; '
        'near misses: partially binding subclasses, re-declared Generic, two bound bases, diamonds, builtin aliases '
        '(List[int]) as bases) x n = 1..4 x type arguments from a 15-element vocabulary (enumerated for the small '
        'families, seeded otherwise) + seeded random tables of 1-6 classes.  WithDecoratedMethods: classes with 0-6 '
        'sync/async methods (names plain, _single, __dunder__, __private) x 0-3 create_decorator applications per method '
        '(members of the enum, repeated member, a foreign enum) x transformation none/identity/functools.wraps/attribute-'
        'dropping x dunder-named methods decorated like the others x subclass with inherited/overridden/new methods x decorated methods from an extra plain mixin base (either '
        'order) x static/class methods, properties, raising properties, attribute-carrying objects x enum values colliding '
        'with member names x unparametrised / non-enum type argument x STORED CONFIGURED DECORATORS: the program defines one factory per (type, '
        'transformation), calls it for a seeded subset of the applications FIRST (in seeded order, together with further calls of the same factory with '
        'other arguments that are never applied), applies the stored decorators later, and calls the factory on the spot for the remaining applications in '
        'between (`d1 = foo(1); d2 = foo(2); @d1 def a; @foo(3) def b; @d1 def c`) x an unrelated mixin with __init_subclass__ hooks next to '
        'WithDecoratedMethods[...] x ENUM VALUES THAT ARE ATTRIBUTE NAMES of the objects the scan meets anyway (upper, join: the str that class_name '
        'returns and the StrEnum class; get, keys: the dict that type_vars returns; real: an int class attribute; __doc__, __name__, __wrapped__: '
        'functions — the case carries what the enum class / a str / a dict / a function / every other object of the namespaces answers to by itself, '
        'read off stand-in objects of the same types) x THE INSTANCE __dict__ (functions decorated outside the classes and other objects stored by '
        '__init__ under fresh names, a dunder name, names of methods they shadow).  non-trivial = the instance answers with a mapping '
        'or at least one decorator application exists')
EXHAUSTIVE = {'quick': False, 'thorough': False}
ASSUMPTIONS = ['a class subscribed like typing.Sequence (typing._GenericAlias with a _name) is generated only in front of another typing alias: when none '
               'follows, typing appends `Generic` to the bases, which the class-table model of __mro_entries__ does not describe',
               'classes are created by the interpreter (types.new_class); class creation that the interpreter refuses is not a case',
               'type arguments are opaque objects (identity/equality), names are (leading underscores, rest)',
               'extra parametrised mixin bases of a directly generic class are user generic classes (typing aliases `Labelled[str]`) at every position '
               'and subscripted classes without __orig_bases__ (types.GenericAlias, the stand-in for list[int]) before Generic[...] only: typing keeps '
               '`Generic` among the bases when only a types.GenericAlias follows it, which the class-table model of __mro_entries__ does not describe',
               '"the bound methods that were decorated" is read as: the plain, class and static methods of the classes (any name, dunder names included) '
               'that were decorated through create_decorator, each as the instance sees it — bound to the instance, bound to the class, and for a static '
               'method (which has no bound form) the function that `instance.name` is',
               'inside `decoGuard` (transformations keep the function attributes; no enum value names a slot of function objects such as __doc__ / '
               '__name__) the result must be exact whatever else lives in the classes and in the instance __dict__ (properties, raising or not; objects '
               'with attributes named like enum values; enum values that are attribute names of str / dict / the enum class — the case still lists '
               'what these objects answer to, the model of the old scan needs it); outside the guard a deviation is a property failure attributed to '
               'the named region of the spec (`guardRegions`: transformationDropsDecoratorAttribute, enumValueNamesFunctionSlot) it falls into — a '
               'finding id of known_findings.json — unless the model of the unchanged code does not show it',
               'names in the instance __dict__ are fresh names or names of plain methods (never of properties: a data descriptor would win)',
               'functools.wraps-style transformations are not generated together with dunder enum values (__name__, __doc__, __wrapped__: wraps '
               'writes these itself)',
               'a history model that abstains: when the generated facts list a place where the library can leave state behind (leftBehind), the model '
               'answers no query but the first']
TRUSTED = ['issubclass(origin, GenericMixin) is modelled as reachability through __bases__ (for a class the interpreter created the MRO consists of '
           'exactly these classes); the driver checks on every case that this agrees with membership in the MRO it computes, which is compared '
           'with __mro__',
           'CPython: `__orig_bases__` exists on a class iff a base is subscripted; `Cls[X]()` sets `__orig_class__`; C3 MRO '
           '(re-computed by the model and compared with `__mro__` on every case); bound methods forward attribute reads; '
           'dir() = union of the namespaces along the MRO']

LIB = 4                                   # ids 0..3: typing.Generic, GenericMixin, ABC, WithDecoratedMethods
GM_ID, ABC_ID, WDM_ID = 1, 2, 3
NTV = 4                                   # user type variables have ids 1..4 (0 = E of WithDecoratedMethods)
ENUM_TY = 50                              # type-argument id of the generated DecoratorType enum
VOCAB_SRC = ['int', 'str', 'float', 'bool', 'bytes', 'typing.List[int]', 'typing.Optional[int]', 'typing.Dict[str, int]',
             'list[int]', 'typing.Union[int, str]', 'typing.Any', 'typing.Tuple[int, ...]', 'User1', 'User2',
             'typing.Callable[[int], str]']
NVOC = len(VOCAB_SRC)
MEMBER_VAL = 9000                         # value id of "the i-th member object of the enum"
UNKNOWN_VAL = 9999                        # value id of "some object that is no decorator argument of the program" (a str method, a name, …)
# enum values that are attribute names of the objects the scan of get_decorated_functions meets anyway: str (the value of class_name; the
# StrEnum class that type_var returns), dict (the value of type_vars), int, functions / bound methods
ATTR_VOCAB = ['upper', 'join', 'get', 'keys', 'real', '__doc__', '__name__', '__wrapped__']


# ------------------------------------------------------------------------------------------------ abstract builders

def ty(i): return ['ty', i]
def tv(i): return ['tv', i]
def G(tvs): return ['generic', list(tvs)]
def P(c, args): return ['param', c, list(args)]
def PL(c): return ['plain', c]
def cls_(bases, ns=None, **kw): return dict({'bases': bases, 'ns': ns or []}, **kw)


def gcase(table, cls, orig, fam):
    return {'m': 'mixins', 'c': {'k': 'generic', 'table': table, 'cls': cls, 'orig': orig}, 'x': {'fam': fam}}


def valid(table):
    """would the interpreter create these classes?  (stand-ins for the library classes; typing only)"""
    try:
        build_classes(table, stand_in=True)
        return True
    except (TypeError, AttributeError):      # AttributeError: typing's own __init_subclass__ was cut off by a hook that does not chain
        return False


class _W:
    """lazily created per-process world: type variables, vocabulary"""
    tvs = None

    @classmethod
    def get(cls):
        if cls.tvs is None:
            cls.tvs = [typing.TypeVar('E0')] + [typing.TypeVar(f'T{i}') for i in range(1, NTV + 1)]
            User1 = type('User1', (), {}); User2 = type('User2', (User1,), {})
            env = {'typing': typing, 'User1': User1, 'User2': User2}
            cls.vocab = [eval(s, env) for s in VOCAB_SRC]
        return cls


def targ_obj(a, lib_e=None):
    w = _W.get()
    if a[0] == 'tv':
        return lib_e if (a[1] == 0 and lib_e is not None) else w.tvs[a[1]]
    return w.vocab[a[1]] if a[1] < NVOC else ('enum-slot', a[1])


class _NamedAlias:
    """subscription of a class the way typing subscribes its own aliases (`typing.Sequence[int]`): a `typing._GenericAlias` that
    carries a `_name` — no `__orig_bases__` on the origin, `__mro_entries__` of the special aliases"""

    def __init__(self, cls): self.cls = cls

    def __getitem__(self, args):
        return typing._GenericAlias(self.cls, args if isinstance(args, tuple) else (args,), name=self.cls.__name__)


def _value_eq(self, other):
    return getattr(other, '__pv__', None) == self.__pv__


def _value_hash(self):
    return hash(self.__pv__)


EQ_KINDS = ['value', 'nohash', 'dataclass']
HOOK_KINDS = ['nochain', 'chain', 'getitem']
REGISTRY = []


def hook_namespace(kind, holder):
    """class-creation hooks of an unrelated mixin (`hook` flag of a class):
    nochain  `__init_subclass__` that registers the sub class and does NOT call super().__init_subclass__() (a sub class registry)
    chain    the cooperative version
    getitem  `__class_getitem__` returning the class itself (the mixin wants to be subscriptable: `Registry[str]` is `Registry`)"""
    if kind == 'nochain':
        def __init_subclass__(cls, **kwargs):
            REGISTRY.append(cls.__name__); del REGISTRY[:-8]
        return {'__init_subclass__': __init_subclass__}
    if kind == 'chain':
        def __init_subclass__(cls, **kwargs):
            REGISTRY.append(cls.__name__); del REGISTRY[:-8]
            super(holder[0], cls).__init_subclass__(**kwargs)
        return {'__init_subclass__': __init_subclass__}
    if kind == 'getitem':
        def __class_getitem__(cls, item):
            return cls
        return {'__class_getitem__': __class_getitem__}
    return {}


def eq_namespace(kind):
    """how the instances of a user class compare and hash (`eq` flag of a class; inherited by its sub classes like any attribute):
    value   value objects: __eq__ / __hash__ by a value that all instances share — instances of DIFFERENT classes are equal
    nohash  __eq__ defined, __hash__ = None: unhashable instances
    (dataclass: applied after the class exists, see build_classes)"""
    if kind == 'value':
        return {'__pv__': 4, '__eq__': _value_eq, '__hash__': _value_hash}
    if kind == 'nohash':
        return {'__pv__': 4, '__eq__': _value_eq, '__hash__': None}
    return {}


def build_classes(table, stand_in=False, ns_builder=None, enum_objs=None):
    """returns (subscriptables, classes) indexed by class id"""
    w = _W.get()
    if stand_in:
        gm = type('GM', (), {}); abc_ = ABC
        wdm = _types.new_class('WDM', (abc_, typing.Generic[w.tvs[0]], gm))
        lib_e = None
    else:
        import pedantic
        from pedantic.mixins import with_decorated_methods as W
        gm, abc_, wdm = pedantic.GenericMixin, ABC, pedantic.WithDecoratedMethods
        lib_e = None
    subs = [typing.Generic, gm, abc_, wdm]; clss = [typing.Generic, gm, abc_, wdm]
    for k, cd in enumerate(table):
        cid = LIB + k
        if cd.get('cgi') == 'typing':
            # a class subscribed the way typing's own aliases are (`typing.Sequence[int]`): no `__orig_bases__` on the origin either
            c = type(f'S{cid}', (), {})
            subs.append(_NamedAlias(c)); clss.append(c)
            continue
        if cd.get('cgi'):
            # a subscriptable class without `__orig_bases__` (what builtins like list are)
            c = type(f'S{cid}', (), {'__class_getitem__': classmethod(_types.GenericAlias)})
            subs.append(c); clss.append(c)
            continue
        bases = []
        for b in cd['bases']:
            if b[0] == 'generic':
                bases.append(typing.Generic[tuple(w.tvs[i] for i in b[1])])
            elif b[0] == 'param':
                args = []
                for a in b[2]:
                    if a[0] == 'ty' and a[1] >= NVOC:
                        args.append(enum_objs[a[1]] if enum_objs and a[1] in enum_objs else int)
                    else:
                        args.append(targ_obj(a))
                bases.append(subs[b[1]][tuple(args)] if len(args) != 1 else subs[b[1]][args[0]])
            else:
                bases.append(clss[b[1]])
        ns = dict(ns_builder(cid, cd) if ns_builder else {})
        ns.update(eq_namespace(cd.get('eq')))
        holder = [None]
        ns.update(hook_namespace(cd.get('hook'), holder))
        c = _types.new_class(f'C{cid}', tuple(bases), {}, lambda d, ns=ns: d.update(ns))
        holder[0] = c
        if cd.get('eq') == 'dataclass':
            import dataclasses
            c = dataclasses.dataclass(c)          # eq=True: __eq__ by fields (there are none: all instances equal), __hash__ = None
        subs.append(c); clss.append(c)
    return subs, clss


# ------------------------------------------------------------------------------------------------ GenericMixin cases

def mix_positions(core, k):
    """all ways to put k extra plain mixins (ids given later) around the core bases"""
    slots = len(core) + 1
    for pos in itertools.product(range(slots), repeat=k):
        yield pos


def with_mixins(core, mixin_ids, pos):
    out = [[] for _ in range(len(core) + 1)]
    for m, p in zip(mixin_ids, pos):
        out[p].append(PL(m))
    res = []
    for i, b in enumerate(core):
        res += out[i] + [b]
    return res + out[len(core)]


def generic_cases(rng, tier):
    out = []
    big = tier != 'quick'

    def args_for(n):
        return [ty(rng.randrange(NVOC)) for _ in range(n)]

    def add(table, cls, orig, fam):
        out.append(gcase(table, cls, orig, fam))

    for n in range(1, NTV + 1):
        tvs = list(range(1, n + 1))
        reps = 3 if big else 1
        for _ in range(reps):
            # direct, both base orders, 0..2 extra mixins at every position
            for k in (0, 1, 2):
                mix = [cls_([]) for _ in range(k)]                       # ids LIB .. LIB+k-1
                mids = [LIB + i for i in range(k)]
                for core in ([G(tvs), PL(GM_ID)], [PL(GM_ID), G(tvs)]):
                    for pos in mix_positions(core, k):
                        a = args_for(n)
                        t = mix + [cls_(with_mixins(core, mids, pos))]
                        add(t, LIB + k, a, 'direct')
                        add(t, LIB + k, None, 'unparam')
                        # binding subclass with extra mixins around it
                        for k2 in (0, 1, 2):
                            mix2 = [cls_([]) for _ in range(k2)]
                            m2 = [LIB + k + 1 + i for i in range(k2)]
                            for pos2 in mix_positions([None], k2):
                                a2 = args_for(n)
                                t2 = t + mix2 + [cls_(with_mixins([P(LIB + k, a2)], m2, pos2))]
                                b = LIB + k + 1 + k2
                                add(t2, b, None, 'binding')
                                if pos == (0,) * k and (k2 == 0 or big):
                                    add(t2 + [cls_([PL(b)])], b + 1, None, 'plainsub-binding')
                                    add(t2 + [cls_([PL(b)]), cls_([PL(b + 1)])], b + 2, None, 'plainsub2-binding')
                        if pos == (0,) * k:
                            d = LIB + k
                            # a plain subclass of a generic class is not subscriptable: only `B()` exists
                            add(t + [cls_([PL(d)])], d + 1, None, 'plainsub-unparam')
                            add(t + [cls_([PL(d)]), cls_([PL(d + 1)])], d + 2, None, 'plainsub2-unparam')
        # near misses
        A = cls_([G(tvs), PL(GM_ID)])
        for _ in range(4 if big else 2):
            if n >= 2:
                keep = rng.randrange(n)                                  # this parameter stays free
                pa = [tv(keep + 1) if i == keep else ty(rng.randrange(NVOC)) for i in range(n)]
                t = [A, cls_([P(LIB, pa)])]
                add(t, LIB + 1, None, 'partial')
                add(t, LIB + 1, [ty(rng.randrange(NVOC))], 'partial-param')
                add(t + [cls_([P(LIB + 1, [ty(rng.randrange(NVOC))])])], LIB + 2, None, 'partial-bound')
                add([A, cls_([P(LIB, pa), G([keep + 1])])], LIB + 1, [ty(rng.randrange(NVOC))], 'regeneric')
                add([A, cls_([G([keep + 1]), P(LIB, pa)])], LIB + 1, [ty(rng.randrange(NVOC))], 'regeneric')
            a1, a2 = args_for(n), args_for(n)
            A2 = cls_([G(tvs), PL(GM_ID)])
            add([A, A2, cls_([P(LIB, a1), P(LIB + 1, a2)])], LIB + 2, None, 'two-bound')
            add([A, cls_([PL(LIB)]), cls_([P(LIB, a1)]), cls_([PL(LIB + 1), PL(LIB + 2)])], LIB + 3, None, 'diamond')
            if n == 1:
                lst = cls_([], cgi=True)
                add([A, lst, cls_([P(LIB + 1, [ty(0)]), P(LIB, a1)])], LIB + 2, None, 'cgi-first')
                add([A, lst, cls_([P(LIB, a1), P(LIB + 1, [ty(0)])])], LIB + 2, None, 'cgi-last')
    # directly generic classes with extra PARAMETRISED mixin bases that know nothing about GenericMixin:
    #   class Box(Labelled[str], Generic[T], GenericMixin)  with  class Labelled(Generic[L])
    for n in range(1, NTV + 1):
        tvs = list(range(1, n + 1))
        for lv in ([NTV] if n < NTV else []) + [1]:          # L is a variable of its own (when one is left) / is T1 itself
            two = [lv, 2 if lv != 2 else 3]
            pool = [cls_([G([lv])]), cls_([G(two)]), cls_([], cgi=True)]       # ids LIB, LIB+1, LIB+2
            npar = [1, 2, 1]
            box = LIB + len(pool)

            def fargs(f):
                return [tv(rng.choice(tvs)) if rng.random() < 0.3 else ty(rng.randrange(NVOC)) for _ in range(npar[f])]
            for core in ([G(tvs), PL(GM_ID)], [PL(GM_ID), G(tvs)]):
                gi = 0 if core[0][0] == 'generic' else 1
                layouts = [((f,), pos) for f in range(3) for pos in mix_positions(core, 1)]
                pairs = [((f, g), pos) for f in range(3) for g in range(3) for pos in mix_positions(core, 2)]
                layouts += pairs if big else rng.sample(pairs, 10)
                for fs, pos in layouts:
                    # a types.GenericAlias base (S[int]) after Generic[...] is left out: typing keeps `Generic` among the bases there
                    # (it only looks for typing aliases), which the class-table model does not describe
                    if any(f == 2 and p_ > gi for f, p_ in zip(fs, pos)):
                        continue
                    out_ = [[] for _ in range(len(core) + 1)]
                    for f, p_ in zip(fs, pos):
                        out_[p_].append(P(LIB + f, fargs(f)))
                    bases = []
                    for i, b in enumerate(core):
                        bases += out_[i] + [b]
                    bases += out_[len(core)]
                    t = pool + [cls_(bases)]
                    if not valid(t):
                        continue
                    add(t, box, args_for(n), 'pdirect')
                    add(t, box, None, 'punparam')
                    a2 = args_for(n)
                    add(t + [cls_([P(box, a2)])], box + 1, None, 'pbinding')
                    add(t + [cls_([PL(box)])], box + 1, None, 'plainsub-punparam')
                    if len(fs) == 1 or big:
                        add(t + [cls_([]), cls_([PL(box + 1), P(box, a2)])], box + 2, None, 'pbinding')
                        add(t + [cls_([]), cls_([P(box, a2), PL(box + 1)])], box + 2, None, 'pbinding')
                        add(t + [cls_([P(box, a2)]), cls_([PL(box + 1)])], box + 2, None, 'plainsub-pbinding')
                        # a binding subclass with a second subscripted base that has nothing to do with GenericMixin, first / last
                        add(t + [cls_([P(LIB, [ty(rng.randrange(NVOC))]), P(box, a2)])], box + 1, None, 'pbinding-extra-first')
                        add(t + [cls_([P(box, a2), P(LIB, [ty(rng.randrange(NVOC))])])], box + 1, None, 'pbinding-extra-last')
    # binding subclasses with FURTHER SUBSCRIPTED BASES that have nothing to do with GenericMixin, at every position:
    #   class Odd(Labelled[str], Box[int]), class SeqBox(Sequence[int], Box[int]), class Three(Labelled[str], Box[int], list[int])
    for n in range(1, NTV + 1):
        tvs = list(range(1, n + 1))
        for lv in ([NTV] if n < NTV else []) + [1]:
            two = [lv, 2 if lv != 2 else 3]
            # ids LIB..LIB+4: Labelled(Generic[L]), Two(Generic[L, M]), a types.GenericAlias class (list), a typing-named alias (Sequence), a plain mixin
            pool = [cls_([G([lv])]), cls_([G(two)]), cls_([], cgi=True), cls_([], cgi='typing'), cls_([])]
            npar = [1, 2, 1, 1]
            box = LIB + len(pool)
            for core in ([G(tvs), PL(GM_ID)], [PL(GM_ID), G(tvs)], [P(LIB, [ty(rng.randrange(NVOC))]), G(tvs), PL(GM_ID)]):
                t = pool + [cls_(core)]
                bind = box + 1
                layouts = [((f,), (pos,)) for f in range(4) for pos in (0, 1)]
                pairs = [((f, g), pos) for f in range(4) for g in range(4) if f != g for pos in itertools.product((0, 1), repeat=2)]
                layouts += pairs if big else rng.sample(pairs, 12)
                for fs, pos in layouts:
                    a2 = args_for(n)
                    before = [P(LIB + f, [ty(rng.randrange(NVOC)) for _ in range(npar[f])]) for f, p_ in zip(fs, pos) if p_ == 0]
                    after = [P(LIB + f, [ty(rng.randrange(NVOC)) for _ in range(npar[f])]) for f, p_ in zip(fs, pos) if p_ == 1]
                    # a typing-named alias that no other typing alias follows makes typing append `Generic` to the bases (not described by
                    # the class-table model): it is generated in front of the binding base only
                    if any(b[1] == LIB + 3 for b in after):
                        continue
                    bases = before + [P(box, a2)] + after
                    for extra in ([], [PL(LIB + 4)]):
                        bs = list(bases)
                        if extra:
                            bs.insert(rng.randrange(len(bs) + 1), extra[0])
                        tt = t + [cls_(bs)]
                        if not valid(tt):
                            continue
                        fam = 'fbinding-' + ('first' if before and not after else 'last' if after and not before else 'both')
                        add(tt, bind, None, fam)
                        if not extra:
                            add(tt + [cls_([PL(bind)])], bind + 1, None, 'plainsub-' + fam)
                # reported only: two subscripted GenericMixin bases; a binding of a generic class that is no GenericMixin class
                a2 = args_for(n)
                box2 = [PL(GM_ID), G([1])] if core[0] == PL(GM_ID) else [G([1]), PL(GM_ID)]       # same order as the core: one consistent MRO
                add(t + [cls_(box2), cls_([P(box, a2), P(box + 1, [ty(0)])])], box + 2, None, 'two-mixin-bases')
                add(pool + [cls_([P(LIB, [ty(rng.randrange(NVOC))]), PL(GM_ID)])], box, None, 'foreign-bound')
                add(pool + [cls_([PL(GM_ID), P(LIB + 1, [ty(0), ty(1)])])], box, None, 'foreign-bound')
            # GenericMixin added by the class itself, binding an ordinary generic class: class IntL(Labelled[int], GenericMixin),
            # class X(Sequence[int], Labelled[int], GenericMixin); GenericMixin at every position, directly or through a plain class M(GenericMixin);
            # 0-2 further subscripted bases whose origin has no __orig_bases__ (list-like, Sequence-like) before / after the generic one
            user = LIB + len(pool)                           # class M(GenericMixin)
            tm = pool + [cls_([PL(GM_ID)])]
            for f in (0, 1):                                 # Labelled[..] / Two[.., ..]
                for gm in (GM_ID, user):
                    for bare in ([], [2], [3], [2, 3], [3, 2]):
                        for nbefore in range(len(bare) + 1):
                            core = [P(LIB + b, [ty(rng.randrange(NVOC))]) for b in bare[:nbefore]] \
                                + [P(LIB + f, [ty(rng.randrange(NVOC)) for _ in range(npar[f])])] \
                                + [P(LIB + b, [ty(rng.randrange(NVOC))]) for b in bare[nbefore:]]
                            # a Sequence-like alias needs a typing alias after it (see above)
                            if any(b[1] == LIB + 3 for b in core[nbefore + 1:]):
                                continue
                            for gpos in range(len(core) + 1):
                                bs = core[:gpos] + [PL(gm)] + core[gpos:]
                                if any(b[0] == 'param' and b[1] == LIB + 3 and not any(c[0] == 'param' and c[1] in (LIB, LIB + 1, LIB + 3)
                                                                                         for c in bs[i + 1:]) for i, b in enumerate(bs)):
                                    continue
                                tt = tm + [cls_(bs)]
                                if not valid(tt):
                                    continue
                                add(tt, user + 1, None, 'foreign-bound' + ('-bare' if bare else ''))
                                if not bare:
                                    add(tt + [cls_([PL(user + 1)])], user + 2, None, 'plainsub-foreign-bound')
            # reported only: two subscripted generic-class bases, none of them a GenericMixin class (the first one is reported)
            add(tm + [cls_([P(LIB, [ty(0)]), P(LIB + 1, [ty(1), ty(2)]), PL(GM_ID)])], user + 1, None, 'two-foreign-generic')
            add(tm + [cls_([PL(GM_ID), P(LIB + 1, [ty(1), ty(2)]), P(LIB, [ty(0)])])], user + 1, None, 'two-foreign-generic')
    # unrelated plain mixins with CLASS-CREATION HOOKS at every position: `__init_subclass__` that does not call super() (a sub class
    # registry), the cooperative version, `__class_getitem__` (binding subclasses only: a direct class would be subscribed through it)
    for n in ((1, 2) if not big else range(1, NTV + 1)):
        tvs = list(range(1, n + 1))
        for core in ([G(tvs), PL(GM_ID)], [PL(GM_ID), G(tvs)]):
            for hooks in [(h,) for h in ('nochain', 'chain')] + [('nochain', 'chain'), ('chain', 'nochain'), ('nochain', 'nochain')]:
                k = len(hooks)
                mix = [cls_([], hook=h) for h in hooks]
                mids = [LIB + i for i in range(k)]
                for pos in mix_positions(core, k):
                    t = mix + [cls_(with_mixins(core, mids, pos))]
                    if not valid(t):
                        continue
                    add(t, LIB + k, args_for(n), 'hook-direct')           # (not subscriptable when the hook cuts typing's own off: `invalid`)
                    add(t, LIB + k, None, 'hook-unparam')
                    a2 = args_for(n)
                    add(t + [cls_([P(LIB + k, a2)])], LIB + k + 1, None, 'hook-binding-of')
                    add(t + [cls_([PL(LIB + k)])], LIB + k + 1, None, 'hook-plainsub')
            # the hooks on mixins of the binding subclass
            gen = cls_(core)
            for hooks in [(h,) for h in HOOK_KINDS] + [('nochain', 'chain'), ('getitem', 'nochain'), ('nochain', 'nochain')]:
                k = len(hooks)
                mix = [cls_([], hook=h) for h in hooks]
                mids = [LIB + 1 + i for i in range(k)]
                for pos in mix_positions([None], k):
                    a2 = args_for(n)
                    t = [gen] + mix + [cls_(with_mixins([P(LIB, a2)], mids, pos))]
                    if not valid(t):
                        continue
                    b = LIB + 1 + k
                    add(t, b, None, 'hook-binding')
                    add(t + [cls_([PL(b)])], b + 1, None, 'hook-binding-plainsub')
                    add(t + [cls_([], hook='nochain'), cls_([PL(b + 1), PL(b)])], b + 2, None, 'hook-binding-sub-mixin')
    # non-generic users
    add([cls_([PL(GM_ID)])], LIB, None, 'nongeneric')
    add([cls_([]), cls_([PL(GM_ID), PL(LIB)])], LIB + 1, None, 'nongeneric')
    add([cls_([]), cls_([PL(LIB), PL(GM_ID)])], LIB + 1, None, 'nongeneric')
    add([cls_([PL(GM_ID)]), cls_([PL(LIB)])], LIB + 1, None, 'nongeneric')
    add([cls_([PL(GM_ID)]), cls_([]), cls_([PL(LIB + 1), PL(LIB)])], LIB + 2, None, 'nongeneric')
    # random tables
    for _ in range(40000 if big else 4500):
        c = random_table(rng)
        if c is not None:
            out.append(c)
    return out


def random_table(rng):
    cgis = []
    foreign = {}                                # classes that know nothing about GenericMixin and can be subscripted: id -> number of arguments
    table = []; arity = []                      # arity: None = not generic-related, n>0 subscriptable, 0 = bound, -1 = non-generic user
    ncls = rng.randint(1, 6)
    for k in range(ncls):
        cid = LIB + k
        kind = rng.choice(['root', 'root', 'bind', 'bind', 'bind', 'plainsub', 'partial', 'mixin', 'multi', 'user', 'cgi', 'foreign', 'redecl'])
        cand = [LIB + i for i in range(k) if arity[i] is not None and arity[i] > 0]
        mixins = [LIB + i for i in range(k) if arity[i] is None and LIB + i not in cgis]
        if kind == 'root' or (kind in ('bind', 'partial') and not cand):
            n = rng.randint(1, NTV); tvs = rng.sample(range(1, NTV + 1), n)
            bases = [G(tvs), PL(GM_ID)]
            if rng.random() < 0.4: bases.reverse()
            if mixins and rng.random() < 0.3: bases.insert(rng.randrange(3), PL(rng.choice(mixins)))
            if foreign and rng.random() < 0.45:
                # extra parametrised mixin bases that know nothing about GenericMixin, anywhere (a types.GenericAlias base only
                # before Generic[...], see generic_cases)
                for _ in range(rng.choice([1, 1, 2])):
                    f = rng.choice(sorted(foreign))
                    fa = [tv(rng.choice(tvs)) if rng.random() < 0.3 else ty(rng.randrange(NVOC)) for _ in range(foreign[f])]
                    gpos = next(i for i, b in enumerate(bases) if b[0] == 'generic')
                    bases.insert(rng.randrange(gpos + 1) if f in cgis else rng.randrange(len(bases) + 1), P(f, fa))
            table.append(cls_(bases)); arity.append(n)
        elif kind == 'redecl' and any(a == 0 for a in arity):
            # a class whose parameters are all bound is subclassed again and the sub class declares Generic[...] of its own:
            #   class Cached(UserRepo, Generic[K])  over  class UserRepo(Repo[User])
            b = rng.choice([LIB + i for i in range(k) if arity[i] == 0])
            n = rng.choice([1, 1, 2]); tvs = rng.sample(range(1, NTV + 1), n)
            bases = [PL(b), G(tvs)]
            if mixins and rng.random() < 0.3: bases.insert(rng.randrange(3), PL(rng.choice(mixins)))
            if valid(table + [cls_(bases)]):
                table.append(cls_(bases)); arity.append(n)
            else:
                table.append(cls_([PL(b)])); arity.append(0)
        elif kind in ('foreign', 'redecl'):
            n = rng.choice([1, 1, 2]); tvs = rng.sample(range(1, NTV + 1), n)
            table.append(cls_([G(tvs)])); arity.append(None); foreign[cid] = n
        elif kind == 'mixin':
            table.append(cls_([], hook=rng.choice(['nochain', 'chain'])) if rng.random() < 0.3 else cls_([])); arity.append(None)
        elif kind == 'cgi':
            table.append(cls_([], cgi=True)); arity.append(None); cgis.append(cid); foreign[cid] = 1
        elif kind == 'user':
            table.append(cls_([PL(GM_ID)])); arity.append(-1)
        elif kind == 'bind':
            b = rng.choice(cand); n = arity[b - LIB]
            bases = [P(b, [ty(rng.randrange(NVOC)) for _ in range(n)])]
            for m in rng.sample(mixins, min(len(mixins), rng.choice([0, 0, 1, 2]))):
                bases.insert(rng.randrange(len(bases) + 1), PL(m))
            if cgis and rng.random() < 0.5:          # a subscripted base whose origin has no __orig_bases__ (like List[int])
                bases.insert(rng.randrange(len(bases) + 1), P(rng.choice(cgis), [ty(rng.randrange(NVOC))]))
            elif foreign and rng.random() < 0.25:    # a second subscripted base: an ordinary generic class (reported only)
                f = rng.choice(sorted(foreign))
                bases.insert(rng.randrange(len(bases) + 1), P(f, [ty(rng.randrange(NVOC)) for _ in range(foreign[f])]))
            table.append(cls_(bases)); arity.append(0)
        elif kind == 'partial':
            b = rng.choice(cand); n = arity[b - LIB]
            free = rng.sample(range(1, NTV + 1), rng.randint(1, n)) if n > 1 else [rng.randint(1, NTV)]
            fi = iter(free)
            slots = set(rng.sample(range(n), len(free))) if len(free) <= n else set()
            args = [tv(next(fi)) if i in slots else ty(rng.randrange(NVOC)) for i in range(n)]
            nfree = len(slots)
            table.append(cls_([P(b, args)])); arity.append(nfree if nfree else 0)
        elif kind == 'plainsub':
            rel = [LIB + i for i in range(k) if arity[i] is not None]
            if not rel:
                table.append(cls_([PL(GM_ID)])); arity.append(-1)
            else:
                b = rng.choice(rel)
                a = arity[b - LIB]
                table.append(cls_([PL(b)])); arity.append(-2 if a > 0 else a)    # -2: generic ancestry, not subscriptable
        else:  # multi: two or three earlier classes as plain / bound bases
            rel = [LIB + i for i in range(k)]
            if len(rel) < 2:
                table.append(cls_([PL(GM_ID)])); arity.append(-1); continue
            bs = []
            for b in rng.sample(rel, rng.choice([2, 2, 3]) if len(rel) >= 3 else 2):
                a = arity[b - LIB]
                if a is not None and a > 0 and rng.random() < 0.6:
                    bs.append(P(b, [ty(rng.randrange(NVOC)) for _ in range(a)]))
                else:
                    bs.append(PL(b))
            cand_t = table + [cls_(bs)]
            if valid(cand_t):
                table.append(cls_(bs))
                ar = [arity[b[1] - LIB] for b in bs if b[0] == 'plain' and arity[b[1] - LIB] is not None]
                arity.append(max(ar) if ar and max(ar) > 0 and all(b[0] == 'plain' for b in bs) else (0 if any(b[0] == 'param' for b in bs) else (-1 if ar else None)))
            else:
                table.append(cls_([])); arity.append(None)
    if rng.random() < 0.15:
        # instances that are value objects / unhashable (any user class may say so; sub classes inherit it)
        for cd in rng.sample(table, rng.randint(1, len(table))):
            if not cd.get('cgi'):
                cd['eq'] = rng.choice(EQ_KINDS)
    if not valid(table):
        return None
    users = [i for i in range(ncls) if arity[i] is not None]
    if not users:
        return None
    i = rng.choice(users); a = arity[i]
    orig = None
    if a is not None and a > 0 and rng.random() < 0.75:
        orig = [ty(rng.randrange(NVOC)) for _ in range(a)]
    return gcase(table, LIB + i, orig, 'random')


# ------------------------------------------------------------------------------------------------ histories of queries

def hcase(table, insts, qs, fam):
    return {'m': 'mixins', 'c': {'k': 'history', 'table': table, 'insts': insts, 'qs': qs}, 'x': {'fam': fam}}


def history_table(rng, n, eq, where):
    """class Money(Generic[T1..Tn], GenericMixin); class Euro(Money[..]); class Marker; class Dollar(Marker, Money[..]);
    class Plain(GenericMixin); class Other(GenericMixin, Generic[T1]); class Sub(Euro) — `eq` says how instances compare / hash,
    `where` = 'roots' (declared by the root classes, inherited) | 'all' (every user class declares it itself) | 'subs' (only the
    sub classes: the direct generic class keeps identity semantics)"""
    tvs = list(range(1, n + 1))
    a1 = [ty(rng.randrange(NVOC)) for _ in range(n)]
    a2 = [ty(rng.randrange(NVOC)) for _ in range(n)]
    money, euro, marker, dollar, plain, other, sub = range(LIB, LIB + 7)
    t = [cls_([G(tvs), PL(GM_ID)]), cls_([P(money, a1)]), cls_([]), cls_([PL(marker), P(money, a2)]), cls_([PL(GM_ID)]),
         cls_([PL(GM_ID), G([1])]), cls_([PL(euro)])]
    roots, subs_ = (0, 4, 5), (1, 3, 6)
    if eq:
        for i in {'roots': roots, 'all': roots + subs_, 'subs': subs_}[where]:
            t[i]['eq'] = eq
    return t, (money, euro, dollar, plain, other, sub)


def history_cases(rng, tier):
    out = []
    big = tier != 'quick'
    for eq in [None] + EQ_KINDS:
        for where in (['roots'] if eq is None else ['roots', 'all', 'subs']):
            for n in ((1, 2) if not big else (1, 2, 3)):
                t, (money, euro, dollar, plain, other, sub) = history_table(rng, n, eq, where)
                fam = f'hist-{eq or "identity"}-{where}'

                def args(): return [ty(rng.randrange(NVOC)) for _ in range(n)]
                insts = [[money, args()], [money, args()], [money, None], [euro, None], [dollar, None], [plain, None],
                         [other, [ty(rng.randrange(NVOC))]], [sub, None]]
                # every query alone, every ordered pair of instances (the second answer must not depend on the first), each instance twice
                for i in range(len(insts)):
                    out.append(hcase(t, insts, [i], fam))
                for i in range(len(insts)):
                    for j in range(len(insts)):
                        out.append(hcase(t, insts, [i, j, i], fam))
                for _ in range(40 if big else 8):
                    out.append(hcase(t, insts, [rng.randrange(len(insts)) for _ in range(rng.randint(3, 8))], fam))
    return out


# ------------------------------------------------------------------------------------------------ hierarchies of depth >= 3

KS_KINDS = ['fresh', 'same', 'two']


def hierarchy_table(rng, n, root_rev, ks_kind, marker_pos):
    """a hierarchy in which binding subclasses are subclassed AGAIN and the sub class declares `Generic[...]` of its own:

        class Repo(Generic[T1..Tn], GenericMixin)        class Marker        class Marker2
        class UserRepo(Repo[..])                          binds every parameter
        class Cached(UserRepo, Generic[K..])              K: a variable of its own / T1 again / two variables (K, T1)
        class PlainUser(UserRepo)                         plain subclass of the binding subclass
        class Cached2(PlainUser, Generic[K..])            … re-declared over that
        class Twice(Cached[..])                           binds the re-declared parameters
        class Again(Twice, Generic[M])                    depth 5: re-declared once more (M = T1 when K is not, K otherwise)
        class PlainCached(Cached)                         plain subclass of the re-declaring class (only `PlainCached()` exists)
        class OtherRepo(Marker, Repo[..])                 a sibling binding with other arguments
        class Cached3(<Marker2 at marker_pos> OtherRepo, Generic[K..])
        class Final(Again[..])                            depth 6: binds the parameter declared at depth 5

    returns (table, instances)"""
    tvs = list(range(1, n + 1))
    ks = {'fresh': [NTV], 'same': [1], 'two': [NTV, 1]}[ks_kind]
    ms = [NTV] if ks_kind == 'same' else [1]

    def args(k): return [ty(rng.randrange(NVOC)) for _ in range(k)]
    repo, marker, marker2, user, cached, plainuser, cached2, twice, again, plaincached, other, cached3, final = range(LIB, LIB + 13)
    c3 = [PL(other), G(ks)]
    c3.insert(marker_pos, PL(marker2))
    t = [cls_([PL(GM_ID), G(tvs)] if root_rev else [G(tvs), PL(GM_ID)]), cls_([]), cls_([]), cls_([P(repo, args(n))]), cls_([PL(user), G(ks)]),
         cls_([PL(user)]), cls_([PL(plainuser), G(ks)]), cls_([P(cached, args(len(ks)))]), cls_([PL(twice), G(ms)]), cls_([PL(cached)]),
         cls_([PL(marker), P(repo, args(n))]), cls_(c3), cls_([P(again, args(1))])]
    insts = [[repo, args(n)], [repo, None], [user, None], [cached, args(len(ks))], [cached, args(len(ks))], [cached, None],
             [plainuser, None], [cached2, args(len(ks))], [cached2, None], [twice, None], [again, args(1)], [again, None],
             [plaincached, None], [other, None], [cached3, args(len(ks))], [cached3, None], [final, None]]
    return t, insts


def random_hierarchy(rng):
    """a seeded hierarchy grown class by class from one generic root: a class with open parameters is bound (now and then partially),
    a class whose parameters are all bound is subclassed with a `Generic[...]` of its own (own variable or one used further up; the
    declaration before / after the base; a plain mixin somewhere), any class is subclassed plainly — 3 to 9 classes, then 3-9 instances
    and a history of 2-9 queries over them"""
    table = [cls_([])]                              # LIB: a plain mixin
    state = [None]                                  # None | ['open', n] | ['bound'] | ['plainopen']
    marker = LIB
    n = rng.randint(1, 3)
    root = [G(rng.sample(range(1, NTV + 1), n)), PL(GM_ID)]
    if rng.random() < 0.4: root.reverse()
    table.append(cls_(root)); state.append(['open', n])
    for _ in range(rng.randint(2, 7)):
        users = [i for i, st in enumerate(state) if st is not None]
        # prefer the classes created last: deep chains
        b = users[-1] if rng.random() < 0.55 else rng.choice(users)
        st = state[b]; bid = LIB + b
        r = rng.random()
        if st[0] == 'open':
            if r < 0.65:
                bases = [P(bid, [ty(rng.randrange(NVOC)) for _ in range(st[1])])]; new = ['bound']
            elif r < 0.8 and st[1] >= 2:
                keep = rng.randrange(st[1])
                bases = [P(bid, [tv(rng.randint(1, NTV)) if i == keep else ty(rng.randrange(NVOC)) for i in range(st[1])])]; new = ['open', 1]
            else:
                bases = [PL(bid)]; new = ['plainopen']
        else:
            if r < 0.7 or st[0] == 'plainopen' and r < 0.8:
                k = rng.choice([1, 1, 2])
                bases = [PL(bid), G(rng.sample(range(1, NTV + 1), k))]; new = ['open', k]
                if rng.random() < 0.15: bases.reverse()          # mostly refused by the interpreter (MRO)
            else:
                bases = [PL(bid)]; new = list(st)
        if rng.random() < 0.25:
            bases.insert(rng.randrange(len(bases) + 1), PL(marker))
        if valid(table + [cls_(bases)]):
            table.append(cls_(bases)); state.append(new)
    if rng.random() < 0.1:
        for cd in rng.sample(table, rng.randint(1, len(table))):
            cd['eq'] = rng.choice(EQ_KINDS)
        if not valid(table):
            return None
    insts = []
    for i, st in enumerate(state):
        if st is None: continue
        if st[0] == 'open':
            insts.append([LIB + i, [ty(rng.randrange(NVOC)) for _ in range(st[1])]])
            if rng.random() < 0.5: insts.append([LIB + i, None])
        else:
            insts.append([LIB + i, None])
    if len(insts) > 9:
        insts = rng.sample(insts, 9)
    qs = [rng.randrange(len(insts)) for _ in range(rng.randint(2, 9))]
    return hcase(table, insts, qs, 'hier-random')


def hierarchy_cases(rng, tier):
    out = []
    big = tier != 'quick'
    for n in (1, 2):
        for root_rev in (False, True):
            for ks_kind in KS_KINDS:
                t, insts = hierarchy_table(rng, n, root_rev, ks_kind, rng.randrange(3))
                if not valid(t):
                    continue
                fam = 'hier-' + ks_kind
                k = len(insts)
                # every query alone; every ordered pair of instances of the hierarchy — parent first / child first / siblings — with the
                # first one asked again afterwards (enumerated completely for own type variables, a seeded half of the pairs otherwise)
                for i in range(k):
                    out.append(hcase(t, insts, [i], fam))
                pairs = [(i, j) for i in range(k) for j in range(k)]
                if not big and ks_kind != 'fresh':
                    pairs = rng.sample(pairs, len(pairs) // 2)
                for i, j in pairs:
                    out.append(hcase(t, insts, [i, j, i], fam))
                for _ in range(60 if big else 10):
                    out.append(hcase(t, insts, [rng.randrange(k) for _ in range(rng.randint(3, 9))], fam))
    for _ in range(12000 if big else 1500):
        c = random_hierarchy(rng)
        if c is not None:
            out.append(c)
    return out


# ------------------------------------------------------------------------------------------------ decorated cases

MEMBER_POOL = [('FOO', '_foo'), ('BAR', '_bar'), ('BAZ', '_baz'), ('QUX', '_qux')]
FOREIGN = [('ZIP', '_zip'), ('ZAP', '_zap')]
NAMES = ['m0', 'm1', 'm2', 'm3', 'm4', 'm5', '_h0', '_h1', '__call__', '__custom__', '__priv', '_', 'zz_last']
NVALS = 8


def split_name(s):
    u = len(s) - len(s.lstrip('_'))
    return u, s[u:]


class Keys:
    def __init__(self): self.ids = {}
    def __call__(self, s):
        return self.ids.setdefault(s, 100 + len(self.ids))
    def name_of(self, k):
        return next(s for s, i in self.ids.items() if i == k)


class _ProtoHolder:
    pass


def _proto_method():
    class _P:
        def m(*a, **k): return None
    return _P().m


def proto_val(v):
    return 3 if v is None else UNKNOWN_VAL          # None is decorator argument number 3


def intrinsic(proto, values, keys, have=()):
    """[[key, value id]…] for the enum values that `proto` (a stand-in of the same type as the object the scan will meet) answers to by itself"""
    return [[keys(v), proto_val(getattr(proto, v))] for v in values if keys(v) not in have and hasattr(proto, v)]


def deco_case(rng, feat=None):
    """feat: force one near-miss feature (None: only in-vocabulary material, plus whatever `rng` adds rarely)"""
    keys = Keys()
    nm = rng.randint(1, 4)
    members = [list(m) for m in MEMBER_POOL[:nm]]
    if feat == 'collision':
        members[rng.randrange(nm)][1] = members[rng.randrange(nm)][0]         # value == a member *name*
    if feat == 'attrname':
        # value == an attribute name of str / dict / int / functions (`class D(DecoratorType): UP = 'upper'`)
        for i, v in zip(rng.sample(range(nm), rng.choice([1, 1, 2]) if nm > 1 else 1), rng.sample(ATTR_VOCAB, 2)):
            members[i][1] = v
    dunder_values = any(v.startswith('__') for _, v in members)
    # setattr(f, '__name__', value) demands a str: the only str among the decorator arguments is number 5
    str_only = {v for _, v in members if v == '__name__'}
    for _, v in members: keys(v)
    for _, v in FOREIGN: keys(v)
    mkeys = [keys(v) for _, v in members]
    fkeys = [keys(v) for _, v in FOREIGN]
    xns = {}
    oid_counter = [0]
    raised_once = [False]          # dir() order is not modelled: at most one visible raising property per case

    def new_oid():
        oid_counter[0] += 1
        return oid_counter[0] - 1

    def rand_apps(allow_fresh, allow_foreign=True):
        apps = []
        for _ in range(rng.choice([0, 1, 1, 2, 2, 3])):
            r = rng.random()
            k = rng.choice(fkeys) if (allow_foreign and r < 0.1) else (apps[-1][0] if apps and r < 0.3 else rng.choice(mkeys))
            tr = rng.choice(['none', 'none', 'none', 'ident', 'wraps', 'wraps'])
            if allow_fresh and rng.random() < 0.5: tr = 'fresh'
            if dunder_values and tr not in ('none', 'ident'):
                tr = 'none'          # functools.wraps writes __name__ / __doc__ / __wrapped__ itself: not part of the model of transformations
            apps.append([k, 5 if keys.name_of(k) in str_only else rng.randrange(NVALS), tr])
        return apps

    def rand_ns(names, cid):
        ns = []; xs = []
        for nme in names:
            u, st = split_name(nme)
            r = rng.random()
            special = None
            if feat in ('static', 'prop', 'raising', 'holder') and rng.random() < 0.4: special = feat
            if special == 'static':
                ns.append([u, st, ['func', rng.choice(['static', 'cls']), rand_apps(False)]]); xs.append({'async': False})
            elif special == 'prop':
                ns.append([u, st, ['other', new_oid(), []]]); xs.append({'okind': 'prop', 'getter_apps': rand_apps(False)})
            elif special == 'raising' and not raised_once[0]:
                raised_once[0] = u < 2
                ns.append([u, st, ['raising', rng.choice(['ValueError', 'AttributeError', 'KeyError'])]]); xs.append({})
            elif special == 'holder':
                attrs = [[rng.choice(mkeys + fkeys), rng.randrange(NVALS)]] if rng.random() < 0.7 else []
                ns.append([u, st, ['other', new_oid(), attrs]]); xs.append({'okind': rng.choice(['attr', 'prop'])})
            elif r < 0.08:
                ns.append([u, st, ['other', 1000 + rng.randrange(2), []]]); xs.append({'okind': 'const'})
            else:
                dunder_decorated = feat == 'dunder'
                apps = rand_apps(feat == 'fresh')
                if u >= 2 and not dunder_decorated and rng.random() < 0.5:
                    apps = [a for a in apps if a[0] not in mkeys]
                ns.append([u, st, ['func', 'inst', apps]]); xs.append({'async': rng.random() < 0.35})
        xns[cid] = xs
        return ns

    pool = list(NAMES)
    if feat != 'dunder' and rng.random() < 0.5:
        pool = [n for n in pool if not n.startswith('__')] + ['__custom__']
    rng.shuffle(pool)
    nbase = rng.randint(0, 6)
    base_names = pool[:nbase]
    table = []
    wdm_arg = [ty(ENUM_TY)]
    shape = rng.choice(['base', 'base', 'sub', 'sub', 'mixin-first', 'mixin-last', 'sub2'])
    if feat == 'unparam': shape = 'unparam'
    if feat == 'nonenum': wdm_arg = [ty(0)]
    if shape in ('mixin-first', 'mixin-last'):
        mn = pool[nbase:nbase + rng.randint(1, 3)] + ([base_names[0]] if base_names and rng.random() < 0.5 else [])
        table.append(cls_([], rand_ns(mn, LIB)))
        b = [P(WDM_ID, wdm_arg), PL(LIB)] if shape == 'mixin-last' else [PL(LIB), P(WDM_ID, wdm_arg)]
        table.append(cls_(b, rand_ns(base_names, LIB + 1)))
        inst = LIB + 1
    elif shape == 'unparam':
        table.append(cls_([PL(WDM_ID)], rand_ns(base_names, LIB))); inst = LIB
    else:
        table.append(cls_([P(WDM_ID, wdm_arg)], rand_ns(base_names, LIB))); inst = LIB
        if shape in ('sub', 'sub2'):
            over = [n for n in base_names if rng.random() < 0.4]
            new = pool[nbase:nbase + rng.randint(0, 2)]
            table.append(cls_([PL(LIB)], rand_ns(over + new, LIB + 1))); inst = LIB + 1
            if shape == 'sub2':
                over2 = [n for n in base_names + new if rng.random() < 0.25]
                table.append(cls_([PL(LIB + 1)], rand_ns(over2, LIB + 2))); inst = LIB + 2
    values = [v for _, v in members]
    proto_enum = enum_mod.StrEnum('D', [(n, v) for n, v in members])
    clsattrs = [[keys(n), MEMBER_VAL + i] for i, (n, _) in enumerate(members)]
    enum = {'members': mkeys, 'clsattrs': clsattrs + intrinsic(proto_enum, values, keys, have=[k for k, _ in clsattrs]),
            'strattrs': intrinsic('', values, keys), 'dictattrs': intrinsic({}, values, keys),
            'fnattrs': intrinsic(_proto_method(), values, keys)}
    # the other objects of the namespaces carry what their type defines as well
    for cd in table:
        for u, st, m in cd['ns']:
            if m[0] == 'other':
                proto = {1000: 42, 1001: 'const'}.get(m[1], _ProtoHolder())
                m[2] += intrinsic(proto, values, keys, have=[k for k, _ in m[2]])
    # the instance `__dict__`: `self.cb = decorated_function` / `self.helper = some_object` in `__init__`; a name may shadow a method
    inst_entries = []
    if feat == 'instattr' or rng.random() < 0.06:
        methods = sorted({'_' * u + st for cd in table for u, st, m in cd['ns'] if m[0] == 'func' and m[1] == 'inst'}
                         - {'_' * u + st for cd in table for u, st, m in cd['ns'] if not (m[0] == 'func' and m[1] == 'inst')})
        cand = ['cb0', 'cb1', '_cb', '__cbd'] + methods
        for nme in rng.sample(cand, min(len(cand), rng.randint(1, 3))):
            u, st = split_name(nme)
            r = rng.random()
            if r < 0.6:
                apps = [[rng.choice(mkeys if rng.random() < 0.6 else fkeys), 5 if dunder_values else rng.randrange(NVALS), 'none']
                        for _ in range(rng.choice([0, 1, 1, 2]))]
                inst_entries.append([u, st, ['fn', len(inst_entries), apps]])
            else:
                attrs = [[rng.choice(mkeys + fkeys), rng.randrange(NVALS)]] if rng.random() < 0.5 else []
                attrs += intrinsic(_ProtoHolder(), values, keys, have=[k for k, _ in attrs])
                inst_entries.append([u, st, ['obj', new_oid(), attrs]])
    # configured decorators that are STORED and applied later (`get_index = route('/index'); get_about = route('/about'); @get_index def index`):
    # the factory calls of the program are made first, in the order of `confs`; ["conf", k] applies the k-th of them; the applications left as
    # [type, value, transformation] call the (shared) factory on the spot, between the applications of stored ones
    confs = []
    style = 'fresh'                     # every application makes its own factory: create_decorator(type, tr)(value)(f)
    if feat == 'stored' or rng.random() < 0.4:
        style = 'shared'                # one factory per (type, transformation), as a program that defines `foo = create_decorator(..)` once
        chosen = []
        for cd in table:
            for entry in cd['ns']:
                if entry[2][0] == 'func':
                    for app in entry[2][2]:
                        if rng.random() < (0.8 if feat == 'stored' else 0.5):
                            chosen.append(app)
        pool = [list(a) for a in chosen]
        for a in chosen:                # the same factory called again with another argument, never applied / applied elsewhere
            if rng.random() < (0.7 if feat == 'stored' else 0.3):
                pool.append([a[0], (a[1] + 1 + rng.randrange(NVALS - 1)) % NVALS, a[2]])
        order = list(range(len(pool)))
        rng.shuffle(order)
        confs = [pool[i] for i in order]
        where = {i: k for k, i in enumerate(order)}
        for i, a in enumerate(chosen):
            a[:] = ['conf', where[i]]
    # an unrelated mixin with class-creation hooks next to WithDecoratedMethods[...]
    if shape in ('mixin-first', 'mixin-last') and rng.random() < 0.4:
        table[0]['hook'] = rng.choice(['nochain', 'chain'])
    return {'m': 'mixins',
            'c': {'k': 'decorated', 'table': table, 'cls': inst, 'orig': None, 'enums': [[ENUM_TY, enum]], 'confs': confs,
                  'inst': inst_entries},
            'x': {'fam': 'deco-' + (feat or 'plain') + '-' + shape, 'members': members, 'foreign': FOREIGN, 'style': style,
                  'keys': {str(v): k for k, v in keys.ids.items()}, 'ns': {str(k): v for k, v in xns.items()}}}


FEATS = [None] * 10 + ['collision', 'static', 'prop', 'raising', 'holder', 'dunder', 'fresh', 'unparam', 'nonenum', 'stored', 'stored', 'stored',
                       'attrname', 'attrname', 'instattr', 'instattr']


def deco_cases(rng, tier):
    n = 60000 if tier != 'quick' else 8000
    return [deco_case(rng, rng.choice(FEATS)) for _ in range(n)]


def cases(rng, tier):
    return generic_cases(rng, tier) + history_cases(rng, tier) + hierarchy_cases(rng, tier) + deco_cases(rng, tier)


def search(rng, tier, near):
    out = []
    for _ in range(3000):
        c = random_table(rng)
        if c is not None: out.append(c)
    out += [deco_case(rng, rng.choice(FEATS)) for _ in range(3000)]
    out += history_cases(rng, 'quick')
    out += hierarchy_cases(rng, 'quick')
    return out


# ------------------------------------------------------------------------------------------------ implementation side

def exc_name(e):
    return type(e).__name__


def run_impl(cases):
    return [run_one(c) for c in cases]


def enc_targ(v, w, enum_objs):
    for i, t in enumerate(w.tvs):
        if v is t: return ['tv', i]
    if enum_objs:
        for tid, e in enum_objs.items():
            if v is e: return ['ty', tid]
    for i, t in enumerate(w.vocab):
        if v is t: return ['ty', i]
    for i, t in enumerate(w.vocab):
        try:
            if v == t: return ['ty', i]
        except Exception:
            pass
    if isinstance(v, typing.TypeVar) and v.__name__ == 'E':
        return ['tv', 0]
    return ['ty', -1, type(v).__name__]


def query(inst, w, enum_objs):
    out = {}
    try:
        r = inst.type_vars
        out['type_vars'] = ['ok', [[enc_targ(k, w, enum_objs), enc_targ(v, w, enum_objs)] for k, v in r.items()]]
    except BaseException as e:
        out['type_vars'] = ['raised', exc_name(e)]
    try:
        out['type_var'] = ['ok', enc_targ(inst.type_var, w, enum_objs)]
    except BaseException as e:
        out['type_var'] = ['raised', exc_name(e)]
    return out


def run_history(case):
    """all instances are created first, then queried one after the other in the order of the case"""
    c = case['c']
    w = _W.get()
    try:
        subs, clss = build_classes(c['table'])
    except BaseException as e:
        return {'invalid': exc_name(e)}
    known = {id(k): i for i, k in enumerate(clss)}
    insts = []
    try:
        for cid, orig in c['insts']:
            cls = clss[cid]
            if orig is not None:
                args = tuple(targ_obj(a) for a in orig)
                insts.append((cls[args] if len(args) != 1 else cls[args[0]])())
            else:
                insts.append(cls())
    except BaseException as e:
        return {'invalid': 'instantiate:' + exc_name(e)}
    if not all(hasattr(type(i), 'type_vars') for i in insts):
        return {'invalid': 'not a GenericMixin'}
    return {'mros': [[known[id(k)] for k in type(i).__mro__ if id(k) in known] for i in insts],
            'hist': [query(insts[i], w, {}) for i in c['qs']]}


def run_one(case):
    c = case['c']; x = case.get('x', {})
    if c['k'] == 'history':
        return run_history(case)
    w = _W.get()
    out = {}
    deco = c['k'] == 'decorated'
    enum_objs = {}
    ctx = None
    try:
        if deco:
            ctx = DecoCtx(case)
            enum_objs = {ENUM_TY: ctx.D}
        subs, clss = build_classes(c['table'], ns_builder=(ctx.build_ns if deco else None), enum_objs=enum_objs)
    except BaseException as e:
        return {'invalid': exc_name(e)}
    cls = clss[c['cls']]
    try:
        if c['orig'] is not None:
            args = tuple(targ_obj(a) for a in c['orig'])
            inst = (cls[args] if len(args) != 1 else cls[args[0]])()
        else:
            inst = cls()
    except BaseException as e:
        return {'invalid': 'instantiate:' + exc_name(e)}
    known = {id(k): i for i, k in enumerate(clss)}
    out['mro'] = [known[id(k)] for k in type(inst).__mro__ if id(k) in known]
    if not hasattr(type(inst), 'type_vars'):
        return {'invalid': 'not a GenericMixin'}
    if x.get('prime'):
        prime_queries(clss, c, w)
    try:
        r = inst.type_vars
        out['type_vars'] = ['ok', [[enc_targ(k, w, enum_objs), enc_targ(v, w, enum_objs)] for k, v in r.items()]]
    except BaseException as e:
        out['type_vars'] = ['raised', exc_name(e)]
    try:
        out['type_var'] = ['ok', enc_targ(inst.type_var, w, enum_objs)]
    except BaseException as e:
        out['type_var'] = ['raised', exc_name(e)]
    if deco:
        try:
            r = inst.get_decorated_functions()
            out['deco'] = ['ok', ctx.encode_result(r, inst, clss)]
        except BaseException as e:
            out['deco'] = ['raised', exc_name(e)]
        out['calls'] = ctx.encode_calls()
    return out


class Holder:
    pass


class DecoCtx:
    """concretises the namespaces of a decorated-methods case and canonicalises what comes back"""

    def __init__(self, case):
        from pedantic.mixins.with_decorated_methods import DecoratorType, create_decorator
        self.create_decorator = create_decorator
        x = case['x']
        self.keystr = {int(k): s for k, s in x['keys'].items()}
        self.D = DecoratorType('D', [(n, v) for n, v in x['members']])
        self.F = DecoratorType('F', [(n, v) for n, v in x['foreign']])
        self.member_by_key = {}
        strkey = {s: k for k, s in self.keystr.items()}
        for m in list(self.F) + list(self.D):
            self.member_by_key[strkey[str(m.value)]] = m
        self.strkey = strkey
        def _argfn(f): return f
        # decorator arguments: opaque objects, None, 0, a str, a tuple - and two that are themselves plain functions (`@on_error(use_default)`):
        # what is decorated is the method under the `@` line, whatever the argument is
        self.vals = [object(), _argfn, object(), None, 0, 'x', (1, 2), (lambda *a, **k: None)]
        self.objs = {1000: 42, 1001: 'const'}
        self.xns = {int(k): v for k, v in x['ns'].items()}
        self.chains = {}             # (cid, unders, stem) -> [function objects: def, wrapper 1, …]
        self.calls = {}              # (cid, unders, stem) -> [received args]
        self.holder_attrs_done = set()
        self.style = x.get('style', 'fresh')
        self.factories = {}          # (key, transformation kind) -> the one factory a program defines for it
        self.orphan_calls = []       # transformation calls whose function argument belongs to no known function
        self.inst_cls = case['c']['cls']
        self.inst_entries = case['c'].get('inst', [])
        self.ifuncs = {}             # fid -> [function objects] of the functions stored in the instance __dict__
        # the factory calls of the program, in order: configured decorators that are stored
        self.stored = [self.factory_for(k, trk)(self.vals[v]) for k, v, trk in case['c'].get('confs', [])]

    def factory_for(self, k, trk):
        if (k, trk) not in self.factories:
            member = self.member_by_key[k]
            tr = None if trk == 'none' else self.transformation(trk, None)
            self.factories[(k, trk)] = self.create_decorator(member, tr) if tr is None else \
                self.create_decorator(decorator_type=member, transformation=tr)
        return self.factories[(k, trk)]

    def site_of(self, f):
        for site, chain in self.chains.items():
            if any(g is f for g in chain):
                return site
        return None

    def mkfunc(self, name, is_async):
        if is_async:
            async def m(*a, **k): return None
        else:
            def m(*a, **k): return None
        m.__name__ = name; m.__qualname__ = name
        return m

    def transformation(self, kind, site):
        """site None: a transformation shared by all applications of one factory — the method it is applied to is found through the function"""
        def tr(*args, **kwargs):
            f = args[0] if args and callable(args[0]) and not isinstance(args[0], str) else next(
                (a for a in list(args) + list(kwargs.values()) if inspect.isfunction(a)), None)
            st = site if site is not None else self.site_of(f)
            if st is None:
                self.orphan_calls.append((args, kwargs))
                return f
            chain = self.chains[st]; log = self.calls[st]
            log.append((args, kwargs))
            if kind == 'ident' or f is None:
                return f
            if inspect.iscoroutinefunction(f):
                async def wrapper(*a, **k): return await f(*a, **k)
            else:
                def wrapper(*a, **k): return f(*a, **k)
            if kind == 'wraps':
                wrapper = functools.wraps(f)(wrapper)
            else:
                wrapper.__name__ = getattr(f, '__name__', 'w')
            chain.append(wrapper)
            return wrapper
        return tr

    def apply(self, f, apps, site):
        for app in apps:
            if app[0] == 'conf':
                f = self.stored[app[1]](f)               # a configured decorator made earlier, applied now
                continue
            k, v, trk = app
            if self.style == 'shared':
                f = self.factory_for(k, trk)(self.vals[v])(f)      # `@foo(v)`: the program's one factory, called on the spot
                continue
            member = self.member_by_key[k]
            tr = None if trk == 'none' else self.transformation(trk, site)
            f = self.create_decorator(member, tr)(self.vals[v])(f) if tr is None else \
                self.create_decorator(decorator_type=member, transformation=tr)(self.vals[v])(f)
        return f

    def build_ns(self, cid, cd):
        ns = {}
        xs = self.xns.get(cid, [])
        for (u, st, m), xe in zip(cd['ns'], xs):
            name = '_' * u + st
            site = (cid, u, st)
            if m[0] == 'func':
                f0 = self.mkfunc(name, xe.get('async', False))
                self.chains[site] = [f0]; self.calls[site] = []
                f = self.apply(f0, m[2], site)
                ns[name] = {'inst': f, 'static': staticmethod(f), 'cls': classmethod(f)}[m[1]]
            elif m[0] == 'raising':
                exc = {'ValueError': ValueError, 'AttributeError': AttributeError, 'KeyError': KeyError}[m[1]]
                def getter(self_, exc=exc): raise exc('boom')
                ns[name] = property(getter)
            else:
                o = self.objs.setdefault(m[1], Holder())
                for k, v in m[2]:
                    if v == UNKNOWN_VAL or isinstance(o, (int, str)):
                        continue         # what the object's type defines by itself (listed in the case, not set by the program)
                    setattr(o, self.keystr[k], self.vals[v])
                kind = xe.get('okind', 'attr')
                if kind == 'prop':
                    def getter(self_, o=o): return o
                    getter.__name__ = name
                    # a decorated getter: the function carries attributes, the property's *value* does not
                    for k, v, _ in xe.get('getter_apps', []):
                        getter = self.create_decorator(self.member_by_key[k])(self.vals[v])(getter)
                    ns[name] = property(getter)
                else:
                    ns[name] = o
        if cid == self.inst_cls and self.inst_entries:
            # the instance __dict__: functions defined outside the classes (decorated there) and other objects, stored by __init__
            entries = []
            for u, st, v in self.inst_entries:
                if v[0] == 'fn':
                    f0 = self.mkfunc('_' * u + st, False)
                    self.ifuncs[v[1]] = [f0]
                    f = f0
                    for k, val, _ in v[2]:
                        f = self.create_decorator(self.member_by_key[k])(self.vals[val])(f)
                    entries.append(('_' * u + st, f))
                else:
                    o = self.objs.setdefault(v[1], Holder())
                    for k, val in v[2]:
                        if val != UNKNOWN_VAL:       # (UNKNOWN_VAL: what the object's type defines by itself — listed, not set)
                            setattr(o, self.keystr[k], self.vals[val])
                    entries.append(('_' * u + st, o))

            def __init__(self_, entries=entries):
                for nme, val in entries:
                    setattr(self_, nme, val)
            ns['__init__'] = __init__
        return ns

    def enc_val(self, v):
        for i, o in enumerate(self.vals):
            if v is o: return i
        for i, m in enumerate(self.D):
            if v is m: return MEMBER_VAL + i
        return UNKNOWN_VAL

    def enc_attr(self, a, inst, clss):
        if a is self.D:
            return ['typeArg', ['ty', ENUM_TY]]
        if a is type(inst).__name__:
            return ['className']
        if isinstance(a, str) and hasattr(inst, a):
            return ['nameStr', *split_name(a)]
        func = None; tag = None
        if inspect.ismethod(a):
            func = a.__func__
            tag = 'bound' if a.__self__ is inst else ('clsBound' if a.__self__ is type(inst) else 'boundElsewhere')
        elif inspect.isfunction(a):
            func = a; tag = 'plainFn'
        if func is not None:
            for site, chain in self.chains.items():
                for g, f in enumerate(chain):
                    if f is func:
                        return [tag, site[0], site[1], site[2], g]
            for fid, chain in self.ifuncs.items():
                for g, f in enumerate(chain):
                    if f is func and tag == 'plainFn':
                        return ['instFn', fid, g]
            for cid, k in enumerate(clss[:LIB]):                 # a method of a library class (`_get_types`, `get_decorated_functions`)
                for nme, val in vars(k).items():
                    if val is func:
                        return [tag, cid, *split_name(nme), 0]
            return [tag, -1, 0, getattr(func, '__name__', '?'), 0]
        for i, o in self.objs.items():
            if a is o: return ['obj', i]
        return ['unknown', type(a).__name__]

    def encode_result(self, r, inst, clss):
        out = []
        for t, d in r.items():
            k = self.strkey.get(str(t.value) if hasattr(t, 'value') else str(t), -1)
            if not any(t is m for m in self.D): k = -1
            out.append([k, sorted(([self.enc_attr(a, inst, clss), self.enc_val(v)] for a, v in d.items()), key=json.dumps)])
        return out

    def encode_calls(self):
        out = []
        for site in self.chains:
            chain = self.chains[site]
            entries = []
            for args, kwargs in self.calls[site]:
                e = []
                for a in args:
                    g = [i for i, f in enumerate(chain) if f is a]
                    if g: e.append(['fn', g[0]])
                    elif any(a is m for m in list(self.D) + list(self.F)): e.append(['ty', self.strkey[str(a.value)]])
                    elif self.enc_val(a) != UNKNOWN_VAL: e.append(['val', self.enc_val(a)])
                    else: e.append(['?', type(a).__name__])
                if kwargs: e.append(['kwargs', sorted(kwargs)])
                entries.append(e)
            out.append([site[0], site[1], site[2], entries])
        if self.orphan_calls:
            out.append([-1, 0, '<a transformation received a function that is no method of the program>', [[len(self.orphan_calls)]]])
        return sorted(out, key=json.dumps)


# ------------------------------------------------------------------------------------------------ verdict

def norm_model_res(r):
    """model `["ok", x] | ["raised", site, exc]` -> comparable with the implementation's `["ok", x] | ["raised", exc]`"""
    return ['ok', r[1]] if r[0] == 'ok' else ['raised', r[2]]


def as_map(pairs):
    return sorted((json.dumps(k), json.dumps(v)) for k, v in pairs)


def render(c):
    """the program of a case, as Python text (for messages only)"""
    lib = {0: 'Generic', 1: 'GenericMixin', 2: 'ABC', 3: 'WithDecoratedMethods'}

    def cn(i): return lib.get(i, f'C{i}')

    def ta(a): return (f'T{a[1]}' if a[0] == 'tv' else (VOCAB_SRC[a[1]] if a[1] < NVOC else f'X{a[1]}'))

    def base(b):
        if b[0] == 'generic': return 'Generic[' + ', '.join(f'T{i}' for i in b[1]) + ']'
        if b[0] == 'param': return cn(b[1]) + '[' + ', '.join(ta(a) for a in b[2]) + ']'
        return cn(b[1])
    decl = '; '.join(f"class C{LIB + k}({', '.join(base(b) for b in cd['bases'])})" + ((' <subscribed like typing.Sequence, no __orig_bases__>' if cd.get('cgi') == 'typing' else ' <subscriptable like list, no __orig_bases__>')
                        if cd.get('cgi') else '') + (f" <instances: {cd['eq']}>" if cd.get('eq') else '') + (f" <hook: {cd['hook']}>" if cd.get('hook') else '')
                     for k, cd in enumerate(c['table']))
    inst = cn(c['cls']) + ('[' + ', '.join(ta(a) for a in c['orig']) + ']' if c['orig'] is not None else '') + '()'
    return f'{decl}; {inst}'


def spec_fail(spec, tvs, one):
    """does the implementation's answer (type_vars, type_var) violate what the specification demands?"""
    if spec[0] == 'ok':
        if tvs[0] != 'ok' or as_map(tvs[1]) != as_map(spec[1]):
            return f"type_vars is {tvs} but the declarations say {spec[1]}"
        if len(spec[1]) == 1 and one != ['ok', spec[1][0][1]]:
            return f"type_var is {one} but the single type argument is {spec[1][0][1]}"
        if len(spec[1]) != 1 and one != ['raised', 'AssertionError']:
            return f"type_var is {one} although the class has {len(spec[1])} type parameters (AssertionError expected)"
    elif spec[0] == 'mustAssert':
        if tvs != ['raised', 'AssertionError'] or one != ['raised', 'AssertionError']:
            return f"non-generic class / unparametrised instance: expected AssertionError, got type_vars={tvs} type_var={one}"
    return None


def judge_history(case, impl, model, fam):
    c = case['c']
    why = []
    pfail = None
    if not model.get('issub_ok', True): why.append('model: issubclass by reachability differs from membership in the computed MRO')
    if impl['mros'] != model['mros']: why.append(f"__mro__ {impl['mros']} vs model {model['mros']}")
    tags = set()
    for k, (qi, a, m) in enumerate(zip(c['qs'], impl['hist'], model['hist'])):
        if m['model'] is None:
            # the model is instantiated with a source that writes state: it abstains from the second query on
            why.append(f"query {k} (instance {qi}): no prediction — the library source can leave state behind between two queries: "
                       f"{model.get('left_behind')}")
            tags.add(f"{m['kind']}/abstains")
        else:
            m_tv = norm_model_res(m['model']); m_one = norm_model_res(m['type_var'])
            if a['type_vars'] != m_tv: why.append(f"query {k} (instance {qi}): type_vars {a['type_vars']} vs model {m_tv}")
            if a['type_var'] != m_one: why.append(f"query {k} (instance {qi}): type_var {a['type_var']} vs model {m_one}")
            tags.add(f"{m['kind']}/{m['model'][0] if m['model'][0] == 'ok' else m['model'][1]}")
        f = spec_fail(m['spec'], a['type_vars'], a['type_var'])
        if f and pfail is None:
            cid, orig = c['insts'][qi]
            asked = [render({'table': c['table'], 'cls': c['insts'][j][0], 'orig': c['insts'][j][1]}).rsplit('; ', 1)[1] for j in c['qs'][:k]]
            pfail = (f"{render({'table': c['table'], 'cls': cid, 'orig': orig})} — query {k} of the history, after queries on "
                     f"{asked if asked else 'nothing'} (instances created beforehand: {len(c['insts'])}): {f}")
    return {'corr': not why, 'pfail': pfail, 'nontrivial': any(a['type_vars'][0] == 'ok' for a in impl['hist']),
            'tag': fam + '/' + ('+'.join(sorted(tags)) if len(tags) <= 3 else 'mixed'),
            'why': '; '.join(why[:4])}


FINDING_REGIONS = ['transformationDropsDecoratorAttribute', 'enumValueNamesFunctionSlot']
METHOD_TAGS = ('bound', 'clsBound', 'plainFn')      # how the instance sees a plain / class / static method of one of its classes


def method_entries(d):
    """entries of one member's dict that are methods of a class of the program, as [tag, class, unders, stem, value]"""
    return sorted([[a[0], a[1], a[2], a[3], v] for a, v in d if a[0] in METHOD_TAGS and a[1] >= 0], key=json.dumps)


def deviations(impl_deco, spec_deco):
    """how does the answer of the implementation leave what the spec lists?  -> [(text, regions the deviation can belong to)…], every
    deviation there is"""
    if impl_deco[0] != 'ok':
        return [(f"get_decorated_functions raised {impl_deco[1]}", [])]
    want = {k: sorted([list(e) for e in d], key=json.dumps) for k, d in spec_deco}
    got = {k: method_entries(d) for k, d in impl_deco[1]}
    if list(got) != list(want):
        return [(f"members reported {list(got)}, members of the enum {list(want)}", [])]
    out = []
    for k, d in impl_deco[1]:
        for a, v in d:
            if not (a[0] in METHOD_TAGS and a[1] >= 0):
                out.append((f"member {k}: {a} reported — no method of a class of the program", []))
    lost = ['transformationDropsDecoratorAttribute', 'enumValueNamesFunctionSlot']
    for k in want:
        w = {json.dumps(e[:4]): e[4] for e in want[k]}
        g = {json.dumps(e[:4]): e[4] for e in got[k]}
        for key, v in w.items():
            if key not in g:
                out.append((f"member {k}: decorated method {key} (value {v}) is missing", lost))
            elif g[key] != v:
                out.append((f"member {k}: method {key} reported with value {g[key]}, decorated with {v}", lost))
        for key, v in g.items():
            if key not in w:
                out.append((f"member {k}: method {key} reported (value {v}) although it was not decorated with this member / is not seen "
                            f"like that through the instance", []))
    return out


def judge(case, impl, model):
    fam = case.get('x', {}).get('fam', '?')
    if 'invalid' in impl:
        return {'corr': True, 'pfail': None, 'nontrivial': False, 'tag': 'invalid:' + fam.split('-')[0], 'why': ''}
    if case['c']['k'] == 'history':
        return judge_history(case, impl, model, fam)
    why = []
    if not model.get('issub_ok', True): why.append('model: issubclass by reachability differs from membership in the computed MRO')
    m_tv = norm_model_res(model['model']); m_one = norm_model_res(model['type_var'])
    if impl['type_vars'] != m_tv: why.append(f"type_vars {impl['type_vars']} vs model {m_tv}")
    if impl['type_var'] != m_one: why.append(f"type_var {impl['type_var']} vs model {m_one}")
    if impl['mro'] != model['mro']: why.append(f"__mro__ {impl['mro']} vs model {model['mro']}")
    pfail = spec_fail(model['spec'], impl['type_vars'], impl['type_var'])
    finding = None
    if pfail is not None:
        pfail = f"{render(case['c'])}: {pfail}"
    tag = f"{fam}/{model['kind']}/{model['model'][0] if model['model'][0] == 'ok' else model['model'][1]}"
    nontrivial = impl['type_vars'][0] == 'ok'
    if case['c']['k'] == 'decorated':
        md = model['deco']
        m_deco = ['ok', [[k, sorted(d, key=json.dumps)] for k, d in md[1]]] if md[0] == 'ok' else ['raised', md[2]]
        if impl['deco'] != m_deco: why.append(f"get_decorated_functions {impl['deco']} vs model {m_deco}")
        m_calls = sorted(model['calls'], key=json.dumps)
        if impl['calls'] != m_calls: why.append(f"transformation calls {impl['calls']} vs model {m_calls}")
        s_calls = sorted(model['spec_calls'], key=json.dumps)
        if pfail is None and impl['calls'] != s_calls:
            pfail = f"a transformation did not receive (function, type, value): {impl['calls']} expected {s_calls}"
        napps = sum(len(m[2][2]) for cd in case['c']['table'] for m in cd['ns'] if m[2][0] == 'func')
        nontrivial = napps > 0
        if model['guard'] and pfail is None:
            if impl['deco'][0] != 'ok':
                pfail = f"get_decorated_functions raised {impl['deco'][1]}"
            else:
                want = [[k, sorted([list(e) for e in d], key=json.dumps)] for k, d in model['spec_deco']]
                got = [[k, method_entries(d)] for k, d in impl['deco'][1]]
                extra = [a for k, d in impl['deco'][1] for a, v in d if not (a[0] in METHOD_TAGS and a[1] >= 0)]
                if got != want:
                    pfail = f"decorated methods reported {got}, decorated in the program {want}"
                elif extra:
                    pfail = f"objects that are no methods of the instance reported: {extra}"
        tag = f"{fam}/{'guard' if model['guard'] else 'outside'}/{md[0] if md[0] == 'ok' else md[1]}"
        if not model['guard'] and pfail is None and model.get('spec_deco') is not None:
            # outside the guard: the property still demands "exactly the decorated bound methods"; where the implementation leaves that,
            # the failure belongs to a named region (`guardRegions` of the spec) — a finding as long as the model says the same
            devs = deviations(impl['deco'], model['spec_deco'])
            if devs:
                # what the model of the unchanged code does in this region is the recorded finding; a deviation of the implementation
                # that the model does not show is a failure of its own — it is the one reported
                known = {t for t, _ in deviations(m_deco, model['spec_deco'])}
                fresh = [d for d in devs if d[0] not in known]
                dev = (fresh or devs)[0]
                pfail = f"{dev[0]} (regions of the program: {model.get('regions')})"
                cands = [r for r in dev[1] if r in (model.get('regions') or [])]
                if not fresh and cands:
                    finding = cands[0]       # (a difference to the model that is no deviation from the spec stays a correspondence break)
                elif fresh:
                    pfail += f"; the unchanged code does not do that: it answers {m_deco}"
                tag += '/' + (finding or 'unclassified')
        if not model.get('closures_modelled', True) and case['c'].get('confs'):
            why.append('the model makes no prediction about stored configured decorators: the source writes shared state / rebinds a captured name')
    return {'corr': not why, 'pfail': pfail, 'finding': finding, 'nontrivial': nontrivial, 'tag': tag, 'why': '; '.join(why)}


def extra_coverage(results):
    reported = {}
    for (c, i, m, j) in results:
        if 'invalid' in i: continue
        if c['c']['k'] == 'history':
            continue
        if c['c']['k'] == 'generic' and m['spec'][0] == 'unsupported':
            key = 'unsupported-shape:' + c['x']['fam'] + ':' + (i['type_vars'][0] if i['type_vars'][0] == 'ok' else i['type_vars'][1])
            reported[key] = reported.get(key, 0) + 1
        if c['c']['k'] == 'decorated' and not m['guard']:
            same = False
            if m.get('spec_deco') is not None and i['deco'][0] == 'ok':
                want = [[k, sorted([list(e) for e in d], key=json.dumps)] for k, d in m['spec_deco']]
                got = [[k, method_entries(d)] for k, d in i['deco'][1]]
                same = got == want and not any(not (a[0] in METHOD_TAGS and a[1] >= 0) for k, d in i['deco'][1] for a, v in d)
            key = 'outside-guard:' + c['x']['fam'].split('-')[1] + ':' + ('as-spec' if same else 'deviates')
            reported[key] = reported.get(key, 0) + 1
    sites = {}
    for (c, i, m, j) in results:
        if 'invalid' in i: continue
        for key in ('model', 'type_var', 'deco'):
            if key in m:
                k = key + ':' + (m[key][0] if m[key][0] == 'ok' else m[key][1] + '/' + m[key][2])
                sites[k] = sites.get(k, 0) + 1
    return {'reported_only': dict(sorted(reported.items())), 'model_branches': dict(sorted(sites.items()))}


# ------------------------------------------------------------------ twins for the amplified run (core.amplified_run, props/_twins.py)

def prime_queries(clss, c, w):
    """decoy queries before the query of the case: instances of the SAME class with other type arguments (each argument moved to the next
    vocabulary entry) and without arguments, and instances of every other class of the table (subclasses / bases of it); results ignored"""
    def ask(make):
        try:
            i = make()
            for attr in ('type_vars', 'type_var'):
                try:
                    getattr(i, attr)
                except BaseException:
                    pass
            if hasattr(i, 'get_decorated_functions'):
                try:
                    i.get_decorated_functions()
                except BaseException:
                    pass
        except BaseException:
            pass
    cls = clss[c['cls']]
    if c.get('orig') is not None:
        for shift in (1, 2):
            args = tuple(targ_obj(['ty', (a[1] + shift) % NVOC]) if a[0] == 'ty' and a[1] < NVOC else targ_obj(a) for a in c['orig'])
            if args:
                ask(lambda: (cls[args] if len(args) != 1 else cls[args[0]])())
    ask(lambda: cls())
    for other in clss[LIB:]:
        if other is not cls and isinstance(other, type):
            ask(lambda: other())
            n = len(getattr(other, '__parameters__', ()))
            if n:
                args = tuple(w.vocab[(k + 3) % NVOC] for k in range(n))
                ask(lambda: (other[args] if n != 1 else other[args[0]])())


def twins(case):
    """primed twin of a single-query case: the query is preceded by queries on other instances of the same class (other type arguments)
    and on instances of the other classes of the table; the expected outcome is the one of the case itself"""
    c = case['c']
    if c.get('k') == 'history' or case.get('x', {}).get('prime'):
        return []
    return [dict(case, x=dict(case.get('x') or {}, prime=['other_instances']))]
