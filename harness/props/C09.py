"""C09 — ENABLE_PEDANTIC switch: op sequences (setenv / unsetenv / enable_pedantic / disable_pedantic / obtain a decorator /
decorate / apply / decorate the same function object again / call / derive a sub class of a decorated class / reach an
(inherited) member through a class object or an instance) run against the real library and against the Lean state machine +
specification.  Decoration targets are ordinary functions / classes AND objects the decorators are not made for ("odd": a function
made with exec — no source text —, a builtin, a functools.partial, an instance with __call__, a lambda, a bound method, a
staticmethod / classmethod object, a function without annotations, a function whose docstring contradicts its signature, a class made with exec, an Enum, a dataclass, a builtin
type; a class handed to a function decorator, a function handed to a class decorator): switched off, the very object must come
back whatever it is; switched on, neither model nor specification say anything about such an object."""
import os, sys, io, itertools, json, contextlib, tempfile, shutil, types, asyncio, inspect

RULE = ('exhaustive: every op sequence of length <= 4 over the reduced alphabet {unsetenv, enable_pedantic, disable_pedantic, the seven '
        'decorators applied to a documented function/class, call first/last result positionally, call last result conformingly} from an '
        'unset variable (length <= 3: also from "0" and "1"); every sequence of length <= 4 over {enable, disable, obtain one of 5 '
        'decorators, apply the first one obtained, call the latest result}; the full grid initial value (unset, "0", "1" + 9 other strings) x 11 decorators '
        '(for_all_methods with pedantic / pedantic_require_docstring / trace / timer / a harness decorator) x 4 target shapes x every '
        'spelling x {no toggle, opposite toggle} x 3 call kinds; the factory grid (decorator obtained, switch toggled, applied, toggled, '
        'called); decorating the SAME function object again (redecorate / reapply: f2 = pedantic(f); ...; f3 = pedantic(f)): every sequence of length <= 4 '
        'over {enable, disable, unsetenv, pedantic / pedantic_require_docstring on a fresh function, the same two on the first / latest function '
        'object again (spellings rotating), obtain pedantic(), apply it to the first function object again, call first / latest result} from an unset variable (length <= 3: '
        'also from "0" and "1"), and the grid initial value x first decorator x spelling x 4 function shapes x {no toggle, opposite toggle} x second decorator x '
        'spelling, with all call kinds on both results, a second toggle and a third decoration; SUB CLASSES of decorated classes and inherited members '
        '(subclass / callm: instance method, class method, static method, property getter and setter, reached through the class object and through a new '
        'instance, of the decorated class and of classes derived from it at any depth): every sequence of length <= 4 over {enable, disable, three class '
        'decorators on a class with all member kinds, derive from the first / the latest class, reach cm / sm / m / property of the latest class, cm of the '
        'first derived class (via and call kind rotating)} from an unset variable (length <= 3: also from "0" and "1"), and the grid initial value x 9 class '
        'decorators x every spelling x {documented, undocumented} x {sub class created and used before the toggle, created before and first used after it, '
        'created after it, derived from a derived class, created after toggling back} x 5 members x 2 routes x 3 call kinds, all owners revisited after '
        'toggling back; GENERIC CLASSES (class KG(Generic[T]) with / without docstrings, with a checked __init__) and the call kinds unparamInst / paramInst '
        '(`x = Cls(); x.m(a=1)` / `x = Cls[int](); x.m(a=1)` written in the module of the class): the grid initial value x 9 class decorators x spellings (direct, '
        'obtained earlier) x 3 generic + 2 ordinary class shapes x {no toggle, toggle}: all five call kinds, the switch flipped, again, a sub class, flipped back, '
        'a fresh decoration; every sequence of length <= 4 over {enable, disable, unsetenv, four class decorations (three of generic classes), derive from the '
        'latest, call latest unparamInst / paramInst / wrongType, call first unparamInst} (length <= 3: also from "0" and "1"); ODD TARGETS (objects the decorators are not made for: function made with exec, builtin len, functools.partial, '
        'callable instance, lambda, bound method, staticmethod object, classmethod object, function without annotations, function with a contradictory docstring, class made with exec, Enum, '
        'dataclass, builtin type int, and FALSY objects — a callable instance of an empty list subclass, a callable with __bool__ -> False, a class whose metaclass defines '
        '__len__ -> 0; every class shape handed to a function decorator, every function shape handed to a class decorator): the grid initial value '
        '(unset, "0", "1", 3 other strings) x 11 decorators x 17 odd shapes + the misfitting ordinary shapes x every spelling (direct and obtained earlier) x {no '
        'toggle, opposite toggle} with all call kinds, a second decoration of the same object under the flipped switch and a toggle back, and every sequence of '
        'length <= 4 over {enable, disable, unsetenv, five decorations of odd / misfitting objects, the first object again, call first / latest result} from an unset '
        'variable (length <= 3: also from "0" and "1") — switched off the specification demands the very object back, unmodified, and a call that shows nothing; '
        'switched on it claims nothing and the model answers `unspecified` (compared with nothing); thorough: also length 5 of the sub class alphabet;  thorough: also every sequence of length 5 over {enable, disable, the seven decorators, call latest positionally}; plus seeded random sequences of 3..30 ops (600 / 100000) over all of the above, other strings and near-miss handle indices (and re-decoration of class objects, which the model does not describe: `bad` on both sides).  Every target is a fresh object from a real .py file unless the op says "the same object again"; the variable is set '
        'per sequence and restored afterwards.  non-trivial = the sequence calls a live decoration result or a member of a live class')
EXHAUSTIVE = {'quick': True, 'thorough': True}
ASSUMPTIONS = ['single-threaded: nothing else writes os.environ["ENABLE_PEDANTIC"] between the read in a decorator and its return',
               'targets for which the ENABLED behaviour is modelled and claimed are plain (async) functions and classes whose members are methods / properties '
               '(for every other object only the disabled behaviour — identity — is modelled and claimed); "checked" is observed as: a '
               'positional call or a wrongly typed keyword raises a PedanticException (pedantic family), stdout is written (trace/timer), '
               'the harness decorator recorded the call (for_all_methods with a foreign decorator)',
               'decorating the same object again is modelled (and claimed) for function objects: the function object is left as it is by its decorators; '
               'for_all_methods changes a class in place, so handing the same class object in again is answered `bad` by model and runner alike',
               'sub classes are plain `class S(Base): pass` (no member of their own, not decorated themselves); a class method / static method of a class '
               'wrapped by trace / timer / a foreign decorator raises TypeError when reached through an instance (for_all_methods re-binds it as a plain '
               'function: recorded finding of C18) — modelled as such, not claimed by the C09 specification',
               'values of the variable other than unset/"0"/"1" are run and compared with the model (the code treats them as "0") but are '
               'not claimed by the property']
TRUSTED = ['that pedantic wrappers reject positional / wrongly typed calls, that trace/timer wrappers print and that for_all_methods returns '
           'the class it was given is modelled by hand and validated by the correspondence run only',
           'CPython os.environ mapping semantics (`in`, `[]`, assignment) as translated by harness/gen/switch.py']

NAME = 'ENABLE_PEDANTIC'

FN_DECOS = ['pedantic', 'pedantic_require_docstring']
INNERS = ['pedantic', 'pedantic_require_docstring', 'trace', 'timer', 'mark']
CLS_DECOS = ['pedantic_class', 'pedantic_class_require_docstring', 'trace_class', 'timer_class'] + ['for_all_methods:' + i for i in INNERS]
SEVEN = FN_DECOS + CLS_DECOS[:4] + ['for_all_methods:pedantic']
ALL_DECOS = FN_DECOS + CLS_DECOS
FN_SHAPES = ['fn', 'fn_nodoc', 'afn', 'afn_nodoc']
CLS_SHAPES = ['K', 'K_nodoc', 'K2', 'K2_nodoc', 'K3', 'K3_nodoc', 'KG', 'KG_nodoc', 'KG2']
GENERIC_SHAPES = ['KG', 'KG_nodoc', 'KG2']       # classes that list typing.Generic[T]: instances want type arguments (KG2: with a checked __init__)
FULL_SHAPES = ['K3', 'K3_nodoc']          # classes with an instance method, a class method, a static method and a property (getter + setter)
# objects the decorators are not made for: callables that are no plain, source-backed, consistently documented functions ...
ODD_FN_SHAPES = ['x_exec', 'x_builtin', 'x_partial', 'x_callable', 'x_lambda', 'x_method', 'x_noannot', 'x_baddoc', 'x_staticmethod',
                 'x_classmethod', 'x_falsy_list', 'x_falsy_bool']
# ... and classes that are no plain source-backed classes
ODD_CLS_SHAPES = ['x_exec_cls', 'x_enum', 'x_dataclass', 'x_int', 'x_falsy_cls']
FALSY_SHAPES = ['x_falsy_list', 'x_falsy_bool', 'x_falsy_cls']      # bool(obj) is False
ODD_SHAPES = ODD_FN_SHAPES + ODD_CLS_SHAPES
PROBE_POSITIONAL = {'x_builtin': [1], 'x_enum': 1, 'x_int': 1}      # called as f(<value>) whatever the call kind (no parameter `a`)
MEMBERS = ['m', 'cm', 'sm', 'pget', 'pset']
VIAS = ['cls', 'inst']
KINDS = ['good', 'positional', 'wrongType']
INST_KINDS = ['unparamInst', 'paramInst']      # `x = Cls(); x.m(a=1)` / `x = Cls[int](); x.m(a=1)` written in the module of the class
ALL_KINDS = KINDS + INST_KINDS
OTHER_VALUES = ['', 'true', 'True', '2', '01', ' 1', '1 ', 'on', '00']
CLAIMED = [None, '0', '1']

def _doc(ind):
    return ''.join(ind + l + '\n' if l else '\n' for l in ['""" D.', '', 'Args:', '    a (int): x', '', 'Returns:', '    int: y', '"""'])


def _cls(name, doc):
    init = 'def __init__(self) -> None:\n        """ Init. """\n        self.v = 1\n\n    ' if name.startswith('K2') else ''
    prop = ''
    if name.startswith('K2'):
        pdoc = '        """ P.\n\n        Returns:\n            int: v\n        """\n' if doc else ''
        prop = '\n    @property\n    def p(self) -> int:\n' + pdoc + '        return self.v\n'
    return f'class {name}:\n    {init}def m(self, a: int) -> int:\n' + (_doc('        ') if doc else '') + '        return a\n' + prop


def _cls3(name, doc):
    d8 = _doc('        ') if doc else ''
    pget = '        """ P.\n\n        Returns:\n            int: v\n        """\n' if doc else ''
    pset = '        """ P.\n\n        Args:\n            a (int): x\n        """\n' if doc else ''
    init = '        """ Init. """\n' if doc else ''
    return (f'class {name}:\n    def __init__(self) -> None:\n{init}        self.v = 1\n\n'
            f'    def m(self, a: int) -> int:\n{d8}        return a\n\n'
            f'    @classmethod\n    def cm(cls, a: int) -> int:\n{d8}        return a\n\n'
            f'    @staticmethod\n    def sm(a: int) -> int:\n{d8}        return a\n\n'
            f'    @property\n    def p(self) -> int:\n{pget}        return self.v\n\n'
            f'    @p.setter\n    def p(self, a: int) -> None:\n{pset}        self.v = a\n')


def _helpers(name, generic):
    """functions in the module of the class that create an instance by an assignment `x = Cls(..)` — what the library looks for in the
    source of the caller when a checked method of a generic class runs — and call the method conformingly"""
    sub = '[int]' if generic else ''
    return (f'\n\ndef use_unparam():\n    x = {name}()\n    return x.m(a=1)\n'
            f'\n\ndef use_param():\n    x = {name}{sub}()\n    return x.m(a=1)\n')


def _gcls(name, doc, init):
    i = ('    def __init__(self) -> None:\n        """ Init. """\n        self.v = 1\n\n') if init else ''
    return ('from typing import Generic, TypeVar\n\nT = TypeVar(\'T\')\n\n\n'
            f'class {name}(Generic[T]):\n{i}    def m(self, a: int) -> int:\n' + (_doc('        ') if doc else '') + '        return a\n')


SOURCES = {
    'fn': 'def fn(a: int) -> int:\n' + _doc('    ') + '    return a\n',
    'fn_nodoc': 'def fn_nodoc(a: int) -> int:\n    return a\n',
    'afn': 'async def afn(a: int) -> int:\n' + _doc('    ') + '    return a\n',
    'afn_nodoc': 'async def afn_nodoc(a: int) -> int:\n    return a\n',
    'K': _cls('K', True), 'K_nodoc': _cls('K_nodoc', False), 'K2': _cls('K2', True), 'K2_nodoc': _cls('K2_nodoc', False),
    'K3': _cls3('K3', True), 'K3_nodoc': _cls3('K3_nodoc', False),
    'KG': _gcls('KG', True, False), 'KG_nodoc': _gcls('KG_nodoc', False, False), 'KG2': _gcls('KG2', True, True),
    # objects whose truth value is False
    'x_falsy_list': 'class CallableList(list):\n    def __call__(self, a: int) -> int:\n        return a\n\n\nx_falsy_list = CallableList()\n',
    'x_falsy_bool': ('class Quiet:\n    def __bool__(self) -> bool:\n        return False\n\n    def __call__(self, a: int) -> int:\n        return a\n\n\n'
                     'x_falsy_bool = Quiet()\n'),
    'x_falsy_cls': ('class Sized(type):\n    def __len__(cls) -> int:\n        return 0\n\n\n'
                    'class x_falsy_cls(metaclass=Sized):\n    def __init__(self, a: int = 0) -> None:\n        self.a = a\n'),
    # odd targets that live in a real file
    'x_lambda': 'x_lambda = lambda a: a\n',
    'x_noannot': 'def x_noannot(a):\n    return a\n',
    'x_baddoc': ('def x_baddoc(a: int) -> int:\n    """ D.\n\n    Args:\n        b (str): there is no such parameter\n\n    Returns:\n'
                 '        str: not the annotated type\n    """\n    return a\n'),
    'x_method': 'class Owner:\n    def m(self, a: int) -> int:\n        return a\n\n\nx_method = Owner().m\n',
    'x_callable': 'class CallableObject:\n    def __call__(self, a: int) -> int:\n        return a\n\n\nx_callable = CallableObject()\n',
    'x_partial': 'import functools\n\n\ndef plain(a: int) -> int:\n    return a\n\n\nx_partial = functools.partial(plain)\n',
    'x_staticmethod': 'def plain(a: int) -> int:\n    return a\n\n\nx_staticmethod = staticmethod(plain)\n',
    'x_classmethod': 'def plain(cls, a: int) -> int:\n    return a\n\n\nx_classmethod = classmethod(plain)\n',
    'x_enum': 'import enum\n\n\nclass x_enum(enum.Enum):\n    A = 1\n    B = 2\n',
    'x_dataclass': 'from dataclasses import dataclass\n\n\n@dataclass\nclass x_dataclass:\n    a: int\n',
}
for _name in CLS_SHAPES:
    SOURCES[_name] += _helpers(_name, _name in GENERIC_SHAPES)
# odd targets without any source text: made with exec from a string
SOURCELESS = {
    'x_exec': 'def x_exec(a, b=2):\n    return a\n',
    'x_exec_cls': 'class x_exec_cls:\n    def m(self, a):\n        return a\n',
}


def tgt(shape):
    if shape in ODD_SHAPES:
        t = {'cls': shape in ODD_CLS_SHAPES, 'doc': False, 'odd': True}
        if shape in FALSY_SHAPES:
            t['falsy'] = True
        return t
    t = {'cls': shape in CLS_SHAPES, 'doc': not shape.endswith('_nodoc')}
    if shape in FULL_SHAPES:
        t['full'] = True
    if shape in GENERIC_SHAPES:
        t['generic'] = True
    return t


def is_cls_shape(shape):
    return shape in CLS_SHAPES or shape in ODD_CLS_SHAPES


def misfits(d):
    """the ordinary shapes decorator d is NOT made for"""
    return CLS_SHAPES[:2] + FULL_SHAPES[:1] if d in FN_DECOS else FN_SHAPES


def forms_direct(d):
    if d == 'pedantic':
        return ['plain', 'kw', 'call', 'callkw']
    if d == 'pedantic_require_docstring':
        return ['plain', 'viaflag', 'call', 'call2']
    return ['plain', 'kw']


def forms_factory(d):
    if d == 'pedantic':
        return ['call', 'callkw', 'ref']
    if d == 'pedantic_require_docstring':
        return ['call', 'call2', 'ref']
    if d.startswith('for_all_methods:'):
        return ['plain', 'kw']
    return ['ref']


def shapes_for(d):
    return FN_SHAPES if d in FN_DECOS else CLS_SHAPES[:4]      # the grids of the first generation; K3 shapes: the sub class families


def mk(env, ops, xs, origin):
    return {'m': 'switch', 'c': {'env': env, 'ops': ops}, 'x': {'ops': xs, 'origin': origin}}


def op_setenv(v):
    return (['unsetenv'] if v is None else ['setenv', v]), None


def op_decorate(d, shape, form):
    return ['decorate', d, tgt(shape)], {'shape': shape, 'form': form}


def op_apply(k, shape):
    return ['apply', k, tgt(shape)], {'shape': shape}


def op_factory(d, form):
    return ['factory', d], {'form': form}


def op_redecorate(d, h, form):
    """apply d (spelled `form`) to the very object the h-th decoration was applied to"""
    return ['redecorate', d, h], {'form': form}


def op_reapply(k, h):
    """apply the k-th decorator obtained earlier to the very object the h-th decoration was applied to"""
    return ['reapply', k, h], None


def op_subclass(h):
    """`class S(<class behind handle h>): pass` — S becomes the next handle"""
    return ['subclass', h], None


def op_callm(h, member, via, kind):
    """reach `member` of the class behind handle h through the class object / a new instance and call it"""
    return ['callm', h, member, via, kind], None


def build(env, pairs, origin):
    return mk(env, [p[0] for p in pairs], [p[1] for p in pairs], origin)


# ------------------------------------------------------------------ case generation

def reduced_alphabet():
    """symbols of the exhaustive enumeration; 'call' symbols are resolved against the number of handles made so far"""
    syms = [('env', 'unsetenv'), ('env', 'enable'), ('env', 'disable')]
    syms += [('deco', d) for d in SEVEN]
    syms += [('call', 'last', 'positional'), ('call', 'first', 'positional'), ('call', 'last', 'good')]
    return syms


def resolve(seq):
    pairs, nh = [], 0
    for s in seq:
        if s[0] == 'env':
            pairs.append(([s[1]], None))
        elif s[0] == 'deco':
            pairs.append(op_decorate(s[1], 'fn' if s[1] in FN_DECOS else 'K', 'plain'))
            nh += 1
        else:
            h = 0 if (s[1] == 'first' or nh == 0) else nh - 1
            pairs.append((['call', h, s[2]], None))
    return pairs


FACTORY_SYMS = [('env', 'enable'), ('env', 'disable'), ('fac', 'pedantic', 'call'), ('fac', 'pedantic_require_docstring', 'call2'),
                ('fac', 'for_all_methods:pedantic', 'plain'), ('fac', 'for_all_methods:trace', 'kw'), ('fac', 'trace_class', 'ref'),
                ('apply',), ('call',)]


def resolve_factory(seq):
    """'apply' applies the first factory obtained so far, 'call' calls the latest decoration result positionally"""
    pairs, nh, first = [], 0, None
    for s in seq:
        if s[0] == 'env':
            pairs.append(([s[1]], None))
        elif s[0] == 'fac':
            pairs.append(op_factory(s[1], s[2]))
            first = first or s[1]
        elif s[0] == 'apply':
            pairs.append(op_apply(0, 'fn' if first in FN_DECOS else 'K'))     # no factory yet: `bad` on both sides
            nh += 1
        else:
            pairs.append((['call', max(nh - 1, 0), 'positional'], None))
    return pairs


AGAIN_SYMS = [('env', 'enable'), ('env', 'disable'), ('env', 'unsetenv'), ('deco', 'pedantic'), ('deco', 'pedantic_require_docstring'),
              ('re', 'pedantic', 'first'), ('re', 'pedantic_require_docstring', 'last'), ('re', 'pedantic', 'last'),
              ('fac', 'pedantic', 'call'), ('reapply', 'first'), ('call', 'first'), ('call', 'last')]


def resolve_again(seq, rot=0):
    """'first' / 'last' = the object the first / latest decoration was applied to (no decoration yet: index 0, `bad` on both sides);
    spellings rotate with the position so that every spelling meets every situation"""
    pairs, nh, nf = [], 0, 0
    for i, s in enumerate(seq):
        if s[0] == 'env':
            pairs.append(([s[1]], None))
        elif s[0] == 'deco':
            forms = forms_direct(s[1])
            pairs.append(op_decorate(s[1], 'fn' if (i + rot) % 3 else 'afn', forms[(i + rot) % len(forms)]))
            nh += 1
        elif s[0] == 're':
            forms = forms_direct(s[1])
            pairs.append(op_redecorate(s[1], 0 if (s[2] == 'first' or nh == 0) else nh - 1, forms[(i + rot + 1) % len(forms)]))
            nh += 1
        elif s[0] == 'fac':
            pairs.append(op_factory(s[1], s[2]))
            nf += 1
        elif s[0] == 'reapply':
            pairs.append(op_reapply(0, 0))
            nh += 1
        else:
            h = 0 if (s[1] == 'first' or nh == 0) else nh - 1
            pairs.append((['call', h, 'positional' if i % 2 else 'wrongType'], None))
    return pairs


def again_grid_cases():
    """decorate a function, (toggle), decorate the same function object again: every pair of decorators / spellings / initial values"""
    out = []
    for env in CLAIMED + ['true']:
        for d0 in FN_DECOS:
            for form0 in forms_direct(d0):
                for shape in FN_SHAPES:
                    for toggle in (None, opposite(env)):
                        for d1 in FN_DECOS:
                            for form1 in forms_direct(d1):
                                pairs = [op_decorate(d0, shape, form0)]
                                if toggle:
                                    pairs.append((toggle, None))
                                pairs.append(op_redecorate(d1, 0, form1))
                                pairs += [(['call', 1, k], None) for k in KINDS] + [(['call', 0, 'positional'], None)]
                                now = env if not toggle else ('1' if toggle == ['enable'] else '0')
                                pairs.append((opposite(now), None))
                                pairs.append(op_redecorate(d0, 1, form0))      # a third time, through the second handle's target (the same object)
                                pairs += [(['call', 2, 'wrongType'], None), (['call', 1, 'wrongType'], None), (['call', 0, 'wrongType'], None)]
                                pairs.append(op_factory(d1, forms_factory(d1)[0]))
                                pairs.append((opposite('1' if opposite(now) == ['enable'] else '0'), None))
                                pairs.append(op_reapply(0, 0))
                                pairs += [(['call', 3, 'positional'], None), (['call', 2, 'positional'], None)]
                                out.append(build(env, pairs, 'again-grid'))
    return out


def opposite(env):
    """an op that flips what the code reads from `env`"""
    return ['disable'] if (env is None or env == '1') else ['enable']


def grid_cases():
    out = []
    for env in CLAIMED + OTHER_VALUES:
        for d in ALL_DECOS:
            for shape in shapes_for(d):
                for fi, form in enumerate(forms_direct(d)):
                    for ti, toggle in enumerate([None, opposite(env)]):
                        pairs = [op_decorate(d, shape, form)]
                        if toggle:
                            pairs.append((toggle, None))
                        for k in KINDS:
                            pairs.append((['call', 0, k], None))
                        if toggle:   # and back again, then once more
                            pairs.append((opposite(None if toggle == ['enable'] else '0'), None))
                            pairs.append((['call', 0, 'positional'], None))
                        out.append(build(env, pairs, 'grid'))
    return out


def factory_grid_cases():
    out = []
    for env in CLAIMED + ['true']:
        for d in ALL_DECOS:
            for form in forms_factory(d):
                for shape in shapes_for(d)[:2] if form != forms_factory(d)[0] else shapes_for(d):
                    for t1 in (None, opposite(env)):
                        pairs = [op_factory(d, form)]
                        if t1:
                            pairs.append((t1, None))
                        pairs.append(op_apply(0, shape))
                        now = env if not t1 else ('1' if t1 == ['enable'] else '0')
                        pairs.append((opposite(now), None))
                        pairs += [(['call', 0, 'positional'], None), (['call', 0, 'good'], None)]
                        pairs.append(op_apply(0, shape))     # the same factory again, now under the flipped switch
                        pairs += [(['call', 1, 'wrongType'], None), (['call', 0, 'wrongType'], None)]
                        out.append(build(env, pairs, 'factory-grid'))
    return out


INH_SYMS = [('env', 'enable'), ('env', 'disable'), ('deco', 'pedantic_class'), ('deco', 'trace_class'),
            ('deco', 'for_all_methods:pedantic_require_docstring'), ('sub', 'first'), ('sub', 'last'),
            ('callm', 'last', 'cm'), ('callm', 'last', 'sm'), ('callm', 'last', 'm'), ('callm', 'last', 'pget'), ('callm', 'firstsub', 'cm')]


def resolve_inherit(seq, rot=0):
    """'first' = the first class decorated, 'last' = the latest handle, 'firstsub' = the first class derived (none yet: index 0 /
    one past the end, `bad` on both sides); route and call kind rotate so that every member meets every route / kind"""
    pairs, nh, firstsub = [], 0, None
    for i, s in enumerate(seq):
        if s[0] == 'env':
            pairs.append(([s[1]], None))
        elif s[0] == 'deco':
            forms = forms_direct(s[1])
            pairs.append(op_decorate(s[1], 'K3', forms[(i + rot) % len(forms)]))
            nh += 1
        elif s[0] == 'sub':
            pairs.append(op_subclass(0 if (s[1] == 'first' or nh == 0) else nh - 1))
            if firstsub is None:
                firstsub = nh
            nh += 1
        else:
            h = (firstsub if firstsub is not None else nh) if s[1] == 'firstsub' else max(nh - 1, 0)
            j = i + rot
            pairs.append(op_callm(h, s[2], VIAS[j % 2], ('wrongType', 'positional', 'wrongType', 'good')[(j // 2) % 4]))
    return pairs


def inherit_grid_cases():
    """decorate a class; derive Early and Late; use Early; toggle; derive Later (from the base) and Deep (from Late); reach every member of
    every owner by every route with every call kind — Late and Deep are used for the first time after the toggle; toggle back; derive once
    more; revisit every owner"""
    out = []
    for env in CLAIMED + ['true']:
        for d in CLS_DECOS:
            for shape in FULL_SHAPES + ['K2']:
                for form in forms_direct(d):
                    pairs = [op_decorate(d, shape, form), op_subclass(0), op_subclass(0)]          # 1 = Early, 2 = Late
                    pairs += [op_callm(1, m, v, 'wrongType') for m in MEMBERS for v in VIAS] + [(['call', 1, 'positional'], None)]
                    pairs.append((opposite(env), None))
                    pairs += [op_subclass(0), op_subclass(2)]                                      # 3 = Later, 4 = Deep
                    for h in (2, 4, 3, 1, 0):
                        pairs += [op_callm(h, m, v, k) for m in MEMBERS for v in VIAS for k in KINDS]
                        pairs.append((['call', h, 'wrongType'], None))
                    now = '1' if opposite(env) == ['enable'] else '0'
                    pairs.append((opposite(now), None))
                    pairs.append(op_subclass(4))                                                   # 5
                    for h in (5, 4, 3, 2, 1, 0):
                        pairs += [op_callm(h, m, v, k) for m in ('cm', 'sm', 'm', 'pset') for v in VIAS for k in ('positional', 'wrongType')]
                    out.append(build(env, pairs, 'inherit-grid'))
    # the decorator obtained earlier (factory), applied to the class later
    for env in CLAIMED:
        for d in ('for_all_methods:pedantic', 'for_all_methods:mark', 'pedantic_class_require_docstring', 'timer_class'):
            for t1 in (None, opposite(env)):
                pairs = [op_factory(d, forms_factory(d)[0])]
                if t1:
                    pairs.append((t1, None))
                pairs += [op_apply(0, 'K3'), op_subclass(0)]
                now = env if not t1 else ('1' if t1 == ['enable'] else '0')
                pairs.append((opposite(now), None))
                pairs.append(op_subclass(0))
                for h in (2, 1, 0):
                    pairs += [op_callm(h, m, v, k) for m in MEMBERS for v in VIAS for k in KINDS]
                out.append(build(env, pairs, 'inherit-grid'))
    return out


ODD_SYMS = [('env', 'enable'), ('env', 'disable'), ('env', 'unsetenv'),
            ('deco', 'pedantic', 'x_exec'), ('deco', 'pedantic_require_docstring', 'x_builtin'), ('deco', 'pedantic_class', 'x_enum'),
            ('deco', 'trace_class', 'fn'), ('deco', 'pedantic', 'K'), ('re', 'pedantic_require_docstring', 'first'),
            ('call', 'first'), ('call', 'last')]


def resolve_odd(seq, rot=0):
    """decorations of odd / misfitting objects; 'first' = the object the first decoration was applied to; spellings, the odd shape of
    the first two symbols and the call kind rotate so that every object meets every situation"""
    pairs, nh = [], 0
    for i, s in enumerate(seq):
        j = i + rot
        if s[0] == 'env':
            pairs.append(([s[1]], None))
        elif s[0] == 'deco':
            forms = forms_direct(s[1])
            shape = s[2]
            if shape == 'x_exec':
                shape = ODD_FN_SHAPES[(j // 2) % len(ODD_FN_SHAPES)] if j % 2 else 'x_exec'
            elif shape == 'x_enum':
                shape = ODD_CLS_SHAPES[(j // 2) % len(ODD_CLS_SHAPES)] if j % 2 else 'x_enum'
            pairs.append(op_decorate(s[1], shape, forms[j % len(forms)]))
            nh += 1
        elif s[0] == 're':
            forms = forms_direct(s[1])
            pairs.append(op_redecorate(s[1], 0, forms[(j + 1) % len(forms)]))
            nh += 1
        else:
            h = 0 if (s[1] == 'first' or nh == 0) else nh - 1
            pairs.append((['call', h, KINDS[j % 3]], None))
    return pairs


def odd_grid_cases():
    """every decorator x every object it is not made for x every spelling (direct / obtained earlier) x initial value x {no toggle, toggle}:
    decorate, call (all kinds), flip the switch, call again, hand the same object in once more (callables only), call both results, flip
    back, decorate a fresh object of the same shape, call"""
    out = []
    for env in CLAIMED + OTHER_VALUES[:3]:
        for d in ALL_DECOS:
            for shape in ODD_SHAPES + misfits(d):
                spellings = [('direct', f) for f in forms_direct(d)] + [('factory', f) for f in forms_factory(d)]
                for how, form in spellings:
                    for toggle in (None, opposite(env)):
                        pairs = []
                        if how == 'factory':
                            pairs.append(op_factory(d, form))
                        if toggle:
                            pairs.append((toggle, None))
                        pairs.append(op_decorate(d, shape, form) if how == 'direct' else op_apply(0, shape))
                        pairs += [(['call', 0, k], None) for k in KINDS]
                        now = env if not toggle else ('1' if toggle == ['enable'] else '0')
                        pairs.append((opposite(now), None))
                        pairs.append((['call', 0, 'positional'], None))
                        nh = 1
                        if not is_cls_shape(shape):
                            pairs.append(op_redecorate(d, 0, form) if how == 'direct' else op_reapply(0, 0))
                            pairs += [(['call', 1, 'wrongType'], None), (['call', 0, 'wrongType'], None)]
                            nh = 2
                        pairs.append((opposite('1' if opposite(now) == ['enable'] else '0'), None))
                        pairs.append(op_decorate(d, shape, forms_direct(d)[0]))
                        pairs += [(['call', nh, 'good'], None), (['call', 0, 'good'], None)]
                        if is_cls_shape(shape):
                            pairs += [op_subclass(nh), op_callm(nh, 'm', 'inst', 'wrongType'), op_callm(nh + 1, 'm', 'cls', 'positional')]
                        out.append(build(env, pairs, 'odd-grid'))
    return out


GEN_SYMS = [('env', 'enable'), ('env', 'disable'), ('env', 'unsetenv'),
            ('deco', 'pedantic_class', 'KG'), ('deco', 'for_all_methods:pedantic_require_docstring', 'KG2'), ('deco', 'trace_class', 'KG'),
            ('deco', 'pedantic_class_require_docstring', 'K'), ('sub', 'last'),
            ('call', 'last', 'unparamInst'), ('call', 'last', 'paramInst'), ('call', 'first', 'unparamInst'), ('call', 'last', 'wrongType')]


def resolve_generic(seq, rot=0):
    """generic classes, instances created without / with type arguments in the module of the class; spellings rotate"""
    pairs, nh = [], 0
    for i, s in enumerate(seq):
        if s[0] == 'env':
            pairs.append(([s[1]], None))
        elif s[0] == 'deco':
            forms = forms_direct(s[1])
            pairs.append(op_decorate(s[1], s[2], forms[(i + rot) % len(forms)]))
            nh += 1
        elif s[0] == 'sub':
            pairs.append(op_subclass(max(nh - 1, 0)))
            nh += 1
        else:
            h = 0 if (s[1] == 'first' or nh == 0) else nh - 1
            pairs.append((['call', h, s[2]], None))
    return pairs


def generic_grid_cases():
    """every class decorator x every spelling (direct / obtained earlier) x generic class shapes (and two ordinary ones) x initial value:
    decorate, all five call kinds, flip the switch, all five again, derive a sub class and call through it, flip back, once more"""
    out = []
    for env in CLAIMED + ['true']:
        for d in CLS_DECOS:
            for shape in GENERIC_SHAPES + ['K', 'K2_nodoc']:
                spellings = [('direct', f) for f in forms_direct(d)] + [('factory', forms_factory(d)[0])]
                for how, form in spellings:
                    for toggle in (None, opposite(env)):
                        pairs = []
                        if how == 'factory':
                            pairs.append(op_factory(d, form))
                        if toggle:
                            pairs.append((toggle, None))
                        pairs.append(op_decorate(d, shape, form) if how == 'direct' else op_apply(0, shape))
                        pairs += [(['call', 0, k], None) for k in ALL_KINDS]
                        now = env if not toggle else ('1' if toggle == ['enable'] else '0')
                        pairs.append((opposite(now), None))
                        pairs += [(['call', 0, k], None) for k in INST_KINDS + ['wrongType']]
                        pairs.append(op_subclass(0))
                        pairs += [(['call', 1, k], None) for k in INST_KINDS + ['positional']]
                        pairs.append((opposite('1' if opposite(now) == ['enable'] else '0'), None))
                        pairs += [(['call', 0, 'unparamInst'], None), (['call', 0, 'paramInst'], None), (['call', 1, 'unparamInst'], None)]
                        pairs.append(op_decorate(d, shape, forms_direct(d)[0]))
                        pairs += [(['call', 2, 'unparamInst'], None), (['call', 2, 'paramInst'], None)]
                        out.append(build(env, pairs, 'generic-grid'))
    return out


def random_case(rng, maxlen=30, origin='random', again=0.12, inherit=0.16, odd=0.15):
    vals = [None, '0', '1'] * 4 + OTHER_VALUES + ['0 ', 'false', '١', '1\t', 'enable']
    env = rng.choice(vals)
    pairs, nh, nf, fdecos = [], 0, 0, []
    fn_handles, cls_handles = [], []          # handles whose target is a function / a class
    n = rng.randint(3, maxlen)
    for _ in range(n):
        if rng.random() < inherit and nh:
            # a sub class of some class handle (now and then of a function / a handle that does not exist), or a member reached through one
            q = rng.random()
            h = nh if q < 0.03 else (rng.choice(cls_handles) if cls_handles and q < 0.92 else rng.randrange(nh))
            if rng.random() < 0.4:
                pairs.append(op_subclass(h))
                if h in cls_handles:
                    cls_handles.append(nh)
                nh += 1
            else:
                pairs.append(op_callm(h, rng.choice(MEMBERS), rng.choice(VIAS), rng.choice(KINDS)))
            continue
        r = rng.random()
        if r < again and (fn_handles or cls_handles):
            # the same object again; mostly a function (classes / handles that do not exist: `bad` on both sides)
            q = rng.random()
            h = nh if q < 0.03 else (rng.choice(cls_handles) if (cls_handles and q < 0.08) or not fn_handles else rng.choice(fn_handles))
            if nf and rng.random() < 0.3:
                pairs.append(op_reapply(rng.randrange(nf), h))
            else:
                d = rng.choice(FN_DECOS) if rng.random() < 0.93 else rng.choice(CLS_DECOS)
                pairs.append(op_redecorate(d, h, rng.choice(forms_direct(d))))
            if h in fn_handles:
                fn_handles.append(nh)
            nh += 1
            continue
        r = rng.random()
        if r < 0.30:
            k = rng.choice(['enable', 'disable', 'unsetenv', 'setenv', 'enable', 'disable'])
            pairs.append((['setenv', rng.choice([v for v in vals if v is not None])], None) if k == 'setenv' else ([k], None))
        elif r < 0.52:
            d = rng.choice(ALL_DECOS)
            if rng.random() < odd:
                # an object the decorator is not made for
                shape = rng.choice(ODD_SHAPES + misfits(d))
            else:
                shape = rng.choice(FN_SHAPES if d in FN_DECOS else CLS_SHAPES)
            pairs.append(op_decorate(d, shape, rng.choice(forms_direct(d))))
            (cls_handles if shape in CLS_SHAPES else fn_handles if not is_cls_shape(shape) else []).append(nh)
            nh += 1
        elif r < 0.60:
            d = rng.choice(ALL_DECOS)
            pairs.append(op_factory(d, rng.choice(forms_factory(d))))
            fdecos.append(d)
            nf += 1
        elif r < 0.70 and nf:
            k = rng.randrange(nf)
            if rng.random() < odd:
                shape = rng.choice(ODD_SHAPES + misfits(fdecos[k]))
            else:
                shape = rng.choice(FN_SHAPES if fdecos[k] in FN_DECOS else CLS_SHAPES)
            pairs.append(op_apply(k, shape))
            (cls_handles if shape in CLS_SHAPES else fn_handles if not is_cls_shape(shape) else []).append(nh)
            nh += 1
        elif nh:
            # near miss on the handle index now and then (one past the end)
            h = nh if rng.random() < 0.02 else (nh - 1 if rng.random() < 0.5 else rng.randrange(nh))
            pairs.append((['call', h, rng.choice(KINDS if rng.random() < 0.75 else INST_KINDS)], None))
        else:
            pairs.append(([rng.choice(['enable', 'disable'])], None))
    return build(env, pairs, origin)


def cases(rng, tier):
    out = []
    syms = reduced_alphabet()
    for n in range(1, 5):
        for seq in itertools.product(syms, repeat=n):
            if not any(s[0] == 'deco' for s in seq):
                continue     # nothing is decorated: every observation is `none`/`bad`; one representative below
            for env in ([None] if n == 4 else CLAIMED):
                out.append(build(env, resolve(seq), f'exhaustive-{n}'))
    out.append(build(None, resolve([('env', 'disable'), ('call', 'last', 'good'), ('env', 'enable')]), 'exhaustive-3'))
    for n in range(2, 5):
        for seq in itertools.product(FACTORY_SYMS, repeat=n):
            if any(s[0] == 'fac' for s in seq) and any(s[0] == 'apply' for s in seq):
                out.append(build(None, resolve_factory(seq), f'exhaustive-factory-{n}'))
    out += grid_cases()
    out += factory_grid_cases()
    # the same function object decorated again
    for n in range(2, 5):
        for k, seq in enumerate(itertools.product(AGAIN_SYMS, repeat=n)):
            if any(s[0] == 'deco' for s in seq) and any(s[0] in ('re', 'reapply') for s in seq):
                for env in ([None] if n == 4 else CLAIMED):
                    out.append(build(env, resolve_again(seq, k), f'exhaustive-again-{n}'))
    out += again_grid_cases()
    # sub classes of decorated classes, inherited members
    for n in range(2, 5):
        for k, seq in enumerate(itertools.product(INH_SYMS, repeat=n)):
            if any(s[0] == 'deco' for s in seq) and any(s[0] in ('sub', 'callm') for s in seq):
                for env in ([None] if n == 4 else CLAIMED):
                    out.append(build(env, resolve_inherit(seq, k), f'exhaustive-inherit-{n}'))
    out += inherit_grid_cases()
    # objects the decorators are not made for: switched off, the very object comes back whatever it is
    for n in range(1, 5):
        for k, seq in enumerate(itertools.product(ODD_SYMS, repeat=n)):
            if any(s[0] == 'deco' for s in seq):
                for env in ([None] if n == 4 else CLAIMED):
                    out.append(build(env, resolve_odd(seq, k), f'exhaustive-odd-{n}'))
    out += odd_grid_cases()
    # generic classes: instances created without / with type arguments, before and after toggles
    for n in range(2, 5):
        for k, seq in enumerate(itertools.product(GEN_SYMS, repeat=n)):
            if any(s[0] == 'deco' for s in seq) and any(s[0] == 'call' for s in seq):
                for env in ([None] if n == 4 else CLAIMED):
                    out.append(build(env, resolve_generic(seq, k), f'exhaustive-generic-{n}'))
    out += generic_grid_cases()
    if tier == 'thorough':
        syms5 = [s for s in ODD_SYMS if s not in (('env', 'unsetenv'), ('deco', 'pedantic', 'K'), ('call', 'first'))]
        for k, seq in enumerate(itertools.product(syms5, repeat=5)):
            if any(s[0] == 'deco' for s in seq) and any(s[0] == 'call' for s in seq):
                out.append(build(None, resolve_odd(seq, k), 'exhaustive-odd-5'))
        syms5 = [s for s in INH_SYMS if s not in (('deco', 'trace_class'), ('callm', 'last', 'pget'), ('callm', 'last', 'm'), ('sub', 'first'))]
        for k, seq in enumerate(itertools.product(syms5, repeat=5)):
            if any(s[0] == 'deco' for s in seq) and any(s[0] == 'sub' for s in seq) and any(s[0] == 'callm' for s in seq):
                out.append(build(None, resolve_inherit(seq, k), 'exhaustive-inherit-5'))
        syms5 = [s for s in AGAIN_SYMS if s not in (('env', 'unsetenv'), ('re', 'pedantic', 'last'), ('call', 'first'))]
        for k, seq in enumerate(itertools.product(syms5, repeat=5)):
            if any(s[0] == 'deco' for s in seq) and any(s[0] in ('re', 'reapply') for s in seq) and any(s[0] == 'call' for s in seq):
                out.append(build(None, resolve_again(seq, k), 'exhaustive-again-5'))
        # length 5 over {enable, disable, the seven decorators, call the latest result positionally}
        syms5 = [s for s in syms if s not in (('env', 'unsetenv'), ('call', 'first', 'positional'), ('call', 'last', 'good'))]
        for seq in itertools.product(syms5, repeat=5):
            if any(s[0] == 'deco' for s in seq) and any(s[0] == 'call' for s in seq):
                out.append(build(None, resolve(seq), 'exhaustive-5'))
    for _ in range(600 if tier == 'quick' else 100000):
        out.append(random_case(rng))
    return out


def search(rng, tier, near):
    return ([random_case(rng, maxlen=8, origin='search') for _ in range(3000)] + [random_case(rng, origin='search') for _ in range(1500)]
            + [random_case(rng, maxlen=10, origin='search-again', again=0.4) for _ in range(3000)]
            + [random_case(rng, maxlen=12, origin='search-inherit', again=0.05, inherit=0.45) for _ in range(3000)]
            + [random_case(rng, maxlen=8, origin='search-odd', odd=0.6) for _ in range(3000)])


# ------------------------------------------------------------------ the implementation side

class Impl:
    def __init__(self):
        import pedantic
        from pedantic.exceptions import PedanticException
        from pedantic.decorators.fn_deco_trace import trace
        from pedantic.decorators.fn_deco_timer import timer
        from functools import wraps
        self.p = pedantic
        self.PedanticException = PedanticException
        self.marks = []
        marks = self.marks

        def mark(f):
            @wraps(f)
            def w(*a, **k):
                marks.append(1)
                return f(*a, **k)
            return w
        self.inner = {'pedantic': pedantic.pedantic, 'pedantic_require_docstring': pedantic.pedantic_require_docstring,
                      'trace': trace, 'timer': timer, 'mark': mark}
        self.dir = tempfile.mkdtemp(prefix='pedverif_c09_')
        self.code = {}
        for shape, text in SOURCES.items():
            path = os.path.join(self.dir, f'c09_{shape}.py')
            with open(path, 'w') as f:
                f.write(text)
            self.code[shape] = (compile(text, path, 'exec'), path)
        self.sourceless = {shape: compile(text, '<string>', 'exec') for shape, text in SOURCELESS.items()}
        self.loop = asyncio.new_event_loop()
        self.n = 0
        self.mods = []

    def close(self):
        self.loop.close()
        shutil.rmtree(self.dir, ignore_errors=True)

    def fresh(self, shape):
        """a fresh target object whose source is a real file (odd targets: also objects without any source text, builtins)"""
        if shape in self.sourceless:
            ns = {}
            exec(self.sourceless[shape], ns)      # inspect.getsource() finds nothing for this one
            return ns[shape]
        if shape == 'x_builtin':
            return len
        if shape == 'x_int':
            return int
        code, path = self.code[shape]
        self.n += 1
        mod = types.ModuleType(f'c09_{shape}')
        mod.__file__ = path
        exec(code, mod.__dict__)
        obj = getattr(mod, shape)
        if shape in CLS_SHAPES:
            self.mods.append((obj, mod))        # the module of the class: its helper functions create instances by `x = Cls(..)`
            del self.mods[:-64]
        return obj

    def module_of(self, cls):
        for o, mod in reversed(self.mods):
            if o is cls:
                return mod
        return None

    def direct(self, d, form, t):
        p = self.p
        if d == 'pedantic':
            return {'plain': lambda: p.pedantic(t), 'kw': lambda: p.pedantic(func=t), 'call': lambda: p.pedantic()(t),
                    'callkw': lambda: p.pedantic(require_docstring=False)(t)}[form]()
        if d == 'pedantic_require_docstring':
            return {'plain': lambda: p.pedantic_require_docstring(t), 'viaflag': lambda: p.pedantic(t, require_docstring=True),
                    'call': lambda: p.pedantic(require_docstring=True)(t), 'call2': lambda: p.pedantic_require_docstring()(t)}[form]()
        if d.startswith('for_all_methods:'):
            i = self.inner[d.split(':')[1]]
            return p.for_all_methods(i)(t) if form == 'plain' else p.for_all_methods(decorator=i)(t)
        f = getattr(p, d)
        return f(t) if form == 'plain' else f(cls=t)

    def factory(self, d, form):
        p = self.p
        if d == 'pedantic':
            return {'call': lambda: p.pedantic(), 'callkw': lambda: p.pedantic(require_docstring=False), 'ref': lambda: p.pedantic}[form]()
        if d == 'pedantic_require_docstring':
            return {'call': lambda: p.pedantic(require_docstring=True), 'call2': lambda: p.pedantic_require_docstring(),
                    'ref': lambda: p.pedantic_require_docstring}[form]()
        if d.startswith('for_all_methods:'):
            i = self.inner[d.split(':')[1]]
            return p.for_all_methods(i) if form == 'plain' else p.for_all_methods(decorator=i)
        return getattr(p, d)

    def decorate(self, t, shape, apply):
        before = dict(getattr(t, '__dict__', None) or {})      # a builtin has none
        try:
            res = apply(t)
        except self.PedanticException:
            return None, ['decoRaised']
        except Exception as e:
            return None, ['error', type(e).__name__]
        after = dict(getattr(t, '__dict__', None) or {})
        dict_same = sorted(after) == sorted(before) and all(after[k] is before[k] for k in before)
        return (res, shape), ['decorated', res is t, dict_same]

    def call(self, handle, kind):
        res, shape = handle
        buf = io.StringIO()
        mod = self.module_of(res) if (kind in INST_KINDS and shape in CLS_SHAPES) else None
        if mod is not None:
            # the class itself (not a class derived from it): instance created in the module of the class, `x = Cls()` / `x = Cls[int]()`
            n0 = len(self.marks)
            rejected = False
            with contextlib.redirect_stdout(buf):
                try:
                    (mod.use_unparam if kind == 'unparamInst' else mod.use_param)()
                except self.PedanticException:
                    rejected = True
                except Exception as e:
                    return ['error', type(e).__name__]
            return ['called', rejected, bool(buf.getvalue()), len(self.marks) > n0]
        if kind in INST_KINDS:
            kind = 'good'         # a function, an odd object, a class derived by the harness: the plain conforming call
        try:
            with contextlib.redirect_stdout(io.StringIO()):      # a traced/timed __init__ prints: not the call under observation
                f = res().m if (shape in CLS_SHAPES or shape == 'x_exec_cls') else res
                if shape == 'x_classmethod' and isinstance(res, classmethod):
                    f = res.__get__(None, Impl)          # a classmethod object is not callable itself: bind it to some class
        except Exception as e:
            return ['error', 'construct:' + type(e).__name__]
        n0 = len(self.marks)
        rejected = False
        with contextlib.redirect_stdout(buf):
            try:
                if shape in PROBE_POSITIONAL:
                    r = f(PROBE_POSITIONAL[shape])          # len([1]), int(1), x_enum(1): there is no parameter `a`
                else:
                    r = f(a=1) if kind == 'good' else (f(1) if kind == 'positional' else f(a='x'))
                if inspect.isawaitable(r):
                    r = self.loop.run_until_complete(r)
            except self.PedanticException:
                rejected = True
            except Exception as e:
                return ['error', type(e).__name__]
        return ['called', rejected, bool(buf.getvalue()), len(self.marks) > n0]

    def callm(self, handle, member, via, kind):
        """reach `member` of the class behind the handle through the class object (`via == 'cls'`) or a new instance and call it;
        the attribute lookup is part of the observed call (a descriptor may do work on first access)"""
        owner, shape = handle
        if shape not in CLS_SHAPES or (member != 'm' and shape not in FULL_SHAPES):
            return ['bad']
        try:
            with contextlib.redirect_stdout(io.StringIO()):      # a traced/timed __init__ prints: not the call under observation
                inst = owner()
        except Exception as e:
            return ['error', 'construct:' + type(e).__name__]
        val = 'x' if kind == 'wrongType' else 1
        o = owner if via == 'cls' else inst

        def go():
            if member == 'pget':
                inst.__dict__['v'] = val
                return o.p.fget(inst) if via == 'cls' else inst.p
            if member == 'pset':
                if via == 'cls':
                    return o.p.fset(inst, val)
                inst.p = val
                return None
            if member == 'm' and via == 'cls':
                return o.m(inst, a=val) if kind != 'positional' else o.m(inst, val)
            f = getattr(o, member)
            return f(a=val) if kind != 'positional' else f(val)
        n0 = len(self.marks)
        rejected = False
        buf = io.StringIO()
        with contextlib.redirect_stdout(buf):
            try:
                go()
            except self.PedanticException:
                rejected = True
            except Exception as e:
                return ['error', type(e).__name__]
        return ['called', rejected, bool(buf.getvalue()), len(self.marks) > n0]

    def run(self, case):
        c, xs = case['c'], case['x']['ops']
        saved = os.environ.get(NAME)
        handles, factories, obs = [], [], []
        targets = []          # the object each decoration was applied to (parallel to `handles`)
        try:
            if c['env'] is None:
                os.environ.pop(NAME, None)
            else:
                os.environ[NAME] = c['env']
            for op, x in zip(c['ops'], xs):
                tag = op[0]
                if tag == 'setenv':
                    os.environ[NAME] = op[1]; obs.append(['none'])
                elif tag == 'unsetenv':
                    os.environ.pop(NAME, None); obs.append(['none'])
                elif tag == 'enable':
                    self.p.enable_pedantic(); obs.append(['none'])
                elif tag == 'disable':
                    self.p.disable_pedantic(); obs.append(['none'])
                elif tag == 'factory':
                    try:
                        factories.append((op[1], self.factory(op[1], x['form']))); obs.append(['none'])
                    except Exception as e:
                        factories.append((op[1], None)); obs.append(['error', type(e).__name__])
                elif tag in ('decorate', 'apply', 'redecorate', 'reapply'):
                    if tag in ('decorate', 'apply'):
                        shape = x['shape']
                        t = self.fresh(shape)
                    else:
                        # the very object an earlier decoration was applied to; only function objects (a class is changed in place)
                        prev = targets[op[2]] if op[2] < len(targets) else None
                        if prev is None or is_cls_shape(prev[1]):
                            handles.append(None); targets.append(None); obs.append(['bad']); continue
                        t, shape = prev
                    targets.append((t, shape))
                    if tag in ('decorate', 'redecorate'):
                        d = op[1]
                        ap = lambda t, d=d, form=x['form']: self.direct(d, form, t)
                    else:
                        if op[1] >= len(factories) or factories[op[1]][1] is None:
                            handles.append(None); obs.append(['bad']); continue
                        d, fac = factories[op[1]]
                        ap = lambda t, fac=fac: fac(t)
                    # (a class handed to a function decorator, a function handed to a class decorator, an odd object: run like any other)
                    h, o = self.decorate(t, shape, ap)
                    handles.append(h); obs.append(o)
                elif tag == 'call':
                    if op[1] >= len(handles) or handles[op[1]] is None:
                        obs.append(['bad'])
                    else:
                        obs.append(self.call(handles[op[1]], op[2]))
                elif tag == 'subclass':
                    base = handles[op[1]] if op[1] < len(handles) else None
                    if base is None or base[1] not in CLS_SHAPES:
                        # no class behind the handle (a function, a decoration that raised, no such handle)
                        keep = op[1] < len(targets) and targets[op[1]] is not None and targets[op[1]][1] in CLS_SHAPES
                        handles.append(None); targets.append(targets[op[1]] if keep else None); obs.append(['bad'])
                    else:
                        try:
                            sub = type(base[0])('S' + str(len(handles)), (base[0],), {})
                        except Exception as e:
                            handles.append(None); targets.append(None); obs.append(['error', type(e).__name__]); continue
                        handles.append((sub, base[1])); targets.append((sub, base[1])); obs.append(['derived'])
                elif tag == 'callm':
                    if op[1] >= len(handles) or handles[op[1]] is None:
                        obs.append(['bad'])
                    else:
                        obs.append(self.callm(handles[op[1]], op[2], op[3], op[4]))
                else:
                    obs.append(['error', 'unknown-op'])
        finally:
            if saved is None:
                os.environ.pop(NAME, None)
            else:
                os.environ[NAME] = saved
        return {'obs': obs}


def _worker(chunk):
    impl = Impl()
    try:
        return [impl.run(c) for c in chunk]
    finally:
        impl.close()


def run_impl(cases):
    if len(cases) < 2000:
        return _worker(cases)
    import multiprocessing as mp
    n = min(16, os.cpu_count() or 1)
    size = max(200, (len(cases) + n * 4 - 1) // (n * 4))
    chunks = [cases[i:i + size] for i in range(0, len(cases), size)]
    with mp.get_context('fork').Pool(n) as pool:
        parts = pool.map(_worker, chunks)
    return [r for part in parts for r in part]


# ------------------------------------------------------------------ verdict

def describe(op, x=None):
    extra = (' [' + ', '.join(f'{k}={v}' for k, v in sorted(x.items())) + ']') if x else ''

    def target(a):
        if a.get('odd'):
            return 'odd ' + ('class' if a['cls'] else 'callable')
        return ("class" if a["cls"] else "function") + ("" if a["doc"] else " without docstring")
    return " ".join(str(a) if not isinstance(a, dict) else target(a) for a in op) + extra


UNSPECIFIED = ['unspecified']      # the model does not describe this observation (an enabled decorator met an object it is not made for)


def judge(case, impl, model):
    obs, mo, sp = impl['obs'], model['model'], model['spec']
    ops = case['c']['ops']
    xs = (case.get('x') or {}).get('ops') or [None] * len(ops)
    corr = len(obs) == len(mo) and all(a == b or b == UNSPECIFIED for a, b in zip(obs, mo))
    why = ''
    if not corr:
        i = next((i for i, (a, b) in enumerate(zip(obs, mo)) if a != b and b != UNSPECIFIED), min(len(obs), len(mo)))
        why = f'op {i} ({describe(ops[i], xs[i]) if i < len(ops) else "?"}): implementation {obs[i] if i < len(obs) else None}, model {mo[i] if i < len(mo) else None}'
    pfail = None
    for i, (o, s) in enumerate(zip(obs, sp)):
        if s[0] == 'exact' and o != s[1]:
            pfail = f'op {i} ({describe(ops[i], xs[i])}) after {[describe(p, q) for p, q in zip(ops[:i], xs)]} from {NAME}={case["c"]["env"]!r}: observed {o}, the property requires {s[1]}'
            break
        if s[0] == 'enabledDeco' and o[0] != 'decorated':
            pfail = f'op {i} ({describe(ops[i], xs[i])}) after {[describe(p, q) for p, q in zip(ops[:i], xs)]} from {NAME}={case["c"]["env"]!r}, with the switch on: observed {o}, the property requires a successful decoration'
            break
    tags = set()
    en = model.get('enabledNow', [])
    deco_en = []
    derived = set()
    odd_handles = set()
    for i, (op, o) in enumerate(zip(ops, mo)):
        if op[0] == 'subclass':
            derived.add(len(deco_en))
            deco_en.append(deco_en[op[1]] if op[1] < len(deco_en) else None)      # what was decided for the base
            tags.add('D' if o[0] == 'derived' else 'B')
        elif op[0] == 'callm':
            tags.add('b' if o[0] == 'bad' else 'e' if o[0] != 'called' else ('r' if o[1] else 'p' if o[2] else 'm' if o[3] else 'n'))
            if o[0] != 'bad':
                tags.add({'m': 'M', 'cm': 'C', 'sm': 'S', 'pget': 'G', 'pset': 'P'}[op[2]].lower() + ('k' if op[3] == 'cls' else 'i'))
            if o[0] == 'called' and op[1] < len(deco_en) and i < len(en) and deco_en[op[1]] != en[i]:
                tags.add('T')
                if op[1] in derived:
                    tags.add('H')      # an inherited member reached through a sub class while the switch differs from the decoration
        elif op[0] in ('decorate', 'apply', 'redecorate', 'reapply'):
            deco_en.append(en[i] if i < len(en) else None)
            if op[0] in ('redecorate', 'reapply'):
                tags.add('A')
            tags.add({'decorated': 'I' if (o[1:] == [True, True]) else ('W' if o[1:] == [False, True] else 'C'),
                      'decoRaised': 'R', 'bad': 'B', 'switchError': 'S', 'unspecified': 'X'}.get(o[0], '?'))
            if op[0] in ('decorate', 'apply') and op[2].get('odd'):
                odd_handles.add(len(deco_en) - 1)
                if o[0] == 'decorated':
                    tags.add('O')      # an object the decorators are not made for came back as it is
            if op[0] in ('apply', 'reapply'):
                tags.add('F')
        elif op[0] == 'call':
            tags.add('x' if o[0] == 'unspecified' else 'b' if o[0] != 'called' else ('r' if o[1] else 'p' if o[2] else 'm' if o[3] else 'n'))
            if o[0] == 'called' and op[1] < len(deco_en) and i < len(en) and deco_en[op[1]] != en[i]:
                tags.add('T')
            if o[0] == 'called' and op[1] in odd_handles:
                tags.add('o')          # ... and was called afterwards
            if op[2] == 'unparamInst' and o == ['called', True, False, False]:
                tags.add('Y')          # an instance of a generic class created without type arguments was turned away
                if op[1] < len(deco_en) and i < len(en) and deco_en[op[1]] != en[i]:
                    tags.add('y')      # ... while the switch said something else than at the decoration
        if sp[i][0] == 'unclaimed':
            tags.add('U')
    nontrivial = bool(tags & set('rpmne'))
    return {'corr': corr, 'pfail': pfail, 'finding': None, 'nontrivial': nontrivial, 'tag': ''.join(sorted(tags)), 'why': why}


def extra_coverage(results):
    origins, toggled, inherited, odd_back, odd_called, gen_rej, gen_rej_toggled = {}, 0, 0, 0, 0, 0, 0
    for (c, i, m, j) in results:
        o = c.get('x', {}).get('origin', 'corpus')
        origins[o] = origins.get(o, 0) + 1
        toggled += 'T' in j['tag']
        inherited += 'H' in j['tag']
        odd_back += 'O' in j['tag']
        odd_called += 'o' in j['tag']
        gen_rej += 'Y' in j['tag']
        gen_rej_toggled += 'y' in j['tag']
    return {'cases_by_origin': origins, 'cases_calling_after_a_toggle': toggled,
            'cases_reaching_an_inherited_member_through_a_sub_class_after_a_toggle': inherited,
            'cases_in_which_an_odd_object_comes_back_unchanged': odd_back, 'cases_calling_such_an_object_afterwards': odd_called,
            'cases_turning_away_an_unparametrised_instance_of_a_generic_class': gen_rej, 'of_these_after_a_toggle': gen_rej_toggled,
            'ops_run': sum(len(c['c']['ops']) for (c, _, _, _) in results)}
