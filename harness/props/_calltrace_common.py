"""Observed branch traces of the call layer (shared by C03 C04 C05 C06 C08 through _call_common).

For a sample of the generated calls the lines CPython executes inside `FunctionCall` (pedantic/models/function_call.py) and the
wrapper bodies (fn_deco_pedantic.py, fn_deco_require_kwargs.py) are recorded with `sys.monitoring` (local LINE / PY_START
events on exactly those code objects; nothing is changed in the library), mapped to the statement ids of the translation
`harness/gen/calllayer_ir.py` (the id -> line table is computed from the current source on every run) and compared with the
path the Lean interpreter of the translated code took on the same case (`interpTrace` of the driver).

Comparison (per translated function, so that the layout of a multi-line statement does not matter):
* an execution of a function = its entry followed by its statement ids in order, consecutive repetitions of one id collapsed
  (a statement that spans several lines);
* procedural functions (`__init__`, assert_uses_kwargs, check_types, async_check_types, _check_types_of_arguments,
  _check_type_param, _check_types_args, _check_types_kwargs, _check_types_return, the two assertions, the two
  _get_return_value, the three wrappers): the list of executions must be equal - which value source (keyword / positional /
  default / unfilled-raise) each parameter took, the order of the parameters, which check raised, whether the body was
  invoked before or after the checks;
* property-like functions (type_vars, clazz, args_without_self), which a message string may evaluate once more: every path
  the interpreter took must have been observed, and every observed path must be one the interpreter took when it evaluated
  the function at all.
A disagreement is a correspondence break (never by itself a violation)."""
import sys, os, collections

HERE = os.path.dirname(os.path.abspath(__file__))
if os.path.dirname(HERE) not in sys.path:
    sys.path.insert(0, os.path.dirname(HERE))

PROCEDURAL = {1, 5, 6, 7, 8, 9, 10, 11, 12, 13, 14, 15, 16, 27, 28, 29}
PROPERTY_LIKE = {2, 3, 4}
TRACED = PROCEDURAL | PROPERTY_LIKE
TOOL = 1          # sys.monitoring.COVERAGE_ID (4 is core.LineCoverage, 3 the frozen trace, 2 / 5 are picked by the checker ir tie)
_state = {'ready': None, 'why': '', 'codes': {}, 'lines': {}, 'labels': {}, 'buf': None, 'n_exec': 0, 'n_traced': 0, 'tier': None, 'ids': {}}


def tier():
    if _state['tier'] is None:
        t = os.environ.get('VERIF_TIER', 'quick')
        if '--tier' in sys.argv and sys.argv.index('--tier') + 1 < len(sys.argv):
            t = sys.argv[sys.argv.index('--tier') + 1]
        _state['tier'] = t
    return _state['tier']


def configure(t):
    _state['tier'] = t


def _nested_code(code, name):
    for k in code.co_consts:
        if hasattr(k, 'co_code'):
            if k.co_name == name:
                return k
            r = _nested_code(k, name)
            if r is not None:
                return r
    return None


def setup():
    """translate the current source (ids, lines), find the code objects, register the monitoring callbacks - once per process"""
    if _state['ready'] is not None:
        return _state['ready']
    _state['ready'] = False
    try:
        import extract
        from gen import calllayer_ir as G
        import core
        try:
            funcs, lines = G.translate(core.REPO)
        except extract.Skip as e:
            _state['why'] = f'translation skipped: {e}'
            return False
        import pedantic.models.function_call as fc
        import pedantic.decorators.fn_deco_pedantic as pd
        import pedantic.decorators.fn_deco_require_kwargs as rk
        by_num = {}
        for num, lname, rel, cls, pyname, outer in G.FUNCS:
            if num not in TRACED:
                continue
            if cls == 'FunctionCall':
                o = fc.FunctionCall.__dict__[pyname]
                code = (o.fget if isinstance(o, property) else o).__code__
            elif rel.endswith('fn_deco_pedantic.py'):
                code = _nested_code(pd.pedantic.__code__, pyname)
            else:
                code = _nested_code(rk.require_kwargs.__code__, pyname)
            if code is None:
                _state['why'] = f'code object of {pyname} not found'
                return False
            by_num[num] = code
        for num, code in by_num.items():
            _state['codes'][code] = num
            m = {}
            for i, (rel, n, a, b, label) in lines.items():
                if i // 100 == num and i % 100 != 0:
                    for ln in range(a, b + 1):
                        m.setdefault(ln, i)          # statements are numbered outside-in: an `if` header keeps its own lines
            _state['lines'][num] = m
        _state['labels'] = {i: v[4] for i, v in lines.items()}
        _state['ids'] = {i: v for i, v in lines.items() if i // 100 in TRACED}
        mon = sys.monitoring
        if mon.get_tool(TOOL) is None:
            mon.use_tool_id(TOOL, 'pedverif-calltrace')
        E = mon.events

        def on_line(code, line):
            buf = _state['buf']
            if buf is not None:
                num = _state['codes'].get(code)
                if num is not None:
                    i = _state['lines'][num].get(line)
                    if i is not None:
                        buf.append(i)

        def on_start(code, offset):
            buf = _state['buf']
            if buf is not None:
                num = _state['codes'].get(code)
                if num is not None:
                    buf.append(num * 100)
        mon.register_callback(TOOL, E.LINE, on_line)
        mon.register_callback(TOOL, E.PY_START, on_start)
        for code in by_num.values():
            mon.set_local_events(TOOL, code, E.LINE | E.PY_START)
        _state['ready'] = True
    except Exception as e:          # the trace is an extra observation: never let it break the check itself
        _state['why'] = f'{type(e).__name__}: {e}'
        _state['ready'] = False
    return _state['ready']


def want(force=False):
    """is the next executed call traced?  quick: the first 300 calls of the process and then every 4th, 1500 at most; thorough: all"""
    _state['n_exec'] += 1
    if not setup():
        return False
    if _state['buf'] is not None:
        # a call made from the body of a call that is being traced (overlapping calls): the outer path would contain the inner call's
        # statements - give the outer trace up, do not trace the inner one
        _state['tainted'] = True
        return False
    if force or tier() == 'thorough':
        return True
    n = _state['n_exec']
    if _state['n_traced'] >= 1500:
        return False
    return n <= 300 or n % 4 == 0


def start():
    _state['n_traced'] += 1
    _state['buf'] = []
    _state['tainted'] = False


def stop():
    buf, _state['buf'] = _state['buf'], None
    if _state.get('tainted'):
        _state['tainted'] = False
        return None
    return buf or []


def project(ids):
    """flat path -> {function number: [execution, ...]}, an execution = [statement ids], consecutive repetitions collapsed"""
    per = {}
    for i in ids:
        n = i // 100
        if n not in TRACED:
            continue
        runs = per.setdefault(n, [])
        if i % 100 == 0:
            runs.append([])
        elif runs:
            if not runs[-1] or runs[-1][-1] != i:
                runs[-1].append(i)
    return per


def compare(py_ids, interp_ids, skip=()):
    """-> (ok, why)"""
    a, b = project(py_ids), project(interp_ids)
    for n in sorted(PROCEDURAL):
        if a.get(n, []) != b.get(n, []):
            return False, f'path of {fname(n)}: CPython executed {a.get(n, [])}, the interpreter of the translated code {b.get(n, [])}'
    for n in sorted(PROPERTY_LIKE - set(skip)):
        pa, pb = {tuple(r) for r in a.get(n, [])}, {tuple(r) for r in b.get(n, [])}
        if not pb <= pa or (pb and not pa <= pb):
            return False, f'paths of {fname(n)}: CPython took {sorted(pa)}, the interpreter of the translated code {sorted(pb)}'
    return True, ''


def fname(n):
    for i, v in _state['ids'].items():
        if i // 100 == n:
            return v[1]
    return f'function {n}'


def value_sources(ids):
    """the per-parameter decisions of one `_check_type_param` execution, by the label of the statement that took the value"""
    out = []
    for i in ids:
        if i // 100 != 9:
            continue
        lab = _state['labels'].get(i, '')
        if lab.startswith('.assignV .kwargsAtKey'): out.append('kw')
        elif lab.startswith('.assignV (.argsAt'): out.append('pos')
        elif lab.startswith('.assignV .paramDefault'): out.append('dflt')
        elif lab.startswith('.raisePed'): out.append('unfilled!')
        elif lab.startswith('.assertHasAnnotation'): out.append('|')
    s = ''.join(('' if x == '|' else x + ' ') if x != '|' else '/' for x in out)
    return s.strip('/ ').replace(' /', '/') or '-'


def coverage(results):
    """results of core.judge_all -> keys for evidence.coverage"""
    if not setup():
        return {'calltrace': {'enabled': False, 'why': _state['why']}}
    hit_py, hit_ir = collections.Counter(), collections.Counter()
    shapes = collections.Counter()
    which_raised = collections.Counter()
    n_py = n_ir = bad = 0
    for (c, i, m, j) in results:
        if not isinstance(m, dict) or 'interpTrace' not in m:
            continue
        n_ir += 1
        for x in set(m['interpTrace']):
            hit_ir[x] += 1
        if isinstance(i, dict) and i.get('trace') is not None:
            n_py += 1
            for x in set(i['trace']):
                hit_py[x] += 1
            shapes[value_sources(i['trace'])] += 1
            p = project(i['trace'])
            last = None
            for n in (9, 10, 11):
                if p.get(n):
                    last = n
            done = bool(p.get(15) or p.get(16) or p.get(29) and any(_state['labels'].get(x, '').startswith('return .callRaw') for r in p[29] for x in r))
            which_raised[('body invoked after ' if done else 'stopped in ') + (fname(last) if last else 'the wrapper')] += 1
            known = 'world' in c.get('c', {}) or not (i.get('world') or {}).get('tvm')        # the same rule as _call_common.correspondence
            if not c.get('x', {}).get('zoo_call') and not compare(i['trace'], m['interpTrace'], skip=() if known else (2, 3))[0]:
                bad += 1
    all_ids = sorted(x for x in _state['ids'] if x % 100)
    return {'calltrace': {
        'enabled': True, 'cases_with_observed_trace': n_py, 'cases_with_interpreter_trace': n_ir, 'trace_disagreements': bad,
        'parameter_value_sources (per _check_type_param run: kw / pos / dflt / unfilled!)': dict(shapes.most_common(40)),
        'where_the_call_got_to': dict(which_raised.most_common()),
        'statements': len(all_ids), 'statements_hit_by_cpython': sum(1 for x in all_ids if hit_py[x]),
        'statements_hit_by_interpreter': sum(1 for x in all_ids if hit_ir[x]),
        'statements_never_hit_by_cpython': [f'{x} {_state["ids"][x][1]}:{_state["ids"][x][2]} {_state["labels"].get(x, "")[:60]}' for x in all_ids if not hit_py[x]],
        'statements_never_hit_by_interpreter': [f'{x} {_state["ids"][x][1]}:{_state["ids"][x][2]}' for x in all_ids if not hit_ir[x]]}}


def with_trace_coverage(other=None):
    """wraps a plugin's extra_coverage"""
    def cov(results):
        out = dict(other(results)) if other is not None else {}
        out.update(coverage(results))
        return out
    return cov
