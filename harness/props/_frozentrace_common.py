"""Observed statement traces of pedantic/decorators/cls_deco_frozen_dataclass.py (+ pedantic/get_context.py), shared by C10 and C11.

The translator `gen/frozen_ir.py` numbers the statements of the file (`Gen/FrozenIR.lean: stmtLines`); the Lean interpreter of the
translated programs (`Model/FrozenIR.lean`) reports, for every case, the statements it executes, in order.  Here the *real* library is
watched while it executes the same case: `sys.monitoring` (tool id 3; id 4 is `core.LineCoverage`) delivers LINE events for the code objects
of those two files only (local events: nothing else in the process is slowed down, no hook in the repository), every line is mapped to the
statement whose header it belongs to, and the sequence is compared with the interpreter's path.

Conventions (the same on both sides): a statement that spans several lines / evaluates a comprehension or generator expression counts
once per execution; a loop header is visited before every iteration and once more when the loop ends; a statement that raises ends the
trace; every call of a function of the file starts afresh (two wrappers calling each other both report their first statement).

A disagreement is a break of the correspondence between model and code (`corr = False`), never by itself a property failure.
"""
import os, sys, types

TOOL = 3
_COMP = ('<genexpr>', '<listcomp>', '<dictcomp>', '<setcomp>')


def _owner(code):
    parts = [p for p in code.co_qualname.split('.') if p != '<locals>']
    while parts and parts[-1] in _COMP:
        parts.pop()
    return parts[-1] if parts else code.co_name


class Tracer:
    def __init__(self):
        self.ready = False
        self.why = None
        self.map = {}            # (function name, line) -> statement id
        self.rows = []
        self.buf = None
        self.last = None
        self.codes = []
        self.seen = set()        # statement ids ever observed
        self.unmapped = set()

    def setup(self):
        if self.ready or self.why:
            return self
        mon = getattr(sys, 'monitoring', None)
        if mon is None:
            self.why = 'sys.monitoring is not available'
            return self
        repo = os.environ.get('VERIF_REPO', '/repo')
        try:
            from gen import frozen_ir
            import extract
            try:
                self.rows = frozen_ir.table(repo)
            except extract.Skip as e:
                self.why = f'translator skipped: {e}'
                return self
            import pedantic.decorators.cls_deco_frozen_dataclass as M
            import pedantic.get_context as G
        except Exception as e:                       # a broken tree: the correspondence check reports it, not this module
            self.why = f'{type(e).__name__}: {e}'
            return self
        files = {}
        for (sid, role, owner, l0, l1, rel) in self.rows:
            files.setdefault(os.path.realpath(os.path.join(repo, rel)), None)
            for ln in range(l0, l1 + 1):
                self.map.setdefault((owner, ln), sid)
        roots = []
        for mod in (M, G):
            f = os.path.realpath(getattr(mod, '__file__', '') or '')
            if f not in files:
                continue
            for v in vars(mod).values():
                if isinstance(v, types.FunctionType) and os.path.realpath(v.__code__.co_filename) == f:
                    roots.append(v.__code__)
        todo = list(roots)
        while todo:
            c = todo.pop()
            if c in self.codes:
                continue
            self.codes.append(c)
            todo += [k for k in c.co_consts if isinstance(k, types.CodeType)]
        try:
            mon.use_tool_id(TOOL, 'pedverif-frozen-trace')
        except ValueError:
            self.why = f'sys.monitoring tool id {TOOL} is taken'
            return self
        owner_of = {c: _owner(c) for c in self.codes}
        is_comp = {c: c.co_name in _COMP for c in self.codes}
        smap, me = self.map, self

        def on_line(code, line):
            buf = me.buf
            if buf is None:
                return
            sid = smap.get((owner_of.get(code), line))
            if sid is None:
                sid = -line
                me.unmapped.add((owner_of.get(code), line))
            if sid != me.last:
                buf.append(sid)
                me.last = sid

        def on_start(code, offset):
            if me.buf is not None and not is_comp.get(code, False):
                me.last = None
        mon.register_callback(TOOL, mon.events.LINE, on_line)
        mon.register_callback(TOOL, mon.events.PY_START, on_start)
        for c in self.codes:
            mon.set_local_events(TOOL, c, mon.events.LINE | mon.events.PY_START)
        self.ready = True
        return self

    def begin(self):
        """start (or restart) recording"""
        if self.ready:
            self.buf = []
            self.last = None

    def end(self):
        """stop recording; the statement ids observed since the last `begin` (None: nothing was recorded)"""
        buf, self.buf = self.buf, None
        if buf is not None:
            self.seen.update(buf)
        return buf

    def close(self):
        if self.ready:
            mon = sys.monitoring
            for c in self.codes:
                try:
                    mon.set_local_events(TOOL, c, 0)
                except Exception:
                    pass
            mon.register_callback(TOOL, mon.events.LINE, None)
            mon.register_callback(TOOL, mon.events.PY_START, None)
            mon.free_tool_id(TOOL)
            self.ready = False


_T = [None]


def tracer():
    if _T[0] is None:
        _T[0] = Tracer()
    return _T[0].setup()


def compare(observed, predicted):
    """None: nothing to compare; '': the interpreter took the observed path; otherwise: where the two part"""
    if observed is None or predicted is None:
        return None
    if list(observed) == list(predicted):
        return ''
    k = 0
    while k < len(observed) and k < len(predicted) and observed[k] == predicted[k]:
        k += 1
    return (f'statement trace: the library executed {describe(observed[k:k + 4])} after {k} common statement(s), the IR interpreter '
            f'{describe(predicted[k:k + 4])} (observed {len(observed)} statements, predicted {len(predicted)})')


def describe(ids):
    t = tracer()
    names = {sid: f'{owner}:{l0}' for (sid, role, owner, l0, l1, rel) in t.rows}
    return '[' + ', '.join(f'{i}={names.get(i, "?")}' if i >= 0 else f'line {-i} (no statement)' for i in ids) + ']'


def coverage(pairs):
    """evidence: `pairs` = [(observed, predicted, tag)] of one run"""
    t = tracer()
    dist, agree, differ, compared = {}, 0, 0, 0
    hit = set()
    for obs, pred, tag in pairs:
        r = compare(obs, pred)
        if obs is not None:
            hit.update(i for i in obs if i >= 0)
        if r is None:
            continue
        compared += 1
        if r == '':
            agree += 1
        else:
            differ += 1
        key = ' '.join(str(i) for i in obs)
        d = dist.setdefault(key, [0, tag])
        d[0] += 1
    every = sorted(sid for (sid, *_r) in t.rows)
    top = sorted(dist.items(), key=lambda kv: -kv[1][0])
    return {'statement_traces': {
        'available': t.ready, 'why_not': t.why, 'compared': compared, 'agree': agree, 'differ': differ,
        'distinct_paths': len(dist),
        'paths': [{'n': n, 'example_tag': tag, 'path': k if len(k) < 400 else k[:400] + ' …'} for k, (n, tag) in top[:40]],
        'ir_statements': len(every), 'ir_statements_hit': len(hit & set(every)),
        'ir_statements_never_hit': [f'{sid} ({owner}:{l0})' for (sid, role, owner, l0, l1, rel) in sorted(t.rows) if sid not in hit],
        'lines_without_statement': sorted(f'{o}:{l}' for (o, l) in t.unmapped)}}
