"""C01 — soundness of the type checker: differential run of assert_value_matches_type against the Lean model and the
Lean spec `conforms` over generated (annotation, value) pairs, mostly conforming with one-position corruptions."""
import json
import _checker_common as K
import _call_common as C
import C03 as _C03
import C10 as _C10
import _callable_common as KC
import _intro_common as T

RULE = ('type-directed: annotation terms over the vocabulary (classes, Any, None, Union/Optional/X|Y, Literal, NewType, Type[..], forward '
        'references, list/set/frozenset/deque/abstract-collection/dict/defaultdict/mapping/tuple generics in typing and PEP 585 spelling, '
        'bare generics, nested to depth 3) built with the real typing constructors and reflected back from the object Python built; values '
        'generated to conform, 45% corrupted at one position (element of a wrong class, tuple lengthened/shortened, key/value swapped, None '
        'injected, bool<->int, container class changed), 10% arbitrary; thorough adds the exhaustive depth<=2 family. non-trivial = annotation '
        'is a generic / union / literal node or the value is a container')
EXHAUSTIVE = {'quick': False, 'thorough': False}
ASSUMPTIONS = ['values whose own __eq__/__repr__/__hash__ raise or lie are excluded', 'class table = builtins + user classes of harness/props/_checker_common.py; its issubclass / __name__ / __base__ / __annotations__ facts are read from the live interpreter and sent to the model with every case']
TRUSTED = ['reflection term <- typing object (harness/props/_checker_common.reflect_ann) stands for the introspection contract of DESIGN appendix F']


def cases(rng, tier):
    n = 8000 if tier == 'quick' else 150000      # quick: 8 000 pairs (12 000 before the ir tie made every case dearer); thorough unchanged
    out = K.gen_checker_cases(rng, n) + K.name_family() + K.big_cases(rng, 60 if tier == 'quick' else 600) + K.alias_cases(rng, 150 if tier == 'quick' else 1500) + K.cyclic_cases(rng, 120 if tier == 'quick' else 1200)
    # the two other routes into the checker that the statement names: a @pedantic call and a type-safe frozen dataclass
    m = 300 if tier == 'quick' else 3000
    out += C.build_cases(rng, m, calls_per=3, style='kw', tag='c01c') + C.scenario_cases(rng, m // 2, style='kw', tag='c01s')
    out += _C10.build_cases(rng, m // 3, 'c01d')
    kc = KC.gen_cases(rng, tier, alts=False)        # simple Callable signatures (separate model PedVerif.Callable)
    out += kc[::2] if tier == 'quick' else kc       # quick: every second one here (C02 runs the whole stream on every change)
    out += T.extra_cases(rng, tier)                 # exits of the translated checker that the type-directed generator meets rarely (ir tie)
    if tier == 'thorough':
        vals = K.small_values()
        for at in K.small_terms():
            for vt in vals:
                out.append(K.mk_case(at, vt, kind='small'))
    return out


def search(rng, tier, near):
    return K.gen_checker_cases(rng, 40000) + C.build_cases(rng, 1200, calls_per=3, style='kw', tag='c01x') \
        + C.scenario_cases(rng, 300, style='kw', tag='c01y') + _C10.build_cases(rng, 300, 'c01z') + KC.search(rng, tier, near)


def run_impl(cases):
    """three kinds of cases, each executed by the runner of its own layer (results back in the original order)"""
    runners = {'checker': T.run_impl_checker, 'calllayer': C.run_impl_calls, 'typesafe': _C10.run_impl, 'callable': KC.run_impl}
    out = [None] * len(cases)
    for kind, run in runners.items():
        idx = [i for i, c in enumerate(cases) if c['m'] == kind]
        for i, r in zip(idx, run([cases[i] for i in idx])):
            out[i] = r
    return out


def judge(case, impl, model):
    if case['m'] == 'callable':
        return KC.judge_sound(case, impl, model)
    if case['m'] == 'calllayer':          # acceptance by a @pedantic call: C03's oracle (body ran / value returned => conforms)
        j = _C03.judge(case, impl, model)
        j['tag'] = 'call/' + j['tag']
        return j
    if case['m'] == 'typesafe':           # acceptance by a type-safe frozen dataclass: only the soundness direction belongs to C01
        j = _C10.judge(case, impl, model)
        if j.get('pfail') and 'does not conform' not in j['pfail']:
            j['pfail'] = None; j['finding'] = None
        j['tag'] = 'dataclass/' + j['tag']
        return j
    assert model['wf'], 'harness bug: value is not well-formed w.r.t. the class table: ' + json.dumps(case['c']['val'])
    io = impl['out']
    if io.startswith('unbuildable'):
        return {'corr': True, 'pfail': None, 'nontrivial': False, 'tag': 'unbuildable'}
    ic, mc = K.verdict_class(io), K.verdict_class(model['out'])
    corr = ic == mc
    pfail = None
    finding = None
    regions = model['regions']
    if ic == 'accept' and not model['spec'] and 'fwdUnresolved' not in regions:
        pfail = 'accepted although the value does not conform to the annotation (spec `conforms` = false)'
        if 'iterator' in regions:
            pfail = 'accepted although the pending items of a one-shot iterator do not conform to the element type (spec `conforms` = false)'
        if corr:       # (the former region `namedtupleStructural` is repaired: a NamedTuple value is an ordinary value now)
            if 'iterator' in regions: finding = 'iteratorItemsUnchecked'       # not looked at by design: it would consume the iterator (C04)
    ann, val = case['c']['ann'], case['c']['val']
    nontrivial = ann[0] not in ('cls', 'any', 'none') or val[0] not in ('lit', 'inst')
    j = {'corr': corr, 'pfail': pfail, 'finding': finding, 'nontrivial': nontrivial, '_under': bool(model.get('underC01')),
         'tag': f"{ann[0]}/{io.split(':')[0]}/spec={int(model['spec'])}",
         'why': '' if corr else f'implementation {io} vs model {model["out"]}'}
    return T.apply(j, case, impl, model)      # + introspection record, `if` tests and statement trace of the interpreted translation


def extra_coverage(results):
    cov = T.coverage(results)
    chk = [j for (c, i, m, j) in results if c.get('m') == 'checker' and '_under' in j]
    # how many generated checker cases meet every hypothesis of `sound_partial` as the driver evaluates them (local string-annotation
    # guard, no unsupported node, well-formed value, no one-shot iterator): the theorem speaks about these
    cov['cases_under_sound_partial'] = sum(1 for j in chk if j['_under'])
    cov['checker_cases'] = len(chk)
    return cov


def twins(case):
    """amplified run: P <-> Pdup, 1 <-> True <-> 1.0, Literal members (see _checker_common.twins); call-level cases: primed twins"""
    return K.twins(case) + C.twins(case)


export_state, import_state = K.export_state, K.import_state      # the name table travels with replays / amplified runs
