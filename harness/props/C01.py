"""C01 — soundness of the type checker: differential run of assert_value_matches_type against the Lean model and the
Lean spec `conforms` over generated (annotation, value) pairs, mostly conforming with one-position corruptions."""
import json
import _checker_common as K

RULE = ('type-directed: annotation terms over the vocabulary (classes, Any, None, Union/Optional/X|Y, Literal, NewType, Type[..], forward '
        'references, list/set/frozenset/deque/abstract-collection/dict/defaultdict/mapping/tuple generics in typing and PEP 585 spelling, '
        'bare generics, nested to depth 3) built with the real typing constructors and reflected back from the object Python built; values '
        'generated to conform, 45% corrupted at one position (element of a wrong class, tuple lengthened/shortened, key/value swapped, None '
        'injected, bool<->int, container class changed), 10% arbitrary; thorough adds the exhaustive depth<=2 family. non-trivial = annotation '
        'is a generic / union / literal node or the value is a container')
EXHAUSTIVE = {'quick': False, 'thorough': False}
ASSUMPTIONS = ['values whose own __eq__/__repr__/__hash__ raise or lie are excluded', 'class table = builtins + user classes of harness/props/_checker_common.py; its issubclass / __name__ / __base__ / __annotations__ facts are read from the live interpreter and sent to the model with every case']
TRUSTED = ['reflection term <- typing object (harness/props/_checker_common.reflect_ann) stands for the introspection contract of DESIGN appendix F']


def cases(rng, tier):
    n = 12000 if tier == 'quick' else 150000
    out = K.gen_checker_cases(rng, n) + K.name_family()
    if tier == 'thorough':
        vals = K.small_values()
        for at in K.small_terms():
            for vt in vals:
                out.append(K.mk_case(at, vt, kind='small'))
    return out


def search(rng, tier, near):
    return K.gen_checker_cases(rng, 40000)


run_impl = K.run_impl_checker


def judge(case, impl, model):
    assert model['wf'], 'harness bug: value is not well-formed w.r.t. the class table: ' + json.dumps(case['c']['val'])
    io = impl['out']
    if io.startswith('unbuildable'):
        return {'corr': True, 'pfail': None, 'nontrivial': False, 'tag': 'unbuildable'}
    ic, mc = K.verdict_class(io), K.verdict_class(model['out'])
    corr = ic == mc
    pfail = None
    finding = None
    regions = model['regions']
    if ic == 'accept' and not model['spec'] and 'iterator' not in regions:
        pfail = 'accepted although the value does not conform to the annotation (spec `conforms` = false)'
        if corr:
            if 'strAnn' in regions: finding = 'strAnnNameCollision'
            elif 'namedtuple' in regions: finding = 'namedtupleStructural'
    ann, val = case['c']['ann'], case['c']['val']
    nontrivial = ann[0] not in ('cls', 'any', 'none') or val[0] not in ('lit', 'inst')
    return {'corr': corr, 'pfail': pfail, 'finding': finding, 'nontrivial': nontrivial,
            'tag': f"{ann[0]}/{io.split(':')[0]}/spec={int(model['spec'])}",
            'why': '' if corr else f'implementation {io} vs model {model["out"]}'}
