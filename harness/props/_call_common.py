"""Shared by C03 C04 C05 (and the call level of C06 C08): generator of *programs* (real module files with decorated
callables), extraction of the callable description the Lean model needs (through the same stdlib introspection the
library uses: inspect.signature / getfullargspec / getsource / ismethod), call generation, execution of the decorated
callable and of its undecorated twin, canonical outcomes."""
import sys, os, json, random, inspect, types, importlib.util, tempfile, shutil, asyncio, collections, collections.abc, typing, io, contextlib
import re
import _checker_common as K
import _calltrace_common as T

ANN_POOL = ['int', 'int', 'str', 'float', 'bool', 'List[int]', 'list[int]', 'Dict[str, int]', 'Optional[int]', 'Union[int, str]',
            'Tuple[int, str]', 'Tuple[int, ...]', 'Set[int]', 'P', 'Any', 'Iterable[int]', 'Iterable[int]', 'Optional[Iterable[int]]', 'Sequence[str]', 'int | None',
            'Literal[1, 2]', 'Type[P]', 'None', "'P'", "List['C1']", "Optional['P']", "List['CQ']", "Literal['{}', '{x}']"]
DOC_POOL = ['int', 'str', 'float', 'bool', 'List[int]', 'Dict[str, int]', 'Optional[int]', 'Union[int, str]']
BARE_POOL = ['list', 'List', 'dict', 'Dict', 'set', 'Set', 'frozenset', 'FrozenSet', 'tuple', 'Tuple', 'type', 'Type', 'Callable', 'Iterable', 'Sequence']
RET_POOL = ['int', 'str', 'None', 'None', 'List[int]', 'Optional[int]', 'P', 'Any', 'bool', 'Tuple[int, str]', "Literal['{}', '{x}']", "Literal['{', 1]"]
NEEDLES = [None] * 6 + ['*args', '@staticmethod', '@pedantic', '@{name}.setter', 'mail me: a@b.c', '**kwargs', '@require_kwargs']
PRELUDE = '''from typing import *
from functools import wraps
from pedantic import pedantic, pedantic_class, require_kwargs, pedantic_require_docstring
from pedantic import pedantic as ped
from _checker_common import P, C1, C2, G, U, MI, NT1, NT2
def _BODY(idx, received):
    return _HOOK(idx, received)
import inspect as _inspect
def passthru(f):
    if _inspect.iscoroutinefunction(f):
        @wraps(f)
        async def aw(*a, **k): return await f(*a, **k)
        return aw
    @wraps(f)
    def w(*a, **k): return f(*a, **k)
    return w
'''
TWIN_PRELUDE = PRELUDE.replace('from pedantic import pedantic, pedantic_class, require_kwargs, pedantic_require_docstring\nfrom pedantic import pedantic as ped\n',
                               'pedantic = pedantic_class = require_kwargs = ped = pedantic_require_docstring = lambda x: x\n')
LISTED = ['__init__', '__str__', '__repr__', '__hash__']


def lit_src(r, ann):
    """(source text of a literal default for this annotation, conforming?)"""
    table = {'int': ['5', '0'], 'str': ["'d'", "''"], 'float': ['1.5'], 'bool': ['True', 'False'], 'List[int]': ['[1, 2]', '[]'], 'list[int]': ['[1]'],
             'Dict[str, int]': ["{'a': 1}", '{}'], 'Optional[int]': ['None', '3'], 'Union[int, str]': ['1', "'u'"], 'Tuple[int, str]': ["(1, 'a')"],
             'Tuple[int, ...]': ['(1, 2)', '()'], 'Set[int]': ['{1}'], 'P': [], 'Any': ['None', '1'], 'Iterable[int]': ['[1]', '(1,)'],
             'Sequence[str]': ["['a']", "'ab'"], 'Optional[Iterable[int]]': ['None', '[1]'], 'int | None': ['None', '7'], 'Literal[1, 2]': ['1', '2'], 'Type[P]': ['P', 'C1'], 'None': ['None']}
    good = table.get(ann, [])
    if good and r.random() < 0.8:
        return r.choice(good), True
    bad = r.choice(["'bad'", '5', 'None', '[1]', "['x']", '(1,)', '1.5'])
    return bad, None     # conformance unknown: the spec decides


def gen_property(r, idx, profile='mixed'):
    """a property with getter, (usually) setter and (sometimes) deleter in a @pedantic_class class or decorated directly"""
    def pick():
        if profile == 'incomplete' and r.random() < 0.3:
            return r.choice([None] + BARE_POOL)
        x = r.random()
        return r.choice(ANN_POOL) if x < 0.94 else (None if x < 0.97 else r.choice(BARE_POOL))
    ann = pick()
    ret = ann if r.random() < 0.7 else pick()
    setter = r.random() < 0.85
    deleter = r.random() < 0.5
    direct = r.random() < 0.35
    setret = r.choice([' -> None'] * 6 + ['', ' -> int'])
    delret = r.choice([' -> None'] * 6 + [''])
    name = r.choice([f'f{idx}'] * 5 + [f'_f{idx}', f'f{idx}__'])
    cls = f'K{idx}'
    ped = '    @pedantic\n' if direct else ''
    def block(deco, sig, retann, p):
        return f'    {deco}\n{p}    def {name}({sig}){retann}:\n        return _BODY({idx}, locals())\n'
    parts = [('@property', 'self', f' -> {ret}' if ret else '')]
    if setter:
        parts.append((f'@{name}.setter', 'self, v' + (f': {ann}' if ann else ''), setret))
    if deleter:
        parts.append((f'@{name}.deleter', 'self', delret))
    src = ('' if direct else '@pedantic_class\n') + f'class {cls}:\n' + ''.join(block(d, sg, rt, ped) for d, sg, rt in parts)
    twin = f'class {cls}:\n' + ''.join(block(d, sg, rt, '') for d, sg, rt in parts)
    access = [('propget', cls, name)] + ([('propset', cls, name)] if setter else []) + ([('propdel', cls, name)] if deleter else [])
    if r.random() < 0.25:
        note = r.choice(['  # noqa: F811', '  # type: ignore[misc]', '  # keep'])
        def annotate(text):
            return ''.join((l + note if l.lstrip().startswith('@') else l) + '\n' for l in text.splitlines())
        src, twin = annotate(src), annotate(twin)
    return {'src': src, 'twin': twin, 'access': access, 'kind': 'prop_direct' if direct else 'prop_class', 'name': name, 'cls': cls, 'idx': idx,
            'flavour': 'sync', 'needle': None, 'stack': 'none', 'alias': False}


def gen_callable(r, idx, profile='mixed'):
    """one decorated callable: returns {'src', 'twin', 'access': [...], 'kind', 'name', 'cls'}"""
    kind = r.choice(['plain'] * 5 + ['inst_direct', 'inst_class', 'inst_class', 'static_class', 'class_class', 'static_direct',
                                    'dunder_class', 'require_kwargs', 'require_kwargs_method', 'prop_class', 'bound_direct', 'bound_rk'])
    if kind == 'prop_class':
        return gen_property(r, idx, profile)
    flavour = r.choice(['sync'] * 6 + ['coroutine'] * 2)
    n = r.randint(0, 3)
    params = []
    seen_default = False
    for i in range(n):
        x = r.random()
        if profile == 'incomplete' and r.random() < 0.35:
            ann = r.choice([None] + BARE_POOL)
        else:
            ann = r.choice(ANN_POOL) if x < 0.92 else (None if x < 0.96 else r.choice(BARE_POOL))
        dflt = None
        if seen_default or r.random() < 0.3:
            seen_default = True
            dflt = lit_src(r, ann)[0] if ann is not None else '5'
            if (ann is None or ann in BARE_POOL) and r.random() < 0.4:
                dflt = 'None'             # the common `items: list = None`
        pname = f'p{i}'
        if r.random() < (0.25 if profile == 'incomplete' else 0.08) and kind not in ('class_class',):      # cls / args / kwargs used as ordinary parameter names
            cand = [n for n in ('cls', 'cls', 'cls', 'args', 'kwargs', 'context', 'func', 'f', 'call', 'value', 'type_', 'err', 'key', 'result', 'instance', 'klass') if n not in [q[0] for q in params]]
            if cand:
                pname = r.choice(cand)
        params.append((pname, ann, dflt))
    star = r.random() < 0.2 and 'args' not in [q[0] for q in params]
    dstar = r.random() < 0.2 and 'kwargs' not in [q[0] for q in params]
    star_ann = r.choice(['int', 'int', 'str', None, 'list', 'List[int]']) if star else None
    dstar_ann = r.choice(['int', 'str', None, 'dict', 'Optional[int]']) if dstar else None
    kwonly = []
    if r.random() < (0.3 if star else 0.15):          # keyword-only parameters: after *args or after a lone `*`
        for j in range(r.randint(1, 2)):
            if profile == 'incomplete' and r.random() < 0.5:
                ann = r.choice([None] + BARE_POOL)
            else:
                x = r.random()
                ann = r.choice(ANN_POOL) if x < 0.9 else (None if x < 0.95 else r.choice(BARE_POOL))
            kwonly.append((f'k{j}', ann, r.choice([None, None, lit_src(r, ann)[0] if ann is not None else '5'])))
    posonly = 0                                        # positional-only parameters (before `/`): only reachable where positional calls are allowed
    if params and kind == 'dunder_class' and r.random() < 0.4:
        posonly = r.randint(1, len(params))
        if any(d is not None for (_, _, d) in params[:posonly]) and any(d is None for (_, _, d) in params[posonly:]):
            posonly = 0
    ret = r.choice(RET_POOL) if r.random() < 0.93 else (None if r.random() < 0.6 else r.choice(BARE_POOL))
    if profile == 'incomplete' and r.random() < 0.25:
        ret = r.choice([None] + BARE_POOL)
    stack = r.choice(['none'] * 5 + ['outer', 'inner']) if kind in ('plain', 'inst_direct') else 'none'
    alias = kind == 'plain' and stack == 'none' and r.random() < 0.08
    needle = r.choice(NEEDLES)
    where = r.choice(['comment', 'docstring', 'string'])
    nested = r.random() < 0.08          # a decorated helper nested in the body: lines that start with '@' after the first def
    # the library's own shortcut @pedantic_require_docstring (its name CONTAINS "@pedantic"): needs a consistent Google docstring
    docdeco = kind == 'plain' and stack == 'none' and not alias and profile != 'incomplete' and r.random() < 0.1
    if docdeco:
        params = [(pn, r.choice(DOC_POOL), (None if d is None else lit_src(r, 'int')[0])) for (pn, _, d) in params]
        kwonly = [(pn, r.choice(DOC_POOL), (None if d is None else lit_src(r, 'int')[0])) for (pn, _, d) in kwonly]
        star_ann = r.choice(['int', 'str']) if star else None
        dstar_ann = r.choice(['int', 'str']) if dstar else None
        ret = r.choice(['int', 'str', 'None', 'List[int]', 'bool'])
        needle, nested = None, False
    base = r.choice([f'f{idx}'] * 6 + [f'__f{idx}', f'f{idx}__', f'_f{idx}'])
    name = base
    if kind not in ('plain', 'require_kwargs') and name.startswith('__'):
        name = f'f{idx}__'          # `__x` inside a class body would be name-mangled
    if kind == 'dunder_class':
        name = r.choice(['__call__', '__call__', '__getitem__', '__lt__'] + LISTED[1:2])
    if needle and '{name}' in needle:
        needle = needle.replace('{name}', name)

    def sig(first):
        parts = [first] if first else []
        for i, (pn, ann, d) in enumerate(params):
            s = pn + (f': {ann}' if ann else '')
            if d is not None:
                s += ' = ' + d
            parts.append(s)
            if posonly and i == posonly - 1:
                parts.append('/')
        if star:
            parts.append('*args' + (f': {star_ann}' if star_ann else ''))
        elif kwonly:
            parts.append('*')
        for (pn, ann, d) in kwonly:
            parts.append(pn + (f': {ann}' if ann else '') + (f' = {d}' if d is not None else ''))
        if dstar:
            parts.append('**kwargs' + (f': {dstar_ann}' if dstar_ann else ''))
        return ', '.join(parts)

    def body(ind):
        lines = []
        if docdeco:
            doc = [f'{ind}""" Generated.', '']
            documented = [(pn, ann) for (pn, ann, _) in params] + ([('args', star_ann)] if star else []) + \
                [(pn, ann) for (pn, ann, _) in kwonly] + ([('kwargs', dstar_ann)] if dstar else [])
            if documented:
                doc += [f'{ind}Args:'] + [f'{ind}    {pn} ({ann}): a value' for pn, ann in documented] + ['']
            if ret != 'None':
                doc += [f'{ind}Returns:', f'{ind}    {ret}: the result', '']
            lines += doc + [f'{ind}"""']
        if needle and where == 'docstring':
            lines.append(f'{ind}""" doc: {needle} """')
        if needle and where == 'comment':
            lines.append(f'{ind}# note: {needle}')
        if needle and where == 'string':
            lines.append(f'{ind}_unused = {needle!r}')
        if nested:
            lines.append(f'{ind}@passthru\n{ind}def _helper{idx}(): return 0')
        lines.append(f'{ind}return _BODY({idx}, locals())')
        return '\n'.join(lines) + '\n'
    retann = f' -> {ret}' if ret else ''
    d = 'async def' if flavour == 'coroutine' else 'def'
    ped = '@ped' if alias else '@pedantic'
    cls = None
    access = []
    if kind in ('plain', 'require_kwargs'):
        deco0 = ('@pedantic_require_docstring' if docdeco else ped) if kind == 'plain' else '@require_kwargs'
        decos = {'none': [deco0], 'outer': ['@passthru', deco0], 'inner': [deco0, '@passthru']}[stack]
        src = ''.join(x + '\n' for x in decos) + f'{d} {name}({sig(None)}){retann}:\n' + body('    ')
        twin = ''.join(x + '\n' for x in decos if x == '@passthru') + f'{d} {name}({sig(None)}){retann}:\n' + body('    ')
        access = [('mod', name)]
    else:
        cls = f'K{idx}'
        cdeco = '@pedantic_class\n' if kind.endswith('_class') and kind != 'dunder_class' or kind == 'dunder_class' else ''
        if kind == 'inst_direct':
            decos = {'none': ['@pedantic'], 'outer': ['@passthru', '@pedantic'], 'inner': ['@pedantic', '@passthru']}[stack]
            m = ''.join('    ' + x + '\n' for x in decos) + f"    {d} {name}({sig('self')}){retann}:\n" + body('        ')
            tm = ''.join('    ' + x + '\n' for x in decos if x == '@passthru') + f"    {d} {name}({sig('self')}){retann}:\n" + body('        ')
            # the truth value / length of the receiver is the user's business: instances that are falsy, or whose __len__ / __bool__
            # are decorated themselves
            extra = r.choice([None] * 5 + ['len0', 'len_ped', 'bool_false', 'bool_ped'])
            if extra:
                em = {'len0': '    def __len__(self):\n        return 0\n', 'len_ped': '    @pedantic\n    def __len__(self) -> int:\n        return 2\n',
                      'bool_false': '    def __bool__(self):\n        return False\n', 'bool_ped': '    @pedantic\n    def __bool__(self) -> bool:\n        return True\n'}[extra]
                m += em; tm += em.replace('    @pedantic\n', '')
            access = [('inst', cls, name)]
        elif kind in ('bound_direct', 'bound_rk'):
            # the decorator is applied to a BOUND method object: `b = pedantic(obj.method)`
            m = tm = f"    {d} {name}({sig('self')}){retann}:\n" + body('        ')
            access = [('mod', f'b_{name}')]
        elif kind == 'require_kwargs_method':
            m = f"    @require_kwargs\n    {d} {name}({sig('self')}){retann}:\n" + body('        ')
            tm = f"    {d} {name}({sig('self')}){retann}:\n" + body('        ')
            access = [('inst', cls, name)]
        elif kind in ('inst_class', 'dunder_class'):
            # a member of a @pedantic_class class may carry another (functools.wraps based) decorator of its own
            other = '    @passthru\n' if kind == 'inst_class' and r.random() < 0.25 else ''
            m = tm = other + f"    {d} {name}({sig('self')}){retann}:\n" + body('        ')
            access = [('inst', cls, name)]
        elif kind == 'static_class':
            other = '    @passthru\n' if r.random() < 0.2 else ''
            m = tm = f"    @staticmethod\n" + other + f"    {d} {name}({sig(None)}){retann}:\n" + body('        ')
            access = [('cls', cls, name), ('inst', cls, name)]
        elif kind == 'class_class':
            other = '    @passthru\n' if r.random() < 0.2 else ''
            m = tm = f"    @classmethod\n" + other + f"    {d} {name}({sig('cls')}){retann}:\n" + body('        ')
            access = [('cls', cls, name), ('inst', cls, name)]
        else:  # static_direct
            m = f"    @staticmethod\n    @pedantic\n    {d} {name}({sig(None)}){retann}:\n" + body('        ')
            tm = f"    @staticmethod\n    {d} {name}({sig(None)}){retann}:\n" + body('        ')
            access = [('cls', cls, name), ('inst', cls, name)]
        src = cdeco + f'class {cls}:\n' + m
        twin = f'class {cls}:\n' + tm
        wrap_local = kind not in ('bound_direct', 'bound_rk') and r.random() < 0.1
        if not wrap_local and kind not in ('bound_direct', 'bound_rk') and r.random() < 0.12:
            # the member is reached through an (undecorated) SUBCLASS of the class that defines it
            sub = f'class {cls}s({cls}):\n    pass\n'
            src += sub; twin += sub
            access = [(a[0], cls + 's') + tuple(a[2:]) for a in access]
        if wrap_local:
            # the class is defined inside a function (its __qualname__ contains '<locals>') and then bound at module level
            ind = lambda t: ''.join('    ' + l + '\n' for l in t.splitlines())
            src = f'def _mk{idx}():\n' + ind(src) + f'    return {cls}\n{cls} = _mk{idx}()\n'
            twin = f'def _mk{idx}():\n' + ind(twin) + f'    return {cls}\n{cls} = _mk{idx}()\n'
        if kind in ('bound_direct', 'bound_rk'):
            deco = 'pedantic' if kind == 'bound_direct' else 'require_kwargs'
            src += f'_o{idx} = {cls}()\nb_{name} = {deco}(_o{idx}.{name})\n'
            twin += f'_o{idx} = {cls}()\nb_{name} = _o{idx}.{name}\n'
    if r.random() < 0.12:
        # a trailing comment on every decorator line (`@x.setter  # noqa`, `@staticmethod  # type: ignore`): comments are no decorators
        note = r.choice(['  # noqa: F811', '  # type: ignore[misc]', '  # @staticmethod', '  # keep'])
        def annotate(text):
            return ''.join((l + note if l.lstrip().startswith('@') else l) + '\n' for l in text.splitlines())
        src, twin = annotate(src), annotate(twin)
    return {'src': src, 'twin': twin, 'access': access, 'kind': kind, 'name': name, 'cls': cls, 'idx': idx, 'flavour': flavour,
            'needle': needle, 'stack': stack, 'alias': alias}


# ------------------------------------------------------------------ module loading

class Hook:
    def __init__(self):
        self.script = None
        self.journal = []
        self.produced = None

    def __call__(self, idx, received):
        self.journal.append((idx, dict(received)))
        kind, obj = self.script
        if kind == 'raises':
            raise obj
        if kind == 'retzoo':              # an object outside the value vocabulary, built when the body runs (may need the running loop)
            self.produced = obj()
            return self.produced
        return obj


def load_module(path, name, hook):
    spec = importlib.util.spec_from_file_location(name, path)
    mod = importlib.util.module_from_spec(spec)
    mod._HOOK = hook
    sys.modules[name] = mod
    with contextlib.redirect_stdout(io.StringIO()):
        spec.loader.exec_module(mod)
    return mod


def find_raw(obj):
    """the function object that @pedantic / @require_kwargs received: walk the __wrapped__ chain to the library's wrapper"""
    o = obj
    for _ in range(8):
        code = getattr(o, '__code__', None)
        fn = code.co_filename if code is not None else ''
        if fn.endswith('fn_deco_pedantic.py'):
            return o.__wrapped__, 'pedantic'
        if fn.endswith('fn_deco_require_kwargs.py'):
            return o.__wrapped__, 'requireKwargs'
        if not hasattr(o, '__wrapped__'):
            break
        o = o.__wrapped__
    return None, None


def gen_ret_term(ann):
    from pedantic.type_checking_logic.check_types import get_base_generic, get_type_arguments
    try:
        base = get_base_generic(cls=ann)
    except Exception:
        return ["notGenType"]
    if base not in [typing.Generator, typing.Iterable, typing.Iterator]:
        return ["notGenType"]
    args = get_type_arguments(ann)
    def t(a):
        return K.reflect_ann(a, nested=False) if a is None or a is type(None) else K.reflect_ann(a, nested=True)
    if len(args) == 1:
        return ["one", K.reflect_ann(args[0], True)]
    if len(args) == 3:
        return ["three"] + [(["none"] if a is type(None) else K.reflect_ann(a, True)) for a in args]
    return ["badArity"]


KIND = {inspect.Parameter.POSITIONAL_ONLY: 'po', inspect.Parameter.POSITIONAL_OR_KEYWORD: 'pk', inspect.Parameter.KEYWORD_ONLY: 'ko',
        inspect.Parameter.VAR_POSITIONAL: 'vp', inspect.Parameter.VAR_KEYWORD: 'vk'}


def describe(raw, mode):
    """the description of the callable as the library's introspection sees it (JSON for the Lean model)"""
    sig = inspect.signature(raw)
    spec = inspect.getfullargspec(raw)
    params = []
    for p in sig.parameters.values():
        ann = None if p.annotation is inspect.Parameter.empty else K.reflect_ann(p.annotation)
        dflt = None
        if p.default is not inspect.Parameter.empty:
            dflt = K.reflect_val(p.default)
            if dflt is None:
                raise ValueError('default outside the value vocabulary')
        params.append({'name': K.nid(p.name), 'kind': KIND[p.kind], 'ann': ann, 'dflt': dflt})
    ra = sig.return_annotation
    flavour = 'coroutine' if inspect.iscoroutinefunction(raw) else 'generator' if inspect.isgeneratorfunction(raw) else 'sync'
    return {'name': raw.__name__, 'source': inspect.getsource(raw), 'qualDotted': '.' in raw.__qualname__, 'params': params,
            'selfName': K.nid('self'), 'firstIsSelf': spec.args != [] and spec.args[0] == 'self', 'isBound': inspect.ismethod(raw),
            'ret': None if ra is inspect.Signature.empty else K.reflect_ann(ra),
            'genRet': gen_ret_term(ra) if flavour == 'generator' and ra is not inspect.Signature.empty else ["notGenType"],
            'flavour': flavour, 'mode': mode}


# ------------------------------------------------------------------ calls

def fresh(term):
    """(term, freshly built object) - objects are built so that identity is meaningful where CPython allows it"""
    return term, K.build_val(term)


def gen_call(r, F, desc, style=None, bad_range=8, hot=()):
    """abstract call: positional value terms (beyond the implicit self/cls) and keyword value terms"""
    raw_params = [p for p in desc['params'] if K.name_of(p['name']) not in ('self', 'cls')] if not desc['isBound'] else list(desc['params'])
    raw_params = [p for p in raw_params if K.name_of(p['name']) != 'self']
    plain = [p for p in raw_params if p['kind'] in ('po', 'pk')]
    kwonly = [p for p in raw_params if p['kind'] == 'ko']
    has_star = any(p['kind'] == 'vp' for p in raw_params)
    has_dstar = any(p['kind'] == 'vk' for p in raw_params)
    star_ann = next((p['ann'] for p in raw_params if p['kind'] == 'vp'), None)
    dstar_ann = next((p['ann'] for p in raw_params if p['kind'] == 'vk'), None)
    if style is None:
        style = r.choice(['kw'] * 6 + ['pos1', 'pos1', 'pos2', 'posall'])
    k = {'kw': 0, 'pos1': 1, 'pos2': 2, 'posall': len(plain)}[style]
    k = min(max(k, sum(1 for p in plain if p['kind'] == 'po')), len(plain))      # positional-only parameters cannot be passed by name
    bad_at = r.randrange(0, bad_range)      # position of a deliberately wrong value (most calls have none)
    pos, kw = [], []
    slot = 0

    def value_for(ann):
        nonlocal slot
        slot += 1
        want = ann if ann is not None and ann[0] not in ('bare', 'special') else K.cls_term(int)
        vt = K.gen_val_for(r, want, 2)
        if slot == bad_at and r.random() < 0.9:
            vt = K.corrupt_term(r, vt)
        try:
            return K.canon_term(vt)
        except TypeError:
            return K.lit(0)
    for i, p in enumerate(plain):
        if i < k:
            pos.append(value_for(p['ann']))
        else:
            if p['dflt'] is not None and r.random() < 0.5:
                continue
            if p['dflt'] is None and r.random() < 0.05:
                continue            # missing required
            kw.append([p['name'], value_for(p['ann'])])
    for p in kwonly:
        if p['dflt'] is not None and r.random() < 0.5:
            continue
        kw.append([p['name'], value_for(p['ann'])])
    if has_star and k == len(plain) and r.random() < 0.7:
        for _ in range(r.randint(0, 2)):
            pos.append(value_for(star_ann))
    if has_dstar:
        own = {K.name_of(p['name']) for p in desc['params'] if p['kind'] in ('pk', 'ko')}
        # keys of **kwargs: also the names other callables use for their named parameters (state kept between calls must not leak),
        # and the names of the variadic parameters themselves (f(a=1, kwargs=..) lands in **kwargs under the key 'kwargs')
        pool = [n for n in ('x0', 'x1', 'p0', 'p1', 'p2', 'k0', 'kwargs', 'args') if n not in own]
        keys = r.sample(pool, min(len(pool), r.randint(0, 2)))
        if hot and r.random() < 0.8:
            keys = list(dict.fromkeys([n for n in hot if n not in own][:2] + keys))[:3]
        for key in keys:
            kw.append([K.nid(key), value_for(dstar_ann)])
    if r.random() < 0.03:
        kw.append([K.nid('zz'), K.lit(1)])       # surplus keyword
    r.shuffle(kw)
    return pos, kw


async def _noop_coro():
    return 7


def _done_future():
    f = asyncio.get_running_loop().create_future()
    f.set_result(5)
    return f


RESULT_ZOO = [('NotImplemented', lambda: NotImplemented), ('Ellipsis', lambda: ...), ('class', lambda: int), ('builtin', lambda: len),
              ('exception-instance', lambda: ValueError('returned, not raised')), ('nan', lambda: float('nan')), ('bigint', lambda: 10 ** 30),
              ('range', lambda: range(3)), ('generator-object', lambda: (x for x in [1])), ('object', lambda: object()),
              ('lambda', lambda: (lambda: 0)), ('module', lambda: sys), ('coroutine-object', lambda: _noop_coro()),
              ('done-future', _done_future)]


def gen_body(r, desc):
    ret = desc['ret']
    x = r.random()
    if (ret is None or ret == ["any"] or ret[0] == 'bare') and r.random() < 0.25:
        # the annotation accepts everything (or is incomplete: the value is never looked at): return an object outside the vocabulary
        k = r.randrange(len(RESULT_ZOO))
        if RESULT_ZOO[k][0] == 'done-future' and desc['flavour'] != 'coroutine':
            k = 0
        return ['retzoo', k]
    if x < 0.12:
        return ['raises', r.choice(['Exception', 'BaseException', 'Pedantic', 'TypeError', 'TypeErrorCallLike'])]
    if (ret is None or ret[0] == 'bare') and x < 0.32:
        return ['ret', K.lit(None)]           # a function without (complete) return annotation that simply falls off its end
    want = ret if ret is not None and ret[0] not in ('bare', 'special') else K.cls_term(int)
    if ret is not None and ret == ["none"]:
        vt = K.lit(None)
    else:
        vt = K.gen_val_for(r, want, 2)
    if x > 0.8:
        vt = K.corrupt_term(r, vt)
    try:
        return ['ret', K.canon_term(vt)]
    except TypeError:
        return ['ret', K.lit(0)]


class BodyExc(Exception): pass
class BodyBaseExc(BaseException): pass


def make_exc(kind, name='f'):
    from pedantic.exceptions import PedanticException
    if kind == 'TypeErrorCallLike':      # the body itself fails with a TypeError that reads like a wrong call OF THE FUNCTION (a bug inside the body)
        return TypeError(f"{name}() got an unexpected keyword argument 'zz'")
    return {'Exception': BodyExc, 'BaseException': BodyBaseExc, 'Pedantic': PedanticException, 'TypeError': TypeError}[kind]('scripted')


def classify(e, scripted):
    from pedantic.exceptions import (PedanticCallWithArgsException, PedanticTypeCheckException, PedanticTypeVarMismatchException,
                                     PedanticException)
    if scripted is not None and e is scripted:
        return 'BODY_EXC'
    if isinstance(e, PedanticCallWithArgsException): return 'PED:CallWithArgs'
    if isinstance(e, PedanticTypeVarMismatchException): return 'PED:TypeVarMismatch'
    if isinstance(e, PedanticTypeCheckException): return 'PED:TypeCheck'
    if isinstance(e, PedanticException): return 'PED:' + type(e).__name__
    return 'ESC:' + type(e).__name__


CALLER_SRC = """def call(target, pos, kw):
    return target(*pos, **kw)
async def acall(target, pos, kw):
    return await target(*pos, **kw)
def getp(inst, name):
    return getattr(inst, name)
def setp(inst, name, v):
    setattr(inst, name, v)
def delp(inst, name):
    delattr(inst, name)
"""


class PropAccess:
    """attribute access on a property, performed from the calling module (not from a helper of the harness)"""

    def __init__(self, how, inst, name):
        self.how, self.inst, self.name = how, inst, name

    def __call__(self, *pos):                 # without a caller module
        return {'propget': getattr, 'propset': setattr, 'propdel': delattr}[self.how](self.inst, self.name, *pos)
_callers_made = [0]


def make_caller(names):
    """a fresh module from which decorated callables are called: the library resolves string annotations / forward references
    in the namespace of the CALLER of the wrapper (get_context), so what that module's globals bind matters"""
    _callers_made[0] += 1
    m = types.ModuleType(f'pedcaller_{_callers_made[0]}')
    exec(compile(CALLER_SRC, f'<pedcaller_{_callers_made[0]}>', 'exec'), m.__dict__)
    if names:
        m.__dict__.update(K.CTX)
    m.__dict__.update(K.ZCTX)          # names bound to non-types (a module, an int, a function, None, a string)
    return m


CLASH = {'P': K.Pdup, 'C1': K.C2}      # what the 'clash' caller module binds differently from the generated module (P is another class of the same name)


class Callers:
    """'clash': binds every name, P and C1 to other classes than the module of the function does; 'full': binds every name of the context from the start; 'bare': binds none; 'late': binds them when `bind_late` is applied"""

    def __init__(self):
        self.mods = {'full': make_caller(True), 'bare': make_caller(False), 'late': make_caller(False), 'clash': make_caller(True)}
        self.mods['clash'].__dict__.update(CLASH)       # the caller binds a name of the function's module to ANOTHER class
        self.late_bound = False

    def bind_late(self):
        self.mods['late'].__dict__.update(K.CTX)
        self.late_bound = True

    def has_names(self, mode):
        return mode in ('full', 'clash') or (mode == 'late' and self.late_bound)       # ('loop': a coroutine stepped by asyncio - no names)


def run_one(target, pos_objs, kw_objs, hook, script, coroutine, caller=None, drive='await'):
    """returns (outcome class, result object or None, journal)"""
    hook.script = script
    del hook.journal[:]
    scripted = script[1] if script[0] == 'raises' else None
    try:
        with contextlib.redirect_stdout(io.StringIO()):
            if caller is None:
                res = target(*pos_objs, **kw_objs)
                if coroutine and inspect.iscoroutine(res):
                    res = asyncio.run(res)
            elif isinstance(target, PropAccess):
                res = {'propget': caller.getp, 'propset': caller.setp, 'propdel': caller.delp}[target.how](target.inst, target.name, *pos_objs)
            elif coroutine and drive == 'run':
                res = caller.call(target, pos_objs, kw_objs)        # the coroutine object is made by the caller module …
                if inspect.iscoroutine(res):
                    res = asyncio.run(res)                          # … and stepped by the event loop (asyncio.run / create_task / gather)
            elif coroutine:
                res = asyncio.run(caller.acall(target, pos_objs, kw_objs))      # awaited from a coroutine of the caller module
            else:
                res = caller.call(target, pos_objs, kw_objs)
                if coroutine and inspect.iscoroutine(res):
                    res = asyncio.run(res)
        return 'RET', res, list(hook.journal)
    except BaseException as e:
        return classify(e, scripted), None, list(hook.journal)


def received_ids(journal, objs):
    """which caller objects (by identity) arrived in the body, as sorted indices into objs"""
    out = []
    if not journal:
        return out
    got = []
    for v in journal[0][1].values():
        got.append(v)
        if isinstance(v, tuple):
            got.extend(v)
        if isinstance(v, dict):
            got.extend(v.values())
    for i, o in enumerate(objs):
        if any(g is o for g in got):
            out.append(i)
    return out


class Programs:
    """a batch of generated callables in one real module file (+ its undecorated twin)"""

    def __init__(self, rng, n, tag, profile='mixed'):
        self.dir = tempfile.mkdtemp(prefix='pedcall_')
        self.hook = Hook()
        self.twin_hook = Hook()
        self.F = []
        srcs, twins = [], []
        for i in range(n):
            f = gen_callable(rng, i, profile)
            self.F.append(f); srcs.append(f['src']); twins.append(f['twin'])
        self.path = os.path.join(self.dir, f'genmod_{tag}.py')
        self.twin_path = os.path.join(self.dir, f'gentwin_{tag}.py')
        open(self.path, 'w').write(PRELUDE + '\n' + '\n'.join(srcs))
        open(self.twin_path, 'w').write(TWIN_PRELUDE + '\n' + '\n'.join(twins))
        self.mod = load_module(self.path, f'genmod_{tag}', self.hook)
        self.twin = load_module(self.twin_path, f'gentwin_{tag}', self.twin_hook)
        self.callers = Callers()

    def close(self):
        shutil.rmtree(self.dir, ignore_errors=True)
        for k in [k for k in sys.modules if k.startswith('genmod_') or k.startswith('gentwin_')]:
            del sys.modules[k]

    def target(self, mod, acc):
        if acc[0] == 'mod':
            return getattr(mod, acc[1]), None
        c = getattr(mod, acc[1])
        if acc[0] == 'cls':
            return getattr(c, acc[2]), None
        if acc[0] == 'clskw':             # K.m(self=obj, …): the method through the class, its receiver passed by KEYWORD (execute adds it)
            return getattr(c, acc[2]), c()
        inst = c()
        if acc[0] in ('propget', 'propset', 'propdel'):
            return PropAccess(acc[0], inst, acc[2]), inst
        return getattr(inst, acc[2]), inst

    def raw_of(self, F, acc):
        if acc[0] == 'mod':
            obj = getattr(self.mod, acc[1])
        else:
            obj = inspect.getattr_static(getattr(self.mod, acc[1]), acc[2])
            if isinstance(obj, (staticmethod, classmethod)):
                obj = obj.__func__
            if isinstance(obj, property):
                obj = {'propget': obj.fget, 'propset': obj.fset, 'propdel': obj.fdel}[acc[0]]
        raw, mode = find_raw(obj)
        if raw is None:
            # the member is not wrapped by the library although the program decorates it (a decorator that silently leaves a
            # member undecorated must not hide it from the check): describe the undecorated twin, expect the decorated behaviour
            t = getattr(self.twin, acc[1]) if acc[0] == 'mod' else inspect.getattr_static(getattr(self.twin, acc[1]), acc[2])
            if isinstance(t, (staticmethod, classmethod)):
                t = t.__func__
            if isinstance(t, property):
                t = {'propget': t.fget, 'propset': t.fset, 'propdel': t.fdel}[acc[0]]
            for _ in range(4):
                if not hasattr(t, '__wrapped__'):
                    break
                t = t.__wrapped__
            if isinstance(t, types.FunctionType):
                return t, ('requireKwargs' if F.get('kind', '').startswith('require_kwargs') or F.get('kind') == 'bound_rk' else 'pedantic')
        return raw, mode


# ------------------------------------------------------------------ cases for the plugins

AMBIGUOUS = (bool, int, float, str, bytes, type, type(None), frozenset)


def meaningful(o):
    """does `is` identify this object (CPython shares small ints, strings, (), None, …)"""
    return not isinstance(o, AMBIGUOUS) and o != ()


def real_pedantic(kind, alias):
    return kind in ('plain', 'inst_direct', 'static_direct', 'require_kwargs', 'require_kwargs_method', 'prop_direct') and not alias


def implicit_of(kind, acc):
    if acc[0] in ('propget', 'propset', 'propdel'):
        return 1
    return 1 if (acc[0] == 'inst' and kind in ('inst_direct', 'inst_class', 'dunder_class', 'static_class', 'class_class',
                                               'require_kwargs_method')) else 0


def execute(P, F, acc, pos, kw, body, ctxmode='full', trace=None):
    """run the decorated callable and its undecorated twin on the same (freshly built) objects; `trace`: record the lines executed
    inside the call layer during the decorated call (None: the sampling of _calltrace_common decides)"""
    coroutine = F['flavour'] == 'coroutine'
    traced = T.want(force=bool(trace)) if trace is not False else False

    def one(mod, hook, traced=False):
        target, inst = P.target(mod, acc)
        K.INST_FACTORY.clear()
        if inst is not None:
            K.INST_FACTORY[K.Recv] = lambda: inst          # the receiver itself, passed again as an argument (`node.link(node)`)
        try:
            pos_objs = [K.build_val(t) for t in pos]
            kw_objs = {K.name_of(k): (inst if acc[0] == 'clskw' and K.name_of(k) == 'self' else K.build_val(t)) for k, t in kw}
        finally:
            K.INST_FACTORY.clear()
        if body[0] == 'raises':
            script = ('raises', make_exc(body[1], acc[-1]))
        elif body[0] == 'retzoo':
            script = ('retzoo', RESULT_ZOO[body[1]][1])
        else:
            script = ('ret', K.build_val(body[1]))
        hook.produced = None
        world = None
        if traced:
            # what the hand model does not describe: does the receiver carry the TypeVar method (@pedantic_class / GenericMixin), is Self bound there
            from pedantic.constants import TYPE_VAR_METHOD_NAME, TYPE_VAR_SELF
            tvm = inst is not None and hasattr(inst, TYPE_VAR_METHOD_NAME)
            try:
                bound = bool(tvm) and TYPE_VAR_SELF in getattr(inst, TYPE_VAR_METHOD_NAME)()
            except Exception:
                bound = False
            world = {'tvm': bool(tvm), 'selfBound': bound}
            T.start()
        try:
            out, res, journal = run_one(target, pos_objs, kw_objs, hook, script, coroutine, P.callers.mods['full' if ctxmode == 'loop' else ctxmode],
                                        drive='run' if ctxmode == 'loop' else 'await')
        finally:
            path = T.stop() if traced else None
        caller_objs = pos_objs + list(kw_objs.values())
        remaining = {}      # how many items every one-shot iterator argument still holds after the call (the scripted body never iterates)
        for i, o in enumerate(caller_objs):
            if isinstance(o, collections.abc.Iterator):
                try: remaining[str(i)] = len(list(o))
                except Exception as e: remaining[str(i)] = 'exc:' + type(e).__name__
        got = [i for i in received_ids(journal, caller_objs) if meaningful(caller_objs[i])]
        mean = [i for i, o in enumerate(caller_objs) if meaningful(o)]
        if out == 'RET':
            if acc[0] in ('propset', 'propdel'): out = 'RET'      # attribute assignment / deletion: Python drops what the function returns
            elif script[0] == 'retzoo': out = 'RET' if res is hook.produced else 'RET:other'
            elif res is script[1]: out = 'RET'
            elif type(res).__name__ == 'GeneratorWrapper' or inspect.isgenerator(res): out = 'RETGEN'     # a generator function: the call hands back a generator (wrapper)
            else: out = 'RET:other'
        if inspect.iscoroutine(hook.produced):
            hook.produced.close()
        binding = {}
        if journal:
            for name, v in journal[0][1].items():
                ids = [i for i, o in enumerate(caller_objs) if o is v and meaningful(o)]
                binding[name] = ids[0] if ids else None
        return {'out': out, 'ran': len(journal), 'got': got, 'meaningful': mean, 'binding': binding, 'remaining': remaining, 'trace': path, 'world': world}
    d = one(P.mod, P.hook, traced)
    t = one(P.twin, P.twin_hook)
    r = {'out': d['out'], 'ran': d['ran'], 'got': d['got'], 'meaningful': d['meaningful'], 'binding': d['binding'], 'remaining': d['remaining'],
         'twin': {'out': t['out'], 'ran': t['ran'], 'binding': t['binding'], 'remaining': t['remaining']}}
    if d['trace'] is not None:
        r['trace'] = d['trace']          # statement ids of the translated call layer, in the order CPython executed them
        r['world'] = d['world']
    return r


def iterator_items(case):
    """per caller argument that is a one-shot iterator: the number of items it was built with"""
    x = case['x']
    terms = list(x['pos']) + [v for _, v in x['kwv']]
    return {str(i): len(t[2]) for i, t in enumerate(terms) if t[0] == 'iterator'}


def build_cases(rng, n_callables, calls_per=4, profile='mixed', style=None, tag='b'):
    """generate a batch of programs, describe every callable, generate calls, run them; returns cases with the
    implementation outcome cached under x['_impl'] (popped by run_impl; a replayed case is re-executed from its sources)"""
    P = Programs(rng, n_callables, f'{tag}{rng.randrange(10**9)}', profile)
    cases = []
    try:
        for F in P.F:
            for acc in F['access']:
                raw, mode = P.raw_of(F, acc)
                if raw is None:
                    continue
                try:
                    desc = describe(raw, mode)
                except ValueError:
                    continue
                for _ in range(calls_per):
                    isprop = acc[0] in ('propget', 'propset', 'propdel')
                    pos, kw = gen_call(rng, F, desc, 'posall' if isprop else style, bad_range=3 if isprop else 8)   # attribute access: Python passes positionally
                    if isprop:
                        kw = []           # attribute access has no keywords
                    if acc[0] == 'inst' and F['kind'] != 'dunder_class' and (pos or kw) and rng.random() < 0.07:   # (dunder classes redefine __str__ / __repr__ / __eq__ with other signatures: such an object cannot be formatted into a message)
                        # one argument is the very object the method is called on
                        j = rng.randrange(len(pos) + len(kw))
                        if j < len(pos): pos = pos[:j] + [["inst", K.IDX[K.Recv]]] + pos[j + 1:]
                        else: kw = kw[:j - len(pos)] + [[kw[j - len(pos)][0], ["inst", K.IDX[K.Recv]]]] + kw[j - len(pos) + 1:]
                    body = gen_body(rng, desc)
                    ctxmode = 'full' if rng.random() < 0.85 else 'bare'        # which module the call is made from
                    if F['flavour'] == 'coroutine' and rng.random() < 0.35:
                        ctxmode = 'loop'          # the coroutine is stepped by the event loop: the frame above the wrapper is asyncio's
                    impl = execute(P, F, acc, pos, kw, body, ctxmode)
                    implicit = implicit_of(F['kind'], acc)
                    truth = {'realStatic': F['kind'] in ('static_class', 'static_direct'), 'realSetter': acc[0] == 'propset',
                             'realPedantic': real_pedantic(F['kind'], F.get('alias', False)), 'implicit': implicit}
                    mbody = ['raises', 0] if body[0] == 'raises' else (['ret', ["inst", K.IDX[K.U]]] if body[0] == 'retzoo' else body)
                    cases.append({'m': 'calllayer',
                                  'c': {'env': env_for(P, ctxmode, F['src']), 'fn': desc, 'truth': truth,
                                        'args': ([["inst", K.IDX[K.U]]] if implicit else []) + pos, 'kw': kw, 'body': mbody,
                                        **({'world': impl['world']} if impl.get('world') else {})},
                                  'x': {'src': F['src'], 'twin': F['twin'], 'access': list(acc), 'kind': F['kind'], 'flavour': F['flavour'],
                                        'pos': pos, 'kwv': kw, 'body': body, 'implicit': implicit, 'needle': F['needle'], 'ctxmode': ctxmode,
                                        '_impl': impl}})
    finally:
        P.close()
    return cases


class OneProgram(Programs):
    """a module holding exactly one stored callable (used when a case is replayed)"""

    def __init__(self, src, twin, tag):
        self.dir = tempfile.mkdtemp(prefix='pedcall_')
        self.hook = Hook(); self.twin_hook = Hook(); self.F = []
        self.path = os.path.join(self.dir, f'genmod_{tag}.py')
        self.twin_path = os.path.join(self.dir, f'gentwin_{tag}.py')
        open(self.path, 'w').write(PRELUDE + '\n' + src)
        open(self.twin_path, 'w').write(TWIN_PRELUDE + '\n' + twin)
        self.mod = load_module(self.path, f'genmod_{tag}', self.hook)
        self.twin = load_module(self.twin_path, f'gentwin_{tag}', self.twin_hook)
        self.callers = Callers()


MODULE_BOUND = {'P': K.P, 'C1': K.C1, 'C2': K.C2, 'G': K.G, 'U': K.U, 'MI': K.MI, 'Text': str}
# what the PRELUDE of a generated module binds under the names of the context (`from typing import *` makes Text the class str
# and Counter a generic alias, which is no class: for the model that name is bound to no class)


def env_for(P, ctxmode, src=''):
    """the class table with the context in which the library resolves names for this call: since 173abdd the names of the module
    that DEFINES the callable (the generated module: its prelude binds P C1 C2 G U MI) complemented by the globals of the module
    that calls the pedantic wrapper - the calling module, or the generated module itself when a pass-through decorator sits above
    @pedantic; a name both bind means what the defining module says"""
    env = K.env_json()
    # at any indentation (methods, classes inside functions), with or without a trailing comment on the decorator lines
    through = re.search(r'@passthru[ \t]*(#[^\n]*)?\n[ \t]*@pedantic', src) is not None
    caller = dict(K.CTX) if (P.callers.has_names(ctxmode) and not through) else {}      # 'loop': the event loop's frame binds none of them
    if ctxmode == 'clash' and caller:
        caller.update(CLASH)
    merged = {**caller, **MODULE_BOUND, **getattr(P, 'rebound', {})}
    merged.pop('Counter', None)
    return dict(env, ctx=[[K.nid(k), K.IDX[v]] for k, v in merged.items()])


def apply_pre(P, pre):
    """an operation between two calls of a scenario, applied to the decorated module and its twin alike"""
    if not pre:
        return
    if pre[0] == 'bind_late':                    # the 'late' caller module gets the names of the context bound in its globals
        P.callers.bind_late()
    elif pre[0] == 'append':                     # a mutable default object is mutated in place
        for mod in (P.mod, P.twin):
            getattr(mod, pre[1]).append(K.build_val(pre[2]))
    elif pre[0] == 'setitem':
        for mod in (P.mod, P.twin):
            getattr(mod, pre[1])[K.build_val(pre[2])] = K.build_val(pre[3])
    elif pre[0] == 'rebind':                     # the module that defines the callable binds a class name to ANOTHER class from now on
        for mod in (P.mod, P.twin):              # (a class that is defined again: a re-executed cell, a reloaded module)
            setattr(mod, pre[1], K.CLASSES[pre[2]])
        P.rebound = dict(getattr(P, 'rebound', {}), **{pre[1]: K.CLASSES[pre[2]]})
    else:
        raise ValueError(pre)


def run_impl_calls(cases):
    out = []
    for n, c in enumerate(cases):
        x = c['x']
        if '_impl' in x:
            out.append(x.pop('_impl'))
            continue
        primes = x.get('prime') or []             # a primed twin of the amplified run: decoy actions first (see twins() below)
        tag = f'r{n}_{os.getpid()}'
        F = {'flavour': x['flavour'], 'kind': x['kind']}
        if 'recode' in primes:
            prime_recode(x, F, tag)
        P = OneProgram(x['src'], x['twin'], tag)
        try:
            for h in x.get('history', []):       # a scenario case: replay the calls that preceded it on a fresh module
                apply_pre(P, h.get('pre'))
                execute(P, {'flavour': h['flavour'], 'kind': h['kind']}, tuple(h['access']), h['pos'], h['kwv'], h['body'], h.get('ctxmode', 'full'), trace=False)
            apply_pre(P, x.get('pre'))
            if 'scalars' in primes:
                prime_scalars(P, F, x)
            out.append(execute(P, F, tuple(x['access']), x['pos'], x['kwv'], x['body'], x.get('ctxmode', 'full'), trace=True))
        finally:
            P.close()
    return out


# ------------------------------------------------------------------ twins for the amplified run (core.amplified_run, props/_twins.py)

_ROT = {'int': 'str', 'str': 'int', 'float': 'bytes', 'bool': 'bytes'}


def rotate_annotations_src(src):
    """the same program text with the class names in every `def` line exchanged (int <-> str, float / bool -> bytes): line structure,
    bodies, names and defaults stay, so every function of the decoy has a `__code__` EQUAL to the original's (annotations are evaluated
    by the enclosing scope, they are no part of the function's code object), the same `__qualname__`, and - loaded under the same module
    name - the same `__module__`: one `def` executed twice with other annotations"""
    lines = []
    for line in src.split('\n'):
        if re.match(r'\s*(async\s+)?def\s', line):
            line = re.sub(r'\b(int|str|float|bool)\b', lambda m: _ROT[m.group(1)], line)
        lines.append(line)
    return '\n'.join(lines)


def prime_recode(x, F, tag):
    """decoy: the case's program with rotated annotations, loaded under the module name the real program is going to have, its callable
    decorated (at import) and called with the case's arguments; whatever happens is ignored"""
    src2 = rotate_annotations_src(x['src'])
    if src2 == x['src']:
        return
    Pd = OneProgram.__new__(OneProgram)
    Pd.dir = None
    try:
        Pd.__init__(src2, x['twin'], tag)
    except BaseException:            # the decoy does not even import (e.g. its docstring check fails now): nothing to call
        if Pd.dir:
            shutil.rmtree(Pd.dir, ignore_errors=True)
        for k in [k for k in sys.modules if k.startswith('genmod_') or k.startswith('gentwin_')]:
            del sys.modules[k]
        return
    try:
        execute(Pd, F, tuple(x['access']), x['pos'], x['kwv'], x['body'], x.get('ctxmode', 'full'))
    except BaseException:
        pass
    finally:
        Pd.close()


def prime_scalars(P, F, x):
    """decoy calls of the very callable of the case with every number moved to another numeric type (1 / True / 1.0 are equal and hash
    alike); outcomes are ignored"""
    for to in ('bool', 'int', 'float'):
        pos2 = [K.twin_val_term(t, to) for t in x['pos']]
        kw2 = [[k, K.twin_val_term(t, to)] for k, t in x['kwv']]
        body2 = [x['body'][0], K.twin_val_term(x['body'][1], to)] if x['body'][0] == 'ret' else x['body']
        if pos2 == x['pos'] and kw2 == x['kwv'] and body2 == x['body']:
            continue
        try:
            execute(P, F, tuple(x['access']), pos2, kw2, body2, x.get('ctxmode', 'full'))
        except BaseException:
            pass


def twins(case):
    """primed twins of a call-layer case: the expected outcome is the one of the case itself (`c` unchanged)"""
    if case.get('m') != 'calllayer':
        return []
    x = case['x']
    out = []
    if rotate_annotations_src(x['src']) != x['src']:
        out.append(dict(case, x=dict(x, prime=['recode'])))
    terms = list(x['pos']) + [t for _, t in x['kwv']] + ([x['body'][1]] if x['body'][0] == 'ret' else [])
    if any(K.twin_val_term(t, to) != t for t in terms for to in ('bool', 'int', 'float')):
        out.append(dict(case, x=dict(x, prime=['scalars'])))
    return out


# ------------------------------------------------------------------ scenarios: several calls on one fresh module (state kept between calls)

SIG_TEMPLATES = ['p0: int', 'p0: int, *args: int', 'p0: int = 5', 'p0: str', "p0: int, p1: str = 'd'", '*args: int', '**kwargs: int',
                 'p0: List[int]', 'p0: str, **kwargs: int', 'p0: int, *args: str, **kwargs: int', '', 'p1: int, p0: str', 'p0: int, *, k0: int = 5',
                 'p0', 'p0: list', '*args', 'p0: int, **kwargs', 'p0: list = None', 'p0: int, p1: Dict = None', 'p0: List = []', '*args: int, k0: set = None']
MUT_TEMPLATES = [('List[int]', '[1]', ['append', None, ["lit", ["str", [120]]]]), ('List[int]', '[]', ['append', None, ["lit", ["none"]]]),
                 ('Dict[str, int]', "{'a': 1}", ['setitem', None, ["lit", ["str", [98]]], ["lit", ["str", [99]]]]),
                 ('Dict[str, int]', '{}', ['setitem', None, ["lit", ["int", 1]], ["lit", ["int", 1]]]),
                 ('list[int]', '[2]', ['append', None, ["lit", ["flt", 3, 2]]]), ('Sequence[int]', '[1, 2]', ['append', None, ["lit", ["str", [120]]]]),
                 ('Optional[List[int]]', '[1]', ['append', None, ["lit", ["str", [120]]]]), ('List[int]', '[1]', ['append', None, ["lit", ["int", 2]]])]


def gen_scenario(r, idx):
    """{'src', 'twin', 'callables': [(access, kind, flavour)], 'steps': [(callable index, pre)]}"""
    kind = r.choice(['samename', 'samename', 'mutdefault', 'sharedkw', 'context', 'rebind', 'factory'])
    deco = r.choice(['@pedantic', '@pedantic', '@require_kwargs'])
    flav = r.choice(['sync'] * 4 + ['coroutine'])
    d = 'async def' if flav == 'coroutine' else 'def'
    ret = r.choice([' -> int', ' -> int', ' -> None', ' -> str'])
    k = 'plain' if deco == '@pedantic' else 'require_kwargs'
    if kind == 'context':           # string annotations / forward references, called from modules that bind the names or not (yet)
        ann = r.choice(["'P'", "'C1'", "List['C1']", "Optional['P']", "Dict[str, 'P']", "'CQ'", "List['CQ']"])
        retann = r.choice([' -> None', ' -> None', f' -> {ann}'])
        def fn(nm, i, dec):
            return (dec + '\n' if dec else '') + f'{d} {nm}(p0: {ann}){retann}:\n    return _BODY({idx * 2 + i}, locals())\n'
        src = fn(f'c{idx}', 0, deco) + fn(f'e{idx}', 1, deco)
        twin = fn(f'c{idx}', 0, None) + fn(f'e{idx}', 1, None)
        callables = [(('mod', f'c{idx}'), k, flav), (('mod', f'e{idx}'), k, flav)]
        first = r.choice(['bare', 'late'])
        steps = [(0, None, first)] + [(r.randrange(2), None, r.choice(['bare', 'late', 'full'])) for _ in range(r.randint(0, 1))] \
            + [(0, ['bind_late'], 'late'), (r.randrange(2), None, r.choice(['late', 'full'])), (0, None, 'full')]
        return {'src': src, 'twin': twin, 'callables': callables, 'steps': steps, 'skind': kind}
    if kind == 'rebind':            # the defining module binds the class name of a string annotation / forward reference to another class
        # between two calls: every call means the class the name is bound to NOW (nothing learnt about the name in an earlier call -
        # on the function, on the annotation object or on a ForwardRef that typing shares between equal annotations - may be reused)
        ann = r.choice(["List['P']", "Optional['P']", "Dict[str, 'P']", "'P'", "List['C1']", "Tuple['P', int]", "Dict[str, List['P']]",
                        "List['Optional[P]']", "Dict[str, 'List[P]']", "Optional['Dict[str, C1]']"])      # (the last three: the reference is an expression)
        nm = 'C1' if 'C1' in ann else 'P'
        retann = r.choice([' -> None', ' -> None', f' -> {ann}'])
        def fn(n_, i, dec):
            return (dec + '\n' if dec else '') + f'{d} {n_}(p0: {ann}){retann}:\n    return _BODY({idx * 2 + i}, locals())\n'
        src = fn(f'c{idx}', 0, deco) + fn(f'e{idx}', 1, deco)
        twin = fn(f'c{idx}', 0, None) + fn(f'e{idx}', 1, None)
        callables = [(('mod', f'c{idx}'), k, flav), (('mod', f'e{idx}'), k, flav)]
        others = [K.IDX[c] for c in (K.C2, K.U, K.Pdup, K.G)]
        back = K.IDX[K.P if nm == 'P' else K.C1]
        steps = [(0, None, 'full')] + [(r.randrange(2), None, 'full') for _ in range(r.randint(0, 1))] \
            + [(0, ['rebind', nm, r.choice(others)], 'full'), (r.randrange(2), None, 'full'), (0, None, 'full')] \
            + ([(1, ['rebind', nm, back], 'full'), (0, None, 'full')] if r.random() < 0.5 else [])
        return {'src': src, 'twin': twin, 'callables': callables, 'steps': steps, 'skind': kind, 'name': nm}
    if kind == 'factory':           # ONE def statement executed several times (a factory): equal code objects, equal annotations, other defaults
        ann, good, bad = r.choice([('int', '4', "'four'"), ('str', "'w'", '7'), ('List[int]', '[1]', "['x']"), ('Optional[int]', 'None', "'n'"),
                                   ('float', '1.5', 'None'), ('Dict[str, int]', "{'a': 1}", "{'a': 'b'}")])
        extra = r.choice(['', 'p1: int, ', ''])
        def fac(dec):
            ind = '    '
            return (f'def _mk{idx}(dflt):\n' + (ind + dec + '\n' if dec else '') + f'{ind}{d} fa{idx}({extra}p0: {ann} = dflt){ret}:\n'
                    f'{ind}{ind}return _BODY({idx * 2}, locals())\n{ind}return fa{idx}\n'
                    f'fa{idx}_a = _mk{idx}({good})\nfa{idx}_b = _mk{idx}({bad})\nfa{idx}_c = _mk{idx}({good})\n')
        src, twin = fac(deco), fac(None)
        callables = [(('mod', f'fa{idx}_a'), k, flav), (('mod', f'fa{idx}_b'), k, flav), (('mod', f'fa{idx}_c'), k, flav)]
        order = r.choice([[0, 1, 2, 1], [1, 0, 1], [0, 1, 1, 0], [2, 1, 0]])
        return {'src': src, 'twin': twin, 'callables': callables, 'steps': [(i, None) for i in order], 'skind': kind}
    if kind == 'sharedkw':          # two different callables: names of A's parameters are keys of B's **kwargs
        sa = r.choice(['p0: int', "p0: int, p1: str = 'd'", 'p1: int, p0: str', 'p0: List[int]', 'p0: int = 5'])
        sb = r.choice(['**kwargs: int', 'p2: str, **kwargs: int', '**kwargs: str', '*args: int, **kwargs: int', '**kwargs: List[int]'])
        def fn(nm, sig, i, dec):
            return (dec + '\n' if dec else '') + f'{d} {nm}({sig}){ret}:\n    return _BODY({idx * 2 + i}, locals())\n'
        src = fn(f'a{idx}', sa, 0, deco) + fn(f'b{idx}', sb, 1, deco)
        twin = fn(f'a{idx}', sa, 0, None) + fn(f'b{idx}', sb, 1, None)
        callables = [(('mod', f'a{idx}'), k, flav), (('mod', f'b{idx}'), k, flav)]
        steps = [(0, None)] + [(r.randrange(2), None) for _ in range(r.randint(1, 2))] + [(1, None)]
    elif kind == 'samename':
        name = f's{idx}'
        sa, sb = r.sample(SIG_TEMPLATES, 2)
        if r.random() < 0.4:       # two same-named methods of two same-named classes
            def cls(sig, i):
                first = 'self' + (', ' if sig else '')
                return f'class S{idx}:\n    {deco}\n    {d} {name}({first}{sig}){ret}:\n        return _BODY({idx * 2 + i}, locals())\n'
            def tcls(sig, i):
                first = 'self' + (', ' if sig else '')
                return f'class S{idx}:\n    {d} {name}({first}{sig}){ret}:\n        return _BODY({idx * 2 + i}, locals())\n'
            src = cls(sa, 0) + f'S{idx}_first = S{idx}\n' + cls(sb, 1)
            twin = tcls(sa, 0) + f'S{idx}_first = S{idx}\n' + tcls(sb, 1)
            mk = 'inst_direct' if deco == '@pedantic' else 'require_kwargs_method'
            callables = [(('inst', f'S{idx}_first', name), mk, flav), (('inst', f'S{idx}', name), mk, flav)]
        else:
            def fn(sig, i, dec):
                return (dec + '\n' if dec else '') + f'{d} {name}({sig}){ret}:\n    return _BODY({idx * 2 + i}, locals())\n'
            src = fn(sa, 0, deco) + f'{name}_first = {name}\n' + fn(sb, 1, deco)
            twin = fn(sa, 0, None) + f'{name}_first = {name}\n' + fn(sb, 1, None)
            callables = [(('mod', f'{name}_first'), k, flav), (('mod', name), k, flav)]
        steps = [(r.randrange(2), None) for _ in range(r.randint(3, 5))]
    else:
        name = f'm{idx}'
        ann, dflt, pre = r.choice(MUT_TEMPLATES)
        pre = [pre[0], f'_D{idx}'] + pre[2:]
        extra = r.choice(['', 'p0: int, ', "p0: str = 'd', "]) if dflt else ''
        if extra.endswith("= 'd', "):
            sig = f"{extra}p1: {ann} = _D{idx}"
        else:
            sig = f'{extra}p1: {ann} = _D{idx}'
        src = f'_D{idx} = {dflt}\n{deco}\n{d} {name}({sig}){ret}:\n    return _BODY({idx * 2}, locals())\n'
        twin = f'_D{idx} = {dflt}\n{d} {name}({sig}){ret}:\n    return _BODY({idx * 2}, locals())\n'
        callables = [(('mod', name), k, flav)]
        n = r.randint(2, 4); at = r.randrange(1, n)
        steps = [(0, pre if i == at else None) for i in range(n)]
    return {'src': src, 'twin': twin, 'callables': callables, 'steps': steps, 'skind': kind}


def scenario_cases(rng, n, style=None, tag='s'):
    """n scenarios; every call of a scenario is one case that carries the calls before it as x['history']"""
    cases = []
    for idx in range(n):
        S = gen_scenario(rng, idx)
        P = OneProgram(S['src'], S['twin'], f'{tag}{idx}_{rng.randrange(10**9)}')
        history = []
        try:
            for step_ in S['steps']:
                ci, pre = step_[0], step_[1]
                ctxmode = step_[2] if len(step_) > 2 else 'full'
                acc, kind, flav = S['callables'][ci]
                F = {'flavour': flav, 'kind': kind}
                apply_pre(P, pre)
                raw, mode = P.raw_of(F, acc)
                if raw is None:
                    break
                try:
                    desc = describe(raw, mode)
                except ValueError:
                    break
                st = 'kw' if S['skind'] in ('rebind', 'factory') else style if style is not None else rng.choice(['kw', 'kw', 'pos1', 'posall'])
                pos, kw = gen_call(rng, F, desc, st, bad_range=4, hot=('p0', 'p1') if S['skind'] == 'sharedkw' else ())
                if S['skind'] == 'context' and rng.random() < 0.5 and kw:
                    # an impostor: an instance of ANOTHER class that merely has the same __name__ as the class the annotation names
                    imp = ["inst", K.IDX[K.Pdup]]
                    a = desc['params'][0]['ann']
                    wrapped = imp if a[0] in ('str', 'union') else (["coll", K.IDX[list], [imp]] if a[0] == 'seq' else
                                                                  ["mapping", K.IDX[dict], [[K.lit('k'), imp]]] if a[0] == 'map' else imp)
                    kw = [[kw[0][0], K.canon_term(wrapped)]] + kw[1:]
                if S['skind'] == 'rebind' and kw:
                    # an instance of the class the name meant at first, of the class it means now, or of a subclass of the first
                    now = getattr(P, 'rebound', {}).get(S['name'])
                    first = K.P if S['name'] == 'P' else K.C1
                    v = ["inst", K.IDX[rng.choice([first, now or first, now or K.G, K.G])]]
                    a = desc['params'][0]['ann']
                    def wrap(a, v):
                        if a[0] == 'seq': return ["coll", K.IDX[list], [wrap(a[3], v)]]
                        if a[0] == 'map': return ["mapping", K.IDX[dict], [[K.lit('k'), wrap(a[4], v)]]]
                        if a[0] == 'tuple': return ["tup", K.IDX[tuple], [v, K.lit(1)]]
                        return v
                    kw = [[kw[0][0], K.canon_term(wrap(a, v))]] + kw[1:]
                if S['skind'] == 'factory' and rng.random() < 0.7:    # the default matters only when the parameter is omitted
                    kw = [kv for kv in kw if K.name_of(kv[0]) != 'p0']
                    pos = pos[:len([p for p in desc['params'] if p['kind'] in ('po', 'pk')]) - 1]
                if S['skind'] == 'mutdefault':                      # the mutated default matters only when the parameter is omitted
                    kw = [kv for kv in kw if K.name_of(kv[0]) != 'p1']
                    pos = pos[:len([p for p in desc['params'] if p['kind'] in ('po', 'pk')]) - 1]
                body = gen_body(rng, desc)
                impl = execute(P, F, acc, pos, kw, body, ctxmode)
                implicit = implicit_of(kind, acc)
                truth = {'realStatic': False, 'realSetter': False, 'realPedantic': True, 'implicit': implicit}
                mbody = ['raises', 0] if body[0] == 'raises' else (['ret', ["inst", K.IDX[K.U]]] if body[0] == 'retzoo' else body)
                step = {'access': list(acc), 'kind': kind, 'flavour': flav, 'pos': pos, 'kwv': kw, 'body': body, 'pre': pre, 'ctxmode': ctxmode}
                cases.append({'m': 'calllayer',
                              'c': {'env': env_for(P, ctxmode), 'fn': desc, 'truth': truth,
                                    'args': ([["inst", K.IDX[K.U]]] if implicit else []) + pos, 'kw': kw, 'body': mbody,
                                    **({'world': impl['world']} if impl.get('world') else {})},
                              'x': dict(step, src=S['src'], twin=S['twin'], implicit=implicit, needle=None, history=list(history),
                                        scenario=S['skind'], _impl=impl)})
                history.append(step)
        finally:
            P.close()
    return cases


def context_clash_cases(rng, n, tag='cc'):
    """string annotations / forward references naming P / C1, called from a module that binds these names to OTHER classes: the context of a
    call is the caller's names overridden by those of the module that defines the function (FunctionCall.__init__ merges them in that order),
    so the annotation means the class of the defining module - its instances are accepted, the caller's namesake is rejected"""
    cases = []
    anns = ["'P'", "List['P']", "Optional['P']", "Dict[str, 'P']", "'C1'", "List['C1']"]
    for idx in range(n):
        ann = anns[idx % len(anns)]
        deco = '@pedantic'
        flav = 'coroutine' if idx % 5 == 4 else 'sync'
        d = 'async def' if flav == 'coroutine' else 'def'
        ret = ann if idx % 3 == 2 else 'None'
        body_src = f'{d} cc{idx}(p0: {ann}) -> {ret}:\n    return _BODY({idx}, locals())\n'
        P = OneProgram(deco + '\n' + body_src, body_src, f'{tag}{idx}_{rng.randrange(10**9)}')
        try:
            F = {'flavour': flav, 'kind': 'plain'}
            acc = ('mod', f'cc{idx}')
            raw, mode = P.raw_of(F, acc)
            desc = describe(raw, mode)
            mine = K.P if 'P' in ann else K.C1
            other = K.Pdup if 'P' in ann else K.C2
            for cls in (mine, other):
                v = ["inst", K.IDX[cls]]
                a = desc['params'][0]['ann']
                wrapped = v if a[0] in ('str', 'union') else (["coll", K.IDX[list], [v]] if a[0] == 'seq' else
                                                            ["mapping", K.IDX[dict], [[K.lit('k'), v]]] if a[0] == 'map' else v)
                kw = [[K.nid('p0'), K.canon_term(wrapped)]]
                body = ['ret', K.canon_term(wrapped)] if ret != 'None' else ['ret', K.lit(None)]
                impl = execute(P, F, acc, [], kw, body, 'clash')
                truth = {'realStatic': False, 'realSetter': False, 'realPedantic': True, 'implicit': 0}
                cases.append({'m': 'calllayer',
                              'c': {'env': env_for(P, 'clash'), 'fn': desc, 'truth': truth, 'args': [], 'kw': kw, 'body': body,
                                    **({'world': impl['world']} if impl.get('world') else {})},
                              'x': {'src': deco + '\n' + body_src, 'twin': body_src, 'access': list(acc), 'kind': 'plain', 'flavour': flav, 'pos': [], 'kwv': kw,
                                    'body': body, 'implicit': 0, 'needle': None, 'ctxmode': 'clash', 'scenario': 'clash', '_impl': impl}})
        finally:
            P.close()
    return cases


UNPRINTABLE_PROGRAMS = [   # (signature, return annotation): the parameter p0 and / or the result take values that cannot be formatted
    ('p0: Any', 'Any'), ('p0: int', 'int'), ('p0: Unp', 'Unp'), ('p0: List[Any]', 'None'), ('p0: Optional[Unp] = None', 'Optional[Unp]'),
    ('*args: Any', 'Any'), ('**kwargs: int', 'int'), ('p0: int, *args: int', 'Any')]


def unprintable_cases(rng, n, tag='up'):
    """values whose str() / repr() / format() raise (`_checker_common.Unp`), conforming and non-conforming, as keyword argument, positional
    argument, *args element, **kwargs value, nested in a list, and as result: a conforming one passes like any other value, a non-conforming
    one ends in a PedanticException - building the message must not raise (the case tells the model which classes cannot be formatted)"""
    cases = []
    unp = ["inst", K.IDX[K.Unp]]
    for idx in range(n):
        sig, ret = UNPRINTABLE_PROGRAMS[idx % len(UNPRINTABLE_PROGRAMS)]
        flav = 'coroutine' if idx % 7 == 6 else 'sync'
        d = 'async def' if flav == 'coroutine' else 'def'
        head = 'from _checker_common import Unp\n'
        body_src = f'{d} up{idx}({sig}) -> {ret}:\n    return _BODY({idx}, locals())\n'
        P = OneProgram(head + '@pedantic\n' + body_src, head + body_src, f'{tag}{idx}_{rng.randrange(10**9)}')
        try:
            F = {'flavour': flav, 'kind': 'plain'}
            acc = ('mod', f'up{idx}')
            raw, mode = P.raw_of(F, acc)
            desc = describe(raw, mode)
            good = K.lit(1)
            calls = []          # (pos, kw, body)
            name = K.nid('p0')
            if sig.startswith('p0'):
                for v in (unp, ["coll", K.IDX[list], [unp]], good):
                    calls.append(([], [[name, v]], ['ret', unp]))
                    calls.append(([], [[name, v]], ['ret', good]))
                calls.append(([unp], [], ['ret', good]))                      # positional: the message of the rejection lists the arguments
                if '*args' in sig:
                    calls.append(([good, unp], [], ['ret', good]))
            elif sig.startswith('*args'):
                calls += [([unp], [], ['ret', unp]), ([good, unp], [], ['ret', good]), ([], [], ['ret', unp])]
            else:
                calls += [([], [[K.nid('x0'), unp]], ['ret', good]), ([], [[K.nid('x0'), good]], ['ret', unp]), ([], [], ['ret', unp])]
            for pos, kw, body in calls:
                pos = [K.canon_term(v) for v in pos]
                kw = [[k, K.canon_term(v)] for k, v in kw]
                body = [body[0], K.canon_term(body[1])]
                impl = execute(P, F, acc, pos, kw, body, 'full')
                truth = {'realStatic': False, 'realSetter': False, 'realPedantic': True, 'implicit': 0}
                cases.append({'m': 'calllayer',
                              'c': {'env': env_for(P, 'full'), 'fn': desc, 'truth': truth, 'args': pos, 'kw': kw, 'body': body, 'unprintable': [K.IDX[K.Unp]],
                                    **({'world': impl['world']} if impl.get('world') else {})},
                              'x': {'src': head + '@pedantic\n' + body_src, 'twin': head + body_src, 'access': list(acc), 'kind': 'plain', 'flavour': flav,
                                    'pos': pos, 'kwv': kw, 'body': body, 'implicit': 0, 'needle': None, 'ctxmode': 'full', 'scenario': 'unprintable', '_impl': impl}})
        finally:
            P.close()
    return cases


def receiver_cases(rng, n, tag='rv'):
    """the receiver of a method: passed by KEYWORD (`K.m(self=obj, p0=1)`: a call Python accepts), and called something else than `self`
    (`def m(this, p0: int)`, `obj.m(p0=1)`: the implicit receiver must not count as a positional argument)"""
    cases = []
    for idx in range(n):
        variant = ['kw_pedantic', 'kw_class', 'kw_rk', 'this_pedantic', 'this_class', 'kw_dstar'][idx % 6]
        flav = 'coroutine' if idx % 5 == 4 else 'sync'
        d = 'async def' if flav == 'coroutine' else 'def'
        first = 'this' if variant.startswith('this') else 'self'
        extra = ', **kwargs: int' if variant == 'kw_dstar' else ''
        deco = {'kw_pedantic': '    @pedantic\n', 'kw_dstar': '    @pedantic\n', 'this_pedantic': '    @pedantic\n', 'kw_rk': '    @require_kwargs\n'}.get(variant, '')
        cdeco = '@pedantic_class\n' if variant.endswith('_class') else ''
        m = f'    {d} m{idx}({first}, p0: int{extra}) -> int:\n        return _BODY({idx}, locals())\n'
        src = cdeco + f'class R{idx}:\n' + deco + m
        twin = f'class R{idx}:\n' + m
        kind = {'kw_pedantic': 'inst_direct', 'kw_dstar': 'inst_direct', 'this_pedantic': 'inst_direct', 'kw_rk': 'require_kwargs_method'}.get(variant, 'inst_class')
        P = OneProgram(src, twin, f'{tag}{idx}_{rng.randrange(10**9)}')
        try:
            F = {'flavour': flav, 'kind': kind}
            by_kw = variant.startswith('kw')
            acc = ('clskw' if by_kw else 'inst', f'R{idx}', f'm{idx}')
            raw, mode = P.raw_of(F, ('inst',) + acc[1:])
            desc = describe(raw, mode)
            for v in (K.lit(1), K.lit('x')):
                kw = [[K.nid('p0'), K.canon_term(v)]]
                if variant == 'kw_dstar':
                    kw.append([K.nid('x0'), K.lit(2)])
                if by_kw:
                    kw = [[K.nid('self'), ["inst", K.IDX[K.U]]]] + kw
                body = ['ret', K.lit(3)]
                impl = execute(P, F, acc, [], kw, body, 'full')
                implicit = 0 if by_kw else 1
                truth = {'realStatic': False, 'realSetter': False, 'realPedantic': variant in ('kw_pedantic', 'kw_dstar', 'this_pedantic', 'kw_rk'), 'implicit': implicit}
                cases.append({'m': 'calllayer',
                              'c': {'env': env_for(P, 'full'), 'fn': desc, 'truth': truth, 'args': ([["inst", K.IDX[K.U]]] if implicit else []), 'kw': kw, 'body': body,
                                    **({'world': impl['world']} if impl.get('world') else {})},
                              'x': {'src': src, 'twin': twin, 'access': list(acc), 'kind': kind, 'flavour': flav, 'pos': [], 'kwv': kw, 'body': body,
                                    'implicit': implicit, 'needle': None, 'ctxmode': 'full', 'scenario': 'receiver:' + variant, '_impl': impl}})
        finally:
            P.close()
    return cases


def norm_out(o):
    return 'BIND:TypeError' if o == 'ESC:TypeError' else o


def model_class(m):
    c = m['caller']
    return 'BODY_EXC' if c.startswith('BODY_EXC') else c


def correspondence(case, impl, model):
    """R for every call-layer property: outcome class, body-ran bit and forwarded caller objects agree"""
    if case['c'].get('unprintable') and model.get('ir') is not None:
        # values that cannot be formatted: the hand-written model has no notion of building a message; the interpretation of the translated
        # code (which executes the statements that build the messages) is the model here (theorem ir_runCall_refines covers the rest)
        model = dict(model, caller=model['ir']['caller'], ran=model['ir']['ran'], fwdPos=model['ir']['fwdPos'], fwdKw=model['ir']['fwdKw'])
    ic, mc = norm_out(impl['out']), norm_out(model_class(model))
    if mc == 'ESC:format':
        mc = ic if ic.startswith('ESC:') else mc          # whichever exception `__str__` / `__repr__` / `__format__` of the value raises
    implicit = case['x']['implicit']
    npos = len(case['x']['pos'])
    kwn = [k for k, _ in case['x']['kwv']]
    mf = sorted([i - implicit for i in model['fwdPos'] if i >= implicit] + [npos + kwn.index(k) for k in model['fwdKw']]) if model['ran'] else []
    mf = [i for i in mf if i in impl['meaningful']]
    ok = ic == mc and bool(impl['ran']) == model['ran'] and (not impl['ran'] or impl['got'] == mf)
    why = '' if ok else f"implementation ({impl['out']}, ran={impl['ran']}, got={impl['got']}) vs model ({model['caller']}, ran={model['ran']}, fwd={mf})"
    # the translated code (Gen/CallLayerIR.lean, interpreted by Model/CallLayerIR.lean with the path recorded) answers what the hand-written
    # model answers (theorem ir_runCall_refines is about the interpretation without the path) …
    ir = model.get('ir')
    if ok and ir is not None and (ir['caller'], ir['ran'], ir['fwdPos'], ir['fwdKw']) != (model['caller'], model['ran'], model['fwdPos'], model['fwdKw']):
        ok, why = False, f"interpretation of the translated call layer ({ir}) vs hand-written model ({model['caller']}, ran={model['ran']}, fwd={model['fwdPos']}/{model['fwdKw']})"
    # … and takes the branches that CPython takes on this call (observed lines mapped to statement ids)
    if ok and impl.get('trace') is not None and 'interpTrace' in model and not case['x'].get('zoo_call'):
        # (a stored case without `world`: whether the receiver carries the TypeVar method is not known to the model - type_vars is not compared)
        known = 'world' in case['c'] or not (impl.get('world') or {}).get('tvm')
        ok, why = T.compare(impl['trace'], model['interpTrace'], skip=() if known else (2, 3))      # type_vars, and clazz which it may call
    return ok, why


def twin_accepts(impl):
    return impl['twin']['out'] in ('RET', 'BODY_EXC', 'RETGEN')


# findings of the call layer that several properties see (region of the model -> finding id); a judge attributes a failure to one of them only when
# the correspondence holds (implementation == model in that region)
SHARED_FINDINGS = [('unprintableFormat', 'unprintableValueEscapes'), ('receiverByKeyword', 'receiverByKeywordIndexError'),
                   ('receiverNotNamedSelf', 'receiverNotNamedSelf')]


def same_outcome(case, a, b):
    """amplified run: two executions of one case agree (the recorded path and what was read off the live receiver for it are diagnostics that
    only sampled executions carry)"""
    drop = ('trace', 'world', 'wall_s', 'stall_s')
    if isinstance(a, dict) and isinstance(b, dict):
        a = {k: v for k, v in a.items() if k not in drop}
        b = {k: v for k, v in b.items() if k not in drop}
    return a == b


def shared_finding(model):
    return region_finding(model, SHARED_FINDINGS)


def region_finding(model, table):
    for reg, fid in table:
        if reg in model['regions']:
            return fid
    return None


def describe_case(case):
    x = case['x']
    return f"{x['kind']}/{x['access'][0]}: {x['src'].strip().splitlines()[0:4]} pos={json.dumps(x['pos'])} kw={json.dumps([[K.name_of(k), v] for k, v in x['kwv']])} body={json.dumps(x['body'])}"


def make_case(src, twin, access, kind, flavour, pos, kw, body):
    """a hand-written program as a case (known findings, corpus)"""
    P = OneProgram(src, twin, f'm{abs(hash(src)) % 10**8}')
    try:
        F = {'flavour': flavour, 'kind': kind, 'src': src, 'twin': twin}
        raw, mode = P.raw_of(F, tuple(access))
        desc = describe(raw, mode)
        implicit = implicit_of(kind, access)
        kw = [[K.nid(k) if isinstance(k, str) else k, v] for k, v in kw]
        truth = {'realStatic': kind in ('static_class', 'static_direct'), 'realSetter': False,
                 'realPedantic': real_pedantic(kind, False), 'implicit': implicit}
        mbody = ['raises', 0] if body[0] == 'raises' else (['ret', ["inst", K.IDX[K.U]]] if body[0] == 'retzoo' else body)
        return {'m': 'calllayer',
                'c': {'env': K.env_json(), 'fn': desc, 'truth': truth, 'args': ([["inst", K.IDX[K.U]]] if implicit else []) + pos, 'kw': kw, 'body': mbody},
                'x': {'src': src, 'twin': twin, 'access': list(access), 'kind': kind, 'flavour': flavour, 'pos': pos, 'kwv': kw, 'body': body,
                      'implicit': implicit, 'needle': None}}
    finally:
        P.close()
