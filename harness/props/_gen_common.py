"""Generator clause of C03 / C04 (GeneratorWrapper): shared by the C03 and C04 plugins.

A *case* is one interaction with one `@pedantic` generator function:
    {'m': 'genwrap',
     'c': {'ann': {'base': 'typing.Generator', 'args': ['int', 'int', 'str'], 'quoted': False},   # return annotation
           'script': [['yield', [ty, id], catch] | ['return', [ty, id]] | ['raise', e], ...],     # what the body does (falling off the end = return None)
           'ops': [['next'] | ['send', [ty, id]] | ['throw', k] | ['close'], ...]},               # what the consumer does
     'x': {'kind': 'func' | 'funcarg' | 'method' | 'static' | 'classm', 'fam': ...}}
`run_impl` writes ONE real module per batch with a generator function per (kind, annotation) - decorated with the real
`@pedantic` / inside a `@pedantic_class` class - plus an undecorated twin with the same body text, calls it, performs the
consumer operations on the returned object (also after exceptions) and records per operation what the consumer saw and
what the body journalled meanwhile.  Values, exceptions and results are canonicalised by identity (`is`-lookup in the
case's object table), never by repr / message.

    gen_cases(rng, tier) -> cases          run_impl(cases) -> outcomes
    judge_guard(case, impl, model)         C03 view (SendClause / ValueClauses / CreationGuard of Spec/GenWrap.lean)
    judge_transparent(case, impl, model)   C04 view (decorated run == run of the undecorated twin when everything conforms)
"""
import sys, os, itertools, importlib.util, tempfile, shutil

MODEL = 'genwrap'
RULE = ('exhaustive: every body script of <= 3 steps over {yield int / str / None, yield guarded by except Exception / except BaseException, '
        'return int / str, raise, fall off the end} x every consumer sequence of <= 3 operations over {next, send int, send str, throw, close} '
        'for Generator[int, int, str] and Iterator[int] (thorough: two more annotations, and 4 operations on the 3-yield alphabet for the first); every annotation form (typing / '
        'collections.abc / bare / string / non-generator types / Any / Optional) x a script set x a consumer set; seeded random interactions '
        '(scripts <= 6 steps, <= 9 operations, 8 slot types, type-directed values with near misses such as bool for int, int for float, '
        'None for Optional) on plain functions, functions with parameters, methods / static / class methods of @pedantic_class classes. '
        'The consumer always carries on after an exception. non-trivial = some produced or sent value does not conform (guard view) / '
        'all conform (transparency view)')
EXHAUSTIVE = {'quick': True, 'thorough': True}
ASSUMPTIONS = ['generator bodies are scripted (yield / return / raise per script, journal of everything received); slot types are TypeVar-free '
               'and taken from an 8-type alphabet; the conformance table of that alphabet is the checker verified by C01 / C02',
               'programs are real files (inspect.getsource works)']
TRUSTED = ['CPython 3.12 generator protocol (send / throw / close / StopIteration / GeneratorExit / "just-started" TypeError) is modelled '
           '(resumeGen) and exercised against real undecorated generators in every case, not verified']
FINDINGS = ['generatorAnnotationSpelling']      # repaired in /repo: throwBypassesYieldCheck, exhaustedGeneratorRecheck, failedPrimingConsumesInit

TY_SRC = {'none': 'None', 'bool': 'bool', 'int': 'int', 'str': 'str', 'float': 'float', 'listInt': 'List[int]', 'any': 'Any', 'optInt': 'Optional[int]'}
TYS = list(TY_SRC)
# which value classes conform to which slot type (only used to *generate* mostly-conforming values; the verdict uses the spec's table)
GOOD = {'none': ['none'], 'bool': ['bool'], 'int': ['int', 'int', 'bool'], 'str': ['str'], 'float': ['float'], 'listInt': ['listInt'],
        'any': ['int', 'str', 'none', 'listStr', 'float'], 'optInt': ['int', 'none', 'bool']}
VTYS = ['none', 'bool', 'int', 'str', 'float', 'listInt', 'listStr']
KINDS = ['func', 'funcarg', 'method', 'static', 'classm']
GEN3 = lambda y, s, r: {'base': 'typing.Generator', 'args': [y, s, r], 'quoted': False}
ITER1 = lambda y, b='typing.Iterator': {'base': b, 'args': [y], 'quoted': False}


# ------------------------------------------------------------------------------------------------ annotations -> source

def ann_src(a):
    # 'fwd': the slot type str is spelled as a FORWARD REFERENCE to a name of the defining module (its prelude binds MyStr = str):
    # same conformance table, but the value checks of the wrapper need that module's names to resolve it
    # 'pep585': the parametrised slot types in their builtin / PEP 604 spelling (list[int], int | None): same conformance table
    alt = {'listInt': 'list[int]', 'optInt': 'int | None'} if a.get('pep585') else {}
    b, args = a['base'], [("'MyStr'" if a.get('fwd') and t == 'str' else alt.get(t, TY_SRC[t])) for t in a['args']]
    special = {'int': 'int', 'str': 'str', 'none': 'None', 'object': 'object', 'typing.Any': 'Any',
               'typing.Optional': 'Optional[Generator[int, None, None]]', 'typing.Union': 'Union[Iterator[int], int]'}
    if b in special:
        s = special[b]
    else:
        mod, _, name = b.rpartition('.')
        head = name if mod == 'typing' else b          # `from typing import *` / `import collections.abc`
        s = head + (f'[{", ".join(args)}]' if args else '')
    return repr(s) if a['quoted'] else s


def ann_key(a):
    return (a['base'], tuple(a['args']), bool(a['quoted']), bool(a.get('fwd')), bool(a.get('pep585')))


BODY = '''    J = _S['J']
    for step in _S['script']:
        if step[0] == 'yield':
            J.append(('yield', step[1]))
            try:
                x = yield step[1]
            except BaseException as e:
                J.append(('thrown', e))
                if step[2] == 0 or (step[2] == 1 and not isinstance(e, Exception)):
                    raise
            else:
                J.append(('recv', x))
        elif step[0] == 'return':
            J.append(('ret', step[1]))
            return step[1]
        else:
            J.append(('raise', step[1]))
            raise step[1]
    J.append(('ret', None))
'''


def indent(s, n):
    return ''.join(' ' * n + l + '\n' for l in s.splitlines())


def fn_src(kind, name, ann, decorated):
    """source of one generator function (or of the class that holds it) and the expression that calls it"""
    a = ann_src(ann)
    d = '@pedantic\n' if decorated else ''
    dc = '@pedantic_class\n' if decorated else ''
    if kind == 'func':
        return f'{d}def {name}() -> {a}:\n{BODY}', f'{name}()'
    if kind == 'funcarg':
        return f"{d}def {name}(n: int, tag: str = 'x') -> {a}:\n{BODY}", f'{name}(n=3)'
    if kind == 'method':
        return f'{dc}class {name}:\n    def m(self) -> {a}:\n{indent(BODY, 4)}', f'{name}().m()'
    if kind == 'static':
        return f'{dc}class {name}:\n    @staticmethod\n    def m() -> {a}:\n{indent(BODY, 4)}', f'{name}.m()'
    if kind == 'classm':
        return f'{dc}class {name}:\n    @classmethod\n    def m(cls) -> {a}:\n{indent(BODY, 4)}', f'{name}.m()'
    raise ValueError(kind)


PRELUDE = '''from typing import *
import collections.abc
from pedantic import pedantic, pedantic_class
_S = {'script': [], 'J': []}
MyStr = str
'''


def build_module(cases, d):
    """one module with a decorated function and its twin per distinct (kind, annotation); returns (module, {key: (call, twin call)})"""
    keys = {}
    src = [PRELUDE]
    makers = ['def _make(key, twin):\n    return _MAKERS[key][1 if twin else 0]()\n', '_MAKERS = {}\n']
    for c in cases:
        k = (c['x']['kind'], ann_key(c['c']['ann']))
        if k in keys:
            continue
        i = len(keys)
        keys[k] = i
        s1, call1 = fn_src(c['x']['kind'], f'g{i}', c['c']['ann'], True)
        s2, call2 = fn_src(c['x']['kind'], f't{i}', c['c']['ann'], False)
        src += [s1, s2]
        makers.append(f'_MAKERS[{i}] = (lambda: {call1}, lambda: {call2})\n')
    path = os.path.join(d, 'pedgen_prog.py')
    with open(path, 'w') as f:
        f.write('\n'.join(src) + '\n' + ''.join(makers))
    spec = importlib.util.spec_from_file_location('pedgen_prog', path)
    mod = importlib.util.module_from_spec(spec)
    sys.modules['pedgen_prog'] = mod
    spec.loader.exec_module(mod)
    return mod, keys


# ------------------------------------------------------------------------------------------------ running the real thing

class BodyErr(Exception):
    pass


class Thrown(Exception):
    pass


def mk_obj(ty, i):
    """id 0 is the falsy value of the class (0, '', 0.0, []) - a check that is skipped for falsy values must show"""
    if ty == 'none':
        return None
    if ty == 'bool':
        return bool(i % 2)
    if ty == 'int':
        return int(str(1000 + i)) if i else 0          # a fresh object, not one of CPython's cached small ints
    if ty == 'str':
        return 's%d' % i if i else ''
    if ty == 'float':
        return float(i) + 0.5 if i else float('0')
    if ty == 'listInt':
        return [int(str(1000 + i))] if i else []
    if ty == 'listStr':
        return ['s%d' % i]
    raise ValueError(ty)


def norm_v(v):
    return ['none', 0] if v[0] == 'none' else (['bool', v[1] % 2] if v[0] == 'bool' else [v[0], v[1]])


class Table:
    """objects of one case, looked up by identity"""

    def __init__(self):
        self.vals = {}       # (ty, id) -> object
        self.excs = []       # (kind, id, object)

    def val(self, v):
        k = tuple(norm_v(v))
        if k not in self.vals:
            self.vals[k] = mk_obj(*k)
        return self.vals[k]

    def exc(self, kind, i):
        e = BodyErr(i) if kind == 'body' else Thrown(i)
        self.excs.append((kind, i, e))
        return e

    def canon_v(self, o):
        for k, x in self.vals.items():
            if x is o:
                return [k[0], k[1]]
        if o is None:
            return ['none', 0]
        return ['?', type(o).__name__]

    def canon_e(self, e):
        for kind, i, x in self.excs:
            if x is e:
                return [kind, i]
        if type(e) is GeneratorExit:
            return ['exit']
        return ['?', type(e).__name__]


def drive(make, case, ped_exc):
    """call the generator function and perform the consumer operations; one fresh object table per run for exceptions,
    shared values"""
    c = case['c']
    tab = Table()
    script = []
    for st in c['script']:
        if st[0] == 'yield':
            script.append(('yield', tab.val(st[1]), st[2]))
        elif st[0] == 'return':
            script.append(('return', tab.val(st[1])))
        else:
            script.append(('raise', tab.exc('body', st[1])))
    ops = []
    for op in c['ops']:
        ops.append((op[0], tab.val(op[1])) if op[0] == 'send' else (op[0], tab.exc('thrown', op[1])) if op[0] == 'throw' else (op[0],))
    J = []
    S = make.__globals__['_S']
    S['script'], S['J'] = script, J
    try:
        g = make()
    except ped_exc:
        return {'created': 'ped', 'steps': [], 'ran': len(J)}
    except BaseException as e:
        return {'created': 'other:' + type(e).__name__, 'steps': [], 'ran': len(J)}
    steps = []
    try:
        iter_self = iter(g) is g
    except BaseException as e:
        iter_self = False
    for op in ops:
        n0 = len(J)
        try:
            if op[0] == 'next':
                obs = ['got'] + tab.canon_v(next(g))
            elif op[0] == 'send':
                obs = ['got'] + tab.canon_v(g.send(op[1]))
            elif op[0] == 'throw':
                obs = ['got'] + tab.canon_v(g.throw(op[1]))
            else:
                r = g.close()
                obs = ['closed'] if r is None else ['closedWith'] + tab.canon_v(r)
        except StopIteration as e:
            obs = ['stop'] + tab.canon_v(e.value)
        except ped_exc:
            obs = ['ped']
        except BaseException as e:
            ce = tab.canon_e(e)
            if ce[0] != '?':
                obs = ['exc'] + ce
            elif type(e) is TypeError:
                obs = ['typeErr']
            elif type(e) is RuntimeError:
                obs = ['runtimeErr']
            else:
                obs = ['other', type(e).__name__]
        jev = []
        for ev in J[n0:]:
            if ev[0] in ('yield', 'recv', 'ret'):
                jev.append([ev[0]] + tab.canon_v(ev[1]))
            elif ev[0] == 'thrown':
                ce = tab.canon_e(ev[1])
                jev.append(['exit'] if ce == ['exit'] else ['thrown', ce[1]] if ce[0] == 'thrown' else ['thrown?'] + ce)
            else:
                ce = tab.canon_e(ev[1])
                jev.append(['raise', ce[1]] if ce[0] == 'body' else ['raise?'] + ce)
        steps.append([obs, jev])
    for _ in range(len(script) + 2):        # finish the generator (a body that catches GeneratorExit needs several rounds)
        try:
            g.close()
            break
        except RuntimeError:
            continue
        except BaseException:
            break
    return {'created': 'ok', 'steps': steps, 'iterSelf': iter_self, 'cls': type(g).__name__}


def share(r, cache):
    """identical step records share one object (the exhaustive families repeat them a lot; keeps the thorough tier's memory down)"""
    for d in (r, r['twin']):
        d['steps'] = [cache.setdefault(repr(st), st) for st in d['steps']]
    return r


def run_impl(cases):
    from pedantic.exceptions import PedanticTypeCheckException
    cache = {}
    d = tempfile.mkdtemp(prefix='pedgen_')
    out = []
    hook = sys.unraisablehook
    sys.unraisablehook = lambda *a: None      # generators abandoned at a `yield` inside `except BaseException` complain when collected
    try:
        mod, keys = build_module(cases, d)
        for c in cases:
            k = keys[(c['x']['kind'], ann_key(c['c']['ann']))]
            dec, twin = mod._MAKERS[k]
            r = drive(dec, c, PedanticTypeCheckException)
            r['twin'] = drive(twin, c, PedanticTypeCheckException)
            out.append(share(r, cache))
    finally:
        import gc
        gc.collect()
        sys.unraisablehook = hook
        sys.modules.pop('pedgen_prog', None)
        shutil.rmtree(d, ignore_errors=True)
    return out


def run_impl_mixed(cases, other_run_impl):
    """for a plugin whose case list mixes models: genwrap cases go to `run_impl`, the rest to `other_run_impl`; order kept"""
    mine = [i for i, c in enumerate(cases) if c.get('m') == MODEL]
    rest = [i for i, c in enumerate(cases) if c.get('m') != MODEL]
    out = [None] * len(cases)
    if rest:
        for i, r in zip(rest, other_run_impl([cases[i] for i in rest])):
            out[i] = r
    if mine:
        for i, r in zip(mine, run_impl([cases[i] for i in mine])):
            out[i] = r
    return out


# ------------------------------------------------------------------------------------------------ verdicts

def correspondence(case, impl, model):
    m = model['model']
    want = 'ok' if m['created'] else 'ped'
    if impl['created'] != want:
        return False, f"call: implementation {impl['created']}, model {want}"
    if impl['steps'] != m['steps']:
        k = next((i for i, (a, b) in enumerate(zip(impl['steps'], m['steps'])) if a != b), min(len(impl['steps']), len(m['steps'])))
        return False, f"step {k}: implementation {impl['steps'][k] if k < len(impl['steps']) else None}, model {m['steps'][k] if k < len(m['steps']) else None}"
    if impl['created'] != 'ok' and impl.get('ran'):
        return False, 'the body ran although the call raised'
    tw = impl['twin']
    if tw['created'] != 'ok' or tw['steps'] != model['plain']:
        return False, f"undecorated twin {tw['created']} {tw['steps']} differs from the model of a plain generator {model['plain']}"
    return True, ''


def agree_at(impl, model, ks, prefix=False):
    """what a finding needs besides lying in its region: at the failing steps `ks` (with prefix=True: at every step up to max(ks))
    the implementation does exactly what the model of the current code says, and the twin what the model of a plain generator says"""
    m = model['model']
    if impl['created'] != ('ok' if m['created'] else 'ped'):
        return False
    if prefix and ks:
        ks = range(max(ks) + 1)
    return all(k < len(m['steps']) and impl['steps'][k] == m['steps'][k] and impl['twin']['steps'][k] == model['plain'][k] for k in ks)


def describe(case):
    c = case['c']
    return f"{case['x']['kind']} -> {ann_src(c['ann'])}; body script {c['script']}; consumer {c['ops']}"


def obs_kinds(impl):
    return '+'.join(sorted({s[0][0] for s in impl['steps']})) if impl['created'] == 'ok' else impl['created'].split(':')[0]


def base_tag(case):
    a = case['c']['ann']
    return ('q:' if a['quoted'] else '') + a['base'].replace('typing.', 't.').replace('collections.abc.', 'abc.') + str(len(a['args']))


def judge_guard(case, impl, model):
    """C03: SendClause / ValueClauses / CreationGuard evaluated on what the IMPLEMENTATION did, with the spec's conformance sets"""
    corr, why = correspondence(case, impl, model)
    sp = model['spec']
    ops = case['c']['ops']
    fails = []          # (step index or -1, text)
    if not sp['admits'] and impl['created'] == 'ok':
        fails.append((-1, f"the call returned a {impl.get('cls')} although a generator does not conform to the annotation"))
    if impl['created'] != 'ok' and impl.get('ran'):
        fails.append((-1, 'the body ran although the call raised'))
    nontrivial = impl['created'] == 'ped'
    if sp.get('meaning') is not None and impl['created'] == 'ok':
        nc = {k: [tuple(v) for v in vs] for k, vs in sp['nonconf'].items()}
        for k, (obs, jev) in enumerate(impl['steps']):
            op = ops[k][0]
            for ev in jev:
                if ev[0] == 'recv' and tuple(ev[1:]) in nc['S']:
                    fails.append((k, f'step {k} ({ops[k]}): the body received {ev[1:]}, which does not conform to the send type'))
                if ev[0] == 'recv' and ev[1] == '?':
                    fails.append((k, f'step {k}: the body received an object that is not the one sent'))
                if op != 'close' and ev[0] == 'yield' and tuple(ev[1:]) in nc['Y']:
                    nontrivial = True
                    if obs != ['ped']:
                        fails.append((k, f'step {k} ({ops[k]}): the body yielded {ev[1:]} (does not conform to the yield type) and the caller got {obs} instead of PedanticTypeCheckException'))
                if op != 'close' and ev[0] == 'ret' and tuple(ev[1:]) in nc['R']:
                    nontrivial = True
                    if obs != ['ped']:
                        fails.append((k, f'step {k} ({ops[k]}): the body returned {ev[1:]} (does not conform to the return type) and the caller got {obs} instead of PedanticTypeCheckException'))
            if obs[0] == 'got' and tuple(obs[1:]) in nc['Y']:
                fails.append((k, f'step {k} ({ops[k]}): the caller was handed {obs[1:]}, which does not conform to the yield type'))
            if obs[0] == 'stop' and tuple(obs[1:]) in nc['R'] and not (obs[1] == 'none' and not any(e[0] == 'ret' for e in jev)):
                fails.append((k, f'step {k} ({ops[k]}): StopIteration value {obs[1:]} does not conform to the return type'))
            if ops[k][0] == 'send' and tuple(norm_v(ops[k][1])) in nc['S'] and k > 0:
                nontrivial = True
    pfail = finding = None          # no open finding in the guard view: `throw` checks like `send` now
    if fails:
        pfail = fails[0][1] + ' - ' + describe(case)
    return {'corr': corr, 'pfail': pfail, 'finding': finding, 'nontrivial': nontrivial,
            'tag': f"gen/{case['x']['kind']}/{base_tag(case)}/{obs_kinds(impl)}", 'why': why}


def judge_transparent(case, impl, model):
    """C04: when every value conforms the decorated generator function shows consumer and body what the undecorated twin shows"""
    corr, why = correspondence(case, impl, model)
    sp = model['spec']
    tw = impl['twin']
    claimed = sp.get('meaning') is not None and bool(sp.get('allConforming'))
    pfail = finding = None
    if claimed:
        if impl['created'] != 'ok':
            pfail = f"the call raised ({impl['created']}) although the annotation is a generator type and every value conforms"
            if agree_at(impl, model, []) and not sp['supportedSpelling']:
                finding = 'generatorAnnotationSpelling'
        elif not impl.get('iterSelf'):
            pfail = 'iter(g) is not g'
        elif impl['steps'] != tw['steps']:
            k = next((i for i, (a, b) in enumerate(zip(impl['steps'], tw['steps'])) if a != b), 0)
            pfail = f'step {k} ({case["c"]["ops"][k]}): decorated {impl["steps"][k]}, undecorated twin {tw["steps"][k]}'
        if pfail:
            pfail += ' - ' + describe(case)
    return {'corr': corr, 'pfail': pfail, 'finding': finding, 'nontrivial': claimed,
            'tag': f"gen/{case['x']['kind']}/{base_tag(case)}/conf={int(claimed)}/{obs_kinds(impl)}", 'why': why}


# ------------------------------------------------------------------------------------------------ cases

def mk(ann, script, ops, kind='func', fam='exh'):
    return {'m': MODEL, 'c': {'ann': ann, 'script': [list(s) for s in script], 'ops': [list(o) for o in ops]}, 'x': {'kind': kind, 'fam': fam}}


I, S, N = ['int', 1], ['str', 0], ['none', 0]          # S is the empty string: falsy and (for the yield type int) non-conforming
YIELDS_Q = [('yield', I, 0), ('yield', S, 0), ('yield', I, 1), ('yield', I, 2), ('yield', N, 0)]
TERMS = [('return', I), ('return', S), ('raise', 5)]
OPS_Q = [('next',), ('send', ['int', 3]), ('send', ['str', 0]), ('throw', 7), ('close',)]


def scripts_upto(n, yields=YIELDS_Q, terms=TERMS):
    out = []
    for k in range(n + 1):
        for ys in itertools.product(yields, repeat=k):
            out.append(list(ys))                      # ends by falling off the end
            if k < n:
                for t in terms:
                    out.append(list(ys) + [t])
    return out


def ops_upto(n, alphabet=OPS_Q):
    out = []
    for k in range(n + 1):
        out += [list(o) for o in itertools.product(alphabet, repeat=k)]
    return out


ANN_FORMS = (
    [{'base': b, 'args': [], 'quoted': False} for b in ('typing.Generator', 'typing.Iterator', 'typing.Iterable', 'int', 'str', 'none', 'object',
                                                        'typing.Any', 'typing.Optional', 'typing.Union', 'collections.abc.Generator',
                                                        'collections.abc.Iterator')]
    + [{'base': 'typing.List', 'args': ['int'], 'quoted': False}, {'base': 'typing.Sequence', 'args': ['int'], 'quoted': False},
       {'base': 'typing.AsyncGenerator', 'args': ['int', 'none'], 'quoted': False}, {'base': 'typing.AsyncIterator', 'args': ['int'], 'quoted': False},
       {'base': 'typing.Collection', 'args': ['int'], 'quoted': False},
       {'base': 'collections.abc.Generator', 'args': ['int', 'int', 'str'], 'quoted': False},
       {'base': 'collections.abc.Generator', 'args': ['int'], 'quoted': False},
       {'base': 'collections.abc.Generator', 'args': ['int', 'str'], 'quoted': False},
       {'base': 'collections.abc.Iterator', 'args': ['int'], 'quoted': False}, {'base': 'collections.abc.Iterable', 'args': ['int'], 'quoted': False},
       {'base': 'typing.Generator', 'args': ['int', 'int', 'str'], 'quoted': True}, {'base': 'typing.Iterator', 'args': ['int'], 'quoted': True},
       {'base': 'typing.Iterable', 'args': ['int'], 'quoted': True},
       GEN3('int', 'int', 'str'), ITER1('int'), ITER1('int', 'typing.Iterable'), GEN3('any', 'any', 'any'), GEN3('int', 'none', 'none')])


def rnd_val(r, want=None, p_good=0.75):
    """a value, mostly conforming to slot type `want`"""
    if want is not None and r.random() < p_good:
        ty = r.choice(GOOD[want])
    else:
        ty = r.choice(VTYS)
    return [ty, 0 if ty == 'none' else r.randint(0, 1) if ty == 'bool' else r.randint(1, 40) if ty == 'listStr' or r.random() < 0.88 else 0]


def ann_pool(r, n):
    """the annotations of one run's random cases (every distinct (kind, annotation) costs one decorated function: a few ms)"""
    pool = []
    for _ in range(n):
        x = r.random()
        if x < 0.7:
            pool.append(GEN3(r.choice(TYS), r.choice(TYS + ['none', 'int']), r.choice(TYS + ['none', 'none'])))
        else:
            pool.append(ITER1(r.choice(TYS), r.choice(['typing.Iterator', 'typing.Iterable'])))
        if r.random() < 0.3 and any(t in ('listInt', 'optInt') for t in pool[-1]['args']):
            pool[-1] = dict(pool[-1], pep585=True)
    return pool


def rnd_case(r, pool, fam='rnd'):
    if r.random() < 0.9:
        ann = r.choice(pool)
    else:
        ann = r.choice(ANN_FORMS)
    y, s, t = (ann['args'] + ['none', 'none'])[:3] if len(ann['args']) in (1, 3) else ('int', 'none', 'none')
    p_good = r.choice([1.0, 0.9, 0.75, 0.5])
    script = []
    for _ in range(r.choice([0, 1, 1, 2, 2, 3, 3, 4, 5, 6])):
        k = r.choices(['yield', 'return', 'raise'], [8, 1, 1])[0]
        if k == 'raise':
            script.append(['raise', r.randint(1, 9)])
            break
        if k == 'return':
            script.append(['return', rnd_val(r, t, p_good)])
            break
        script.append(['yield', rnd_val(r, y, p_good), r.choice([0, 0, 0, 1, 1, 2])])
    ops = []
    for i in range(r.choice([0, 1, 2, 3, 3, 4, 4, 5, 6, 7, 9])):
        k = r.choices(['next', 'send', 'throw', 'close'], [4 if s in ('none', 'any', 'optInt') else 1, 5, 1.5, 0.7])[0]
        if k == 'send':
            # the priming send must be None for CPython; sometimes it is not (failed priming)
            ops.append(['send', N if i == 0 and r.random() < 0.85 else rnd_val(r, s, p_good)])
        elif k == 'throw':
            ops.append(['throw', r.randint(1, 9)])
        else:
            ops.append([k])
    return mk(ann, script, ops, r.choice(KINDS), fam)


def seed_cases():
    """hand-written interactions that must stay in every run: the interactions of the three repaired findings (throw answered with
    a bad yield / return, next on an exhausted generator, failed priming), the witnesses of the open spelling finding, the regression
    interaction of a late "primed" flag (first yield rejected, then a bad send), bad return after good yields"""
    g = GEN3('int', 'int', 'str')
    return [
        mk(g, [('yield', ['int', 1], 1), ('yield', ['str', 2], 0)], [('next',), ('throw', 7)], 'func', 'seed'),
        mk(g, [('yield', ['int', 1], 1), ('return', ['int', 5])], [('next',), ('throw', 7)], 'method', 'seed'),
        mk(GEN3('int', 'none', 'str'), [('yield', ['int', 1], 0), ('return', ['str', 2])], [('next',), ('next',), ('next',)], 'func', 'seed'),
        mk(GEN3('int', 'int', 'none'), [('yield', ['int', 1], 0)], [('send', ['int', 5]), ('next',)], 'func', 'seed'),
        mk(ITER1('int', 'collections.abc.Iterator'), [('yield', ['int', 1], 0)], [('next',)], 'func', 'seed'),
        mk({'base': 'typing.Iterator', 'args': ['int'], 'quoted': True}, [('yield', ['int', 1], 0)], [('next',)], 'func', 'seed'),
        mk(g, [('yield', ['str', 9], 0), ('yield', ['int', 2], 0), ('yield', ['int', 3], 0)],
           [('next',), ('send', ['str', 3]), ('send', ['int', 4]), ('send', ['float', 1]), ('send', ['int', 0])], 'func', 'seed'),
        mk(GEN3('float', 'float', 'none'), [('yield', ['int', 0], 0), ('yield', ['float', 2], 0)],
           [('next',), ('send', ['str', 1]), ('send', ['float', 3]), ('next',)], 'method', 'seed'),
        mk(g, [('yield', ['int', 1], 0), ('yield', ['bool', 1], 0), ('return', ['int', 0])], [('next',), ('send', ['bool', 0]), ('send', ['int', 2])], 'static', 'seed'),
    ]


def gen_cases(rng, tier):
    quick = tier == 'quick'
    out = seed_cases()
    # 1. exhaustive interaction spaces
    scripts = scripts_upto(3, YIELDS_Q[:3] if quick else YIELDS_Q)
    opss = ops_upto(3)
    anns = [GEN3('int', 'int', 'str'), ITER1('int')] + ([] if quick else [GEN3('str', 'none', 'int'), GEN3('any', 'optInt', 'any')])
    for ann in anns:
        for sc in scripts:
            for ops in opss:
                out.append(mk(ann, sc, ops, 'func', 'exh'))
    if not quick:       # one more consumer operation on the smaller script alphabet
        for ann in anns[:1]:
            for sc in scripts_upto(3, YIELDS_Q[:3]):
                for ops in itertools.product(OPS_Q, repeat=4):
                    out.append(mk(ann, sc, list(ops), 'func', 'exh4'))
    # 2. every annotation form x small scripts x small consumer sequences x every kind of callable
    few_scripts = [[], [('yield', S, 0), ('yield', I, 0)], [('yield', I, 0), ('return', S)], [('yield', I, 1), ('yield', S, 0)],
                   [('return', I)], [('yield', I, 2), ('yield', I, 0), ('raise', 3)]]
    few_ops = [[], [('next',), ('next',)], [('next',), ('send', ['int', 3]), ('next',)], [('next',), ('throw', 7), ('next',)],
               [('send', ['int', 3]), ('next',)], [('next',), ('close',), ('next',)], [('throw', 7)],
               [('next',), ('send', ['str', 4]), ('send', ['int', 0]), ('next',), ('next',)]]
    if not quick:
        few_scripts += [[('yield', I, 0)], [('raise', 3)], [('yield', N, 0), ('return', N)]]
        few_ops += [[('next',)], [('close',)], [('close',), ('next',)], [('next',), ('next',), ('next',), ('close',)]]
    for ann in ANN_FORMS:
        for kind in KINDS:
            for sc in few_scripts:
                for ops in few_ops:
                    out.append(mk(ann, sc, ops, kind, 'ann'))
    # 2b. slot types spelled as forward references to names of the defining module (yield / send / return position)
    for ann in (dict(GEN3('str', 'str', 'str'), fwd=True), dict(ITER1('str'), fwd=True), dict(GEN3('int', 'int', 'str'), fwd=True),
                dict(GEN3('str', 'none', 'int'), fwd=True)):
        for kind in KINDS:
            for sc in [[('yield', S, 0), ('yield', I, 0)], [('yield', S, 0), ('return', S)], [('return', S)], [('yield', S, 1), ('yield', S, 0), ('return', I)]]:
                for ops in [[('next',), ('next',)], [('next',), ('send', ['str', 4]), ('next',)], [('next',), ('send', ['int', 3]), ('next',)],
                            [('next',), ('throw', 7), ('next',)], [('next',), ('next',), ('next',)]]:
                    out.append(mk(ann, sc, ops, kind, 'fwd'))
    # 2c. parametrised slot types in the builtin spelling; several values of ONE class in a row, a later one non-conforming
    LI, LS, LI2 = ['listInt', 3], ['listStr', 5], ['listInt', 7]
    for ann in (dict(ITER1('listInt'), pep585=True), dict(GEN3('listInt', 'none', 'listInt'), pep585=True), dict(GEN3('optInt', 'optInt', 'optInt'), pep585=True),
                ITER1('listInt'), GEN3('listInt', 'none', 'listInt')):
        for kind in KINDS:
            for sc in [[('yield', LI, 0), ('yield', LS, 0)], [('yield', LI, 0), ('yield', LI2, 0), ('yield', LS, 0)], [('yield', LI, 1), ('yield', LS, 0)],
                       [('yield', LI, 0), ('return', LS)], [('yield', LS, 0), ('yield', LI, 0)], [('yield', I, 0), ('yield', S, 0), ('return', I)]]:
                for ops in [[('next',), ('next',), ('next',)], [('next',), ('throw', 7), ('next',)], [('next',), ('send', N), ('next',), ('next',)]]:
                    out.append(mk(ann, sc, ops, kind, 'sameclass'))
    # 3. seeded random longer interactions
    pool = ann_pool(rng, 50 if quick else 400)
    for _ in range(6000 if quick else 60000):
        out.append(rnd_case(rng, pool))
    return out


def search_cases(rng, tier, near):
    pool = ann_pool(rng, 50)
    return [rnd_case(rng, pool, 'search') for _ in range(6000)]


def coverage(results):
    """extra evidence: which branches of the model the run went through (results = core's (case, impl, model, judgement) tuples)"""
    obs, jev, created, kinds, fams, ops = {}, {}, {}, {}, {}, {}
    for (c, i, m, j) in results:
        if c.get('m') != MODEL:
            continue
        kinds[c['x']['kind']] = kinds.get(c['x']['kind'], 0) + 1
        fams[c['x'].get('fam', '?')] = fams.get(c['x'].get('fam', '?'), 0) + 1
        created[i['created']] = created.get(i['created'], 0) + 1
        for k, (o, js) in enumerate(i['steps']):
            key = c['c']['ops'][k][0] + '->' + o[0] + (':' + o[1] if o[0] == 'exc' else '')
            obs[key] = obs.get(key, 0) + 1
            for e in js:
                jev[e[0]] = jev.get(e[0], 0) + 1
    return {'genwrap_op_outcomes': obs, 'genwrap_journal_events': jev, 'genwrap_call_outcomes': created, 'genwrap_callable_kinds': kinds,
            'genwrap_families': fams}
